"""X04 (extra module) - the SSH agent client of asyncssh and agent forwarding
(asyncssh/agent.py, agent_unix.py; connection.py create_agent_listener /
create_agent_connection / open_agent_connection /
_process_auth_agent_at_openssh_dot_com_open; channel.py auth-agent-req).

1. TLC checks specs/Agent/Agent.tla exhaustively at small constants.
   Part "client" (one SSHAgentClient, concurrent callers, a scriptable agent):
   OwnResponse, NoStaleSend, NoUseOfBroken, Mutex, Fifo, ConnectOnce,
   FlagsRight, SignNamesKey and, under weak fairness, EveryCallEnds.
   Part "fwd" (sessions, gates, agent channels, relay with two hold points):
   OpenOnlyIfEnabled, OpenOnlyIfGranted, Conservation, NoUnjustDiscard,
   EndAfterData, CloseBoth.  Sensitivity variants TLC must reject: no lock,
   broken connection used again, lock kept by a cancelled holder, server
   opens without listener, a close not passed on, data dropped at a close -
   and the two rules of the pinned tree that are genuine defects (connection
   kept when a caller is cancelled while its answer is outstanding; RSA
   SHA-2 flags ORed together).  Vacuity witnesses.  -coverage: every action
   of a part must have fired.
2. Behaviours (BFS export of every distinct final state + -simulate) are
   replayed by harness/drivers/agent.py into real SSHAgentClient objects
   (direct UNIX connection; over a forwarded agent channel of a real
   client/server pair, through open_agent_connection() and through the
   listener's path) and into a real pair for the forwarding part, against
   an in-memory fake agent.  L1 monitors decide violations, the comparison
   with the model after every step decides divergences.
3. Negative controls: four monkeypatched mutants of the code must be caught.
"""

import concurrent.futures
import json
import os
import random
import re
import time

from harness import tlc
from harness.framework import run_check, MachineryError, VERIF

SPEC = os.path.join(VERIF, 'specs', 'Agent')
PID = os.getpid()

ALLOPS = ('{"list", "listonly", "sign", "add", "remove", "removeall", "lock", '
          '"unlock", "query", "scadd", "scremove"}')
ALLFAULTS = '{"wrong", "bad", "zero", "trunc", "over", "close"}'
BASE = dict(Part='"client"', NC=2, Keys='{"ed"}', RsaKeys='{}',
            AddKeys='{"ed"}', InitStore='{"ed"}', OpKinds='{"list", "remove"}',
            AlgDepth=0, MaxCalls=3, FaultKinds='{"wrong", "trunc"}',
            MaxFaults=1, MaxCancel=1, MaxCloses=1, MaxToggle=0, Units=2,
            RTC='FALSE', KeepLog='FALSE',
            UseLock='TRUE', DropOnError='TRUE', DropOnCancel='TRUE',
            ReleaseOnCancel='TRUE', AccumFlags='FALSE',
            ClientFwd='TRUE', ServerFwd='TRUE', NS=1, NCh=1, MaxW=1,
            Hows='{"api"}', ClientGate='"option"', ServerGate='TRUE',
            RelayEof='TRUE', DropOnClose='FALSE')
FWD = dict(Part='"fwd"')
CINV = ['TypeOK', 'OwnResponse', 'NoStaleSend', 'NoUseOfBroken', 'Mutex',
        'Fifo', 'ConnectOnce', 'FlagsRight', 'SignNamesKey']
FINV = ['OpenOnlyIfEnabled', 'OpenOnlyIfGranted', 'Conservation',
        'NoUnjustDiscard', 'EndAfterData', 'CloseBoth']
CACTIONS = ['Acquire', 'Start', 'Receive', 'Fail', 'Call', 'Reconnect',
            'AgentProcess', 'ProcessOrphan', 'ForgetOrphan', 'AgentCloses',
            'DeliverChunk', 'DeliverEof', 'Cancel', 'UserClose',
            'ToggleListen']
FACTIONS = ['OpenSession', 'CloseSession', 'OpenAgent', 'SrvWrite', 'SrvEnd',
            'RelayUp', 'RelayUpEnd', 'AgtWrite', 'AgtEnd', 'RelayDown',
            'ToggleAgent']

JVM = {'_JAVA_OPTIONS': '-XX:TieredStopAtLevel=1 -XX:ParallelGCThreads=2 '
                        '-XX:CICompilerCount=1'}
CVARS = ('lbl', 'pc', 'conn', 'store', 'locked', 'c2a')
# the client's stream pair: asyncio.open_unix_connection to the agent; the
# server side of a real pair through open_agent_connection(); a process on
# the server through the path of the agent listener
TRANSPORTS = ('unix', 'fwd', 'fwdpath')
FVARS = ('lbl', 'lsn', 'up', 'down')


def write_cfg(name, consts, invs=(), view=True, spec='Spec', prop=None):
    d = dict(BASE)
    d.update(consts)
    lines = ['CONSTANTS'] + [f'  {k} = {v}' for k, v in d.items()]
    lines += [f'SPECIFICATION {spec}', 'CHECK_DEADLOCK FALSE']
    if view:
        lines.append('VIEW view')
    lines += [f'INVARIANT {i}' for i in invs]
    if prop:
        lines.append(f'PROPERTY {prop}')
    with open(os.path.join(SPEC, name), 'w') as f:
        f.write('\n'.join(lines) + '\n')
    return name


def mc(name, consts, invs, workers=2, timeout=1500, prop=None, cov=False):
    tag = f'X04_{name}_{PID}'
    cfg = write_cfg(f'_x04_{name}_{PID}.cfg', consts, invs=invs,
                    view=prop is None,
                    spec='FairSpec' if prop else 'Spec', prop=prop)
    try:
        res = tlc.run(SPEC, 'Agent', cfg, tag, workers=workers,
                      timeout=timeout, java_heap='3g', env=JVM, coverage=cov)
    finally:
        tlc.cleanup(tag)
        os.remove(os.path.join(SPEC, cfg))
    if prop and res.violation is None and res.error and \
            f'Temporal property {prop} was violated' in res.output:
        res.violation, res.error = prop, None
    return res


def emit(name, consts, invs, emitter, workers=1, timeout=1500):
    """exhaustive run (RTC, log kept, hidden by the VIEW) that also prints one
    behaviour per distinct final state"""
    tag = f'X04_{name}_{PID}'
    cfg = write_cfg(f'_x04_{name}_{PID}.cfg',
                    dict(consts, RTC='TRUE', KeepLog='TRUE'),
                    invs=list(invs) + [emitter])
    try:
        res = tlc.run(SPEC, 'Agent', cfg, tag, workers=workers,
                      timeout=timeout, java_heap='3g', env=JVM)
    finally:
        tlc.cleanup(tag)
        os.remove(os.path.join(SPEC, cfg))
    scripts = []
    for line in res.output.splitlines():
        if line.startswith('"<<\\"SCRIPT'):
            v = tlc.parse_value(tlc.parse_value(line))
            scripts.append((v[1], v[2]))
    return scripts, res


_RE_STATE = re.compile(r'^STATE_\d+ ==[ ]*\n(.*?)(?=\n\n|\Z)', re.S | re.M)
_RE_VAR = re.compile(r'^/\\ (\w+) = (.*?)(?=^/\\ |\Z)', re.S | re.M)


def read_traces(outdir, want):
    """-simulate file= output -> [[(lbl, {wanted variables})]]"""
    traces = []
    for n in sorted(os.listdir(outdir)):
        if not n.startswith('tr_'):
            continue
        with open(os.path.join(outdir, n)) as f:
            text = f.read()
        steps = []
        for m in _RE_STATE.finditer(text):
            st = {}
            for v in _RE_VAR.finditer(m.group(1) + '\n'):
                if v.group(1) in want:
                    st[v.group(1)] = tlc.parse_value(v.group(2))
            steps.append((st['lbl'], st))
        if len(steps) > 1:
            traces.append(steps[1:])
    return traces


def simulate(name, consts, invs, want, num, depth, seed, timeout=600):
    tag = f'X04_{name}_{PID}'
    cfg = write_cfg(f'_x04_{name}_{PID}.cfg', dict(consts, RTC='TRUE'),
                    invs=invs, view=False)
    out = tlc.workdir(tag + '_out')
    try:
        res = tlc.run(SPEC, 'Agent', cfg, tag, workers=1, timeout=timeout,
                      java_heap='2g', deadlock=False, env=JVM,
                      simulate=f'file={out}/tr,num={num}', depth=depth,
                      seed=seed)
        traces = read_traces(out, want)
    finally:
        tlc.cleanup(tag)
        tlc.cleanup(tag + '_out')
        os.remove(os.path.join(SPEC, cfg))
    if res.error and res.error != 'timeout' and not res.violation and \
            'Error:' not in res.output:
        res.error = None
        res.ok = True
    return traces, res


# ---------------------------------------------------------------------------
# verdicts
# ---------------------------------------------------------------------------

class Report:
    def __init__(self, ctx):
        self.ctx = ctx
        self.counters = {}
        self.suppressed = {}

    def add(self, part, r, replay):
        """verdicts of one replay; -> True when it touched a listed defect"""
        ctx = self.ctx
        defects = sorted({d for _, _, d in r['l1'] if d != 'none'} |
                         set(r.get('touched', ())))
        for clause, text, defect in r['l1']:
            key = (part, clause, defect)
            self.counters[key] = self.counters.get(key, 0) + 1
            if self.counters[key] > 2:
                continue
            sig = {'module': 'Agent', 'part': part, 'clause': clause,
                   'defect': defect, 'n': self.counters[key]}
            if replay.get('transport'):
                sig['transport'] = replay['transport']
            ctx.violation(sig, f'{clause} [{part}] {text}; schedule='
                               f'{" ".join(r["script"])[:400]}', replay=replay)
        if r['divergences'] and defects and \
                all(d != 'none' for _, _, d in r['l1']):
            # the model has the repaired rule: where a reported defect of the
            # pinned tree is in play the code cannot follow it step by step;
            # the monitors above still judge these behaviours
            for d in defects:
                self.suppressed[d] = self.suppressed.get(d, 0) + 1
            return True
        for d in r['divergences'][:2]:
            ctx.divergence(f'Agent [{part}] {d} schedule='
                           f'{" ".join(r["script"])[:300]}')
        return bool(defects)


# ---------------------------------------------------------------------------
# negative controls: mutants of the code that the replay must catch
# ---------------------------------------------------------------------------

def mutants():
    """name -> (part, install() -> undo())"""
    import asyncio
    from asyncssh import agent as A
    from asyncssh import connection as C
    from asyncssh.packet import Byte, UInt32, SSHPacket, PacketDecodeError

    def swap(obj, name, new):
        old = getattr(obj, name)
        setattr(obj, name, new)
        return lambda: setattr(obj, name, old)

    def no_lock():
        async def _make_request(self, msgtype, *args):
            try:
                if not self._writer:
                    await self.connect()
                reader, writer = self._reader, self._writer
                payload = Byte(msgtype) + b''.join(args)
                writer.write(UInt32(len(payload)) + payload)
                resplen = int.from_bytes((await reader.readexactly(4)), 'big')
                resp = SSHPacket(await reader.readexactly(resplen))
                return resp.get_byte(), resp
            except (OSError, EOFError, PacketDecodeError) as exc:
                await self._cleanup()
                raise ValueError(str(exc)) from None
        return swap(A.SSHAgentClient, '_make_request', _make_request)

    def no_cleanup():
        async def _cleanup(self):
            return None
        return swap(A.SSHAgentClient, '_cleanup', _cleanup)

    def flags_swapped():
        a = swap(A, 'SSH_AGENT_RSA_SHA2_256', 4)
        b = swap(A, 'SSH_AGENT_RSA_SHA2_512', 2)
        return lambda: (a(), b())

    def filter_inverted():
        orig = A.SSHAgentClient.get_keys

        async def get_keys(self, identities=None):
            res = await orig(self)
            if identities:
                res = [k for k in res if k.public_data not in identities]
            return res
        return swap(A.SSHAgentClient, 'get_keys', get_keys)

    def gate_open():
        def _open(self, packet):
            packet.check_end()
            return (self.create_unix_channel(),
                    self.forward_unix_connection(
                        self._agent_forward_path or
                        f'/x04/fwd-agent-{os.getpid()}'))
        return swap(C.SSHClientConnection,
                    '_process_auth_agent_at_openssh_dot_com_open', _open)

    def server_gate_open():
        async def create_agent_connection(self, session_factory, *,
                                          window=C._DEFAULT_WINDOW,
                                          max_pktsize=C._DEFAULT_MAX_PKTSIZE):
            chan = self.create_agent_channel(window, max_pktsize)
            session = await chan.open(session_factory)
            return chan, session
        return swap(C.SSHServerConnection, 'create_agent_connection',
                    create_agent_connection)

    return {'no lock': ('client', no_lock),
            'no cleanup after a failure': ('client', no_cleanup),
            'SHA-2 flag values swapped': ('client', flags_swapped),
            'identities filter inverted': ('client', filter_inverted),
            'client accepts agent channels whatever the option':
                ('fwd', gate_open),
            'server opens agent channels without a listener':
                ('fwd', server_gate_open)}


# ---------------------------------------------------------------------------

def labels_of(steps):
    return [s[0] if isinstance(s, tuple) and len(s) == 2 and
            isinstance(s[1], dict) else s for s in steps]


def main(ctx):
    from harness.drivers import agent as drv
    quick = ctx.tier == 'quick'
    rnd = random.Random(ctx.seed * 7919 + 404)
    os.makedirs(tlc.WORK, exist_ok=True)
    rep = Report(ctx)
    t_start = time.time()

    if ctx.replay_path:
        with open(ctx.replay_path) as f:
            rp = json.load(f)['replay']
        if rp['kind'] == 'misc':
            r = dict(l1=[(c, d, 'none') for c, d in
                         drv.misc_cases() + drv.auth_cases(tlc.WORK)],
                     divergences=[], script=['misc'])
        elif rp['kind'] == 'client':
            r = drv.replay_client(rp['labels'], transport=rp['transport'],
                                  init_store=tuple(rp['init_store']),
                                  units=rp['units'], seed=rp['seed'],
                                  workdir=tlc.WORK)
        else:
            r = drv.replay_fwd(rp['labels'], rp['client_fwd'],
                               rp['server_fwd'], workdir=tlc.WORK,
                               seed=rp['seed'], form=rp.get('form'))
        print('replayed:', {k: r.get(k) for k in
                            ('script', 'outcomes', 'l1', 'divergences')})
        ctx.count(('replay', ctx.replay_path))
        rep.add(rp['kind'], r, rp)
        return

    W = 2 if quick else 4
    small_f = dict(FWD, NS=1, NCh=1, MaxW=1)
    # ---- TLC jobs --------------------------------------------------------------
    # (name, expected violation, constants, invariants, property, coverage part)
    checks = [
        ('c_conc', None, dict(MaxCalls=3), CINV, None, None),
        ('c_store', None,
         dict(NC=1, Keys='{"ed", "rsa"}', RsaKeys='{"rsa"}',
              AddKeys='{"ed"}', InitStore='{"rsa"}', OpKinds=ALLOPS,
              AlgDepth=1, MaxCalls=2 if quick else 3, FaultKinds='{}',
              MaxFaults=0, MaxCancel=0, MaxCloses=0), CINV, None, None),
        ('c_faults', None,
         dict(OpKinds='{"list"}', MaxCalls=2, FaultKinds=ALLFAULTS,
              MaxFaults=2, MaxCancel=1, MaxCloses=1, MaxToggle=1,
              Units=2 if quick else 3), CINV, None, 'client'),
        ('c_live', None, dict(MaxCalls=2 if quick else 3), [],
         'EveryCallEnds', None),
        # sensitivity: wrong rules TLC must reject
        ('s_nolock', 'NoStaleSend',
         dict(UseLock='FALSE', MaxFaults=0, MaxCancel=0, MaxCloses=0),
         ['NoStaleSend'], None, None),
        ('s_nolock_own', 'OwnResponse',
         dict(UseLock='FALSE', MaxFaults=0, MaxCancel=0, MaxCloses=0),
         ['OwnResponse'], None, None),
        ('s_reuse', 'NoUseOfBroken', dict(DropOnError='FALSE', MaxCancel=0),
         CINV, None, None),
        ('s_norelease', 'EveryCallEnds',
         dict(ReleaseOnCancel='FALSE', MaxFaults=0, MaxCloses=0), [],
         'EveryCallEnds', None),
        # the pinned tree's own rules (reported defects): rejected as well
        ('pinned_cancel', 'OwnResponse',
         dict(DropOnCancel='FALSE', MaxFaults=0, MaxCloses=0),
         ['OwnResponse'], None, None),
        ('pinned_cancel_send', 'NoStaleSend',
         dict(DropOnCancel='FALSE', MaxFaults=0, MaxCloses=0),
         ['NoStaleSend'], None, None),
        ('pinned_flags', 'FlagsRight',
         dict(NC=1, Keys='{"rsa"}', RsaKeys='{"rsa"}', InitStore='{"rsa"}',
              AlgDepth=2, AccumFlags='TRUE', OpKinds='{"sign"}', MaxCalls=1,
              MaxFaults=0, MaxCancel=0, MaxCloses=0), CINV, None, None),
        # vacuity witnesses
        ('w_queued', 'NeverQueued', dict(NC=3), ['NeverQueued'], None, None),
        ('w_lostok', 'NeverLostThenOk', {}, ['NeverLostThenOk'], None, None),
        ('w_cancel', 'NeverCancelSent', {}, ['NeverCancelSent'], None, None),
        ('w_signfail', 'NeverRemovedThenFail',
         dict(OpKinds='{"sign", "remove"}'), ['NeverRemovedThenFail'], None,
         None),
        # ---- forwarding part
        ('f_one', None,
         dict(FWD, NS=1, NCh=1, MaxW=2, Hows='{"api", "path", "rogue"}',
              MaxToggle=1), FINV, None, 'fwd'),
        ('f_two', None,
         dict(FWD, NS=1 if quick else 2, NCh=2, MaxW=1,
              Hows='{"api"}' if quick else '{"api", "rogue"}'), FINV, None,
         None),
        ('f_clientoff', None,
         dict(FWD, NS=1, NCh=2, MaxW=1, ClientFwd='FALSE',
              Hows='{"api", "path", "rogue"}'), FINV, None, None),
        ('f_serveroff', None,
         dict(FWD, NS=1, NCh=1, MaxW=2, ServerFwd='FALSE',
              Hows='{"api", "path", "rogue"}'), FINV, None, None),
        ('f_strictgate', None,
         dict(small_f, Hows='{"api", "rogue"}', ClientGate='"request"'),
         FINV + ['OpenOnlyAfterRequest'], None, None),
        ('s_nogate', 'OpenOnlyIfGranted', dict(small_f, ServerGate='FALSE'),
         FINV, None, None),
        ('s_noeof', 'CloseBoth', dict(small_f, RelayEof='FALSE'), FINV, None,
         None),
        ('s_dropclose', 'Conservation', dict(small_f, DropOnClose='TRUE'),
         FINV, None, None),
        # the gate as coded (and as OpenSSH's): the option alone - a server
        # may open an agent channel before any session has asked
        ('w_beforerequest', 'OpenOnlyAfterRequest',
         dict(small_f, Hows='{"rogue"}'), ['OpenOnlyAfterRequest'], None,
         None),
        ('w_open', 'NeverOpen', small_f, ['NeverOpen'], None, None),
        ('w_refused', 'NeverRefused', dict(small_f, ClientFwd='FALSE'),
         ['NeverRefused'], None, None),
        ('w_discard', 'NeverDiscard', dict(small_f, MaxW=2),
         ['NeverDiscard'], None, None),
        ('w_bothends', 'NeverBothEnds', small_f, ['NeverBothEnds'], None,
         None),
    ]
    if not quick:
        checks += [
            ('c_conc3', None,
             dict(NC=3, MaxCalls=3, MaxFaults=1, MaxCancel=2), CINV, None,
             None),
            ('c_keys', None,
             dict(Keys='{"ed", "rsa"}', RsaKeys='{"rsa"}',
                  OpKinds='{"list", "sign", "remove"}', AlgDepth=1), CINV,
             None, None),
            ('c_live3', None, dict(NC=3, MaxCalls=3, MaxCloses=0), [],
             'EveryCallEnds', None),
            ('f_big', None,
             dict(FWD, NS=2, NCh=2, MaxW=1, Hows='{"api", "path", "rogue"}'),
             FINV, None, None),
        ]
    # BFS export: (name, part, constants, world)
    ex_store = dict(NC=1, Keys='{"ed", "rsa", "cert"}',
                    RsaKeys='{"rsa", "cert"}', AddKeys='{"ed", "rsa"}',
                    InitStore='{"ed", "cert"}', OpKinds=ALLOPS, AlgDepth=2,
                    MaxCalls=2, FaultKinds='{}', MaxFaults=0, MaxCancel=0,
                    MaxCloses=0)
    emits = [
        ('e_conc', 'client',
         dict(NC=2, MaxCalls=2 if quick else 3,
              OpKinds='{"list", "remove", "lock"}',
              FaultKinds='{"wrong", "trunc", "zero"}', MaxFaults=1,
              MaxCancel=1, MaxCloses=1), dict(init_store=('ed',), units=2)),
        ('e_store', 'client', ex_store,
         dict(init_store=('ed', 'cert'), units=2)),
        ('e_fwd', 'fwd',
         dict(FWD, NS=1, NCh=1, MaxW=2, Hows='{"api", "path", "rogue"}',
              MaxToggle=1), dict(client_fwd=True, server_fwd=True)),
        ('e_fwd_soff', 'fwd',
         dict(FWD, NS=1, NCh=1, MaxW=1, ServerFwd='FALSE',
              Hows='{"api", "rogue"}'),
         dict(client_fwd=True, server_fwd=False)),
        ('e_fwd_coff', 'fwd',
         dict(FWD, NS=1, NCh=2, MaxW=1, ClientFwd='FALSE',
              Hows='{"api", "path", "rogue"}'),
         dict(client_fwd=False, server_fwd=True)),
    ]
    k = 1 if quick else 10
    rich = dict(NC=3, Keys='{"ed", "rsa", "cert"}', RsaKeys='{"rsa", "cert"}',
                AddKeys='{"ed", "rsa"}', InitStore='{"ed", "cert"}',
                OpKinds=ALLOPS, AlgDepth=1, MaxCalls=7, FaultKinds=ALLFAULTS,
                MaxFaults=2, MaxCancel=2, MaxCloses=1, MaxToggle=2)
    sims = [
        # (name, part, number, depth, constants, world)
        ('m_rich2', 'client', 220 * k, 70, dict(rich, Units=2),
         dict(init_store=('ed', 'cert'), units=2)),
        ('m_rich3', 'client', 160 * k, 80, dict(rich, Units=3, MaxCancel=1),
         dict(init_store=('ed', 'cert'), units=3)),
        ('m_flags', 'client', 60 * k, 40,
         dict(rich, NC=2, AlgDepth=2, OpKinds='{"sign", "list", "remove"}',
              MaxCalls=5, MaxFaults=1, MaxCancel=0, MaxToggle=0, Units=2),
         dict(init_store=('ed', 'cert'), units=2)),
        ('m_calm', 'client', 120 * k, 60,
         dict(rich, NC=2, MaxCalls=8, MaxFaults=0, MaxCancel=1, MaxCloses=0,
              MaxToggle=0, Units=2),
         dict(init_store=('ed', 'cert'), units=2)),
        ('m_fwd', 'fwd', 120 * k, 40,
         dict(FWD, NS=2, NCh=3, MaxW=3, Hows='{"api", "path", "rogue"}',
              MaxToggle=1), dict(client_fwd=True, server_fwd=True)),
        ('m_fwd_soff', 'fwd', 30 * k, 30,
         dict(FWD, NS=2, NCh=3, MaxW=2, Hows='{"api", "path", "rogue"}',
              MaxToggle=1, ServerFwd='FALSE'),
         dict(client_fwd=True, server_fwd=False)),
        ('m_fwd_coff', 'fwd', 20 * k, 16,
         dict(FWD, NS=2, NCh=3, MaxW=2, Hows='{"api", "path", "rogue"}',
              MaxToggle=1, ClientFwd='FALSE'),
         dict(client_fwd=False, server_fwd=True)),
    ]

    ex = concurrent.futures.ThreadPoolExecutor(max_workers=6 if quick else 5)
    f_emit = [ex.submit(emit, n, kw, CINV if part == 'client' else FINV,
                        'EmitScript' if part == 'client' else 'EmitFwd')
              for n, part, kw, _w in emits]
    f_sim = [ex.submit(simulate, n, kw,
                       CINV if part == 'client' else FINV,
                       CVARS if part == 'client' else FVARS, num, depth,
                       ctx.seed * 1000 + 17 + i)
             for i, (n, part, num, depth, kw, _w) in enumerate(sims)]
    f_chk = [ex.submit(mc, n, kw, invs, W, 1500, prop, cov is not None)
             for n, _e, kw, invs, prop, cov in checks]

    # ---- negative controls (while TLC runs) ------------------------------------
    L = lambda k_='list', key='-', a=(): {'k': k_, 'key': key, 'a': list(a)}
    fixed_client = [
        ('two callers, one queue',
         [('call', 1, L()), ('reconnect', 1), ('process', 1, 'none', 2),
          ('deliver', 2), ('call', 1, L('sign', 'ed')),
          ('call', 2, L('remove', 'ed')), ('process', 2, 'none', 2),
          ('deliver', 1), ('deliver', 1), ('process', 3, 'none', 2),
          ('deliver', 2), ('call', 2, L('sign', 'ed')),
          ('process', 4, 'none', 2), ('deliver', 2)]),
        ('truncated answer, then the next caller',
         [('call', 1, L()), ('reconnect', 1), ('process', 1, 'trunc', 1),
          ('deliver', 1), ('delivereof',), ('call', 2, L()), ('reconnect', 2),
          ('process', 2, 'none', 2), ('deliver', 2)]),
        ('agent closes while idle',
         [('call', 1, L()), ('reconnect', 1), ('process', 1, 'none', 2),
          ('deliver', 2), ('agentcloses',), ('delivereof',), ('call', 2, L()),
          ('call', 1, L()), ('reconnect', 1), ('process', 3, 'none', 2),
          ('deliver', 2)]),
        ('each RSA hash once, identities filter',
         [('call', 1, L('sign', 'rsa', ['s256'])), ('reconnect', 1),
          ('process', 1, 'none', 2), ('deliver', 2),
          ('call', 1, L('sign', 'rsa', ['s512'])), ('process', 2, 'none', 2),
          ('deliver', 2), ('call', 2, L('sign', 'cert', ['sha1'])),
          ('process', 3, 'none', 2), ('deliver', 2),
          ('call', 2, L('list', 'rsa')), ('process', 4, 'none', 2),
          ('deliver', 2), ('call', 2, L('list', 'ed')),
          ('process', 5, 'none', 2), ('deliver', 2)]),
        ('agent not listening, then listening again',
         [('listen', False), ('call', 1, L()), ('reconnect', 1, False),
          ('call', 2, L()), ('reconnect', 2, False), ('listen', True),
          ('call', 1, L()), ('reconnect', 1, True), ('process', 3, 'none', 2),
          ('deliver', 2)]),
        ('wrong type, malformed body, zero length: the next call is in step',
         [('call', 1, L()), ('reconnect', 1), ('process', 1, 'wrong', 2),
          ('deliver', 2), ('call', 2, L()), ('process', 2, 'bad', 2),
          ('deliver', 2), ('call', 1, L('sign', 'ed')),
          ('process', 3, 'none', 2), ('deliver', 2),
          ('call', 1, L('remove', 'ed')), ('process', 4, 'zero', 2),
          ('deliver', 2), ('call', 2, L('sign', 'ed')), ('reconnect', 2),
          ('process', 5, 'none', 2), ('deliver', 2)]),
        ('declared length larger than the answer, agent closes',
         [('call', 1, L('sign', 'ed')), ('reconnect', 1),
          ('process', 1, 'over', 2), ('deliver', 2), ('delivereof',),
          ('call', 1, L('sign', 'ed')), ('reconnect', 1),
          ('process', 2, 'none', 2), ('deliver', 2)]),
        ('constraints, smart card, lock',
         [('call', 1, L('add', 'rsa', ['life'])), ('reconnect', 1),
          ('process', 1, 'none', 2), ('deliver', 2),
          ('call', 1, L('add', 'ed', ['confirm'])), ('process', 2, 'none', 2),
          ('deliver', 2), ('call', 1, L('add', 'ed', ['plain'])),
          ('process', 3, 'none', 2), ('deliver', 2),
          ('call', 2, L('scadd', '-', ['life'])), ('process', 4, 'none', 2),
          ('deliver', 2), ('call', 2, L('scremove')),
          ('process', 5, 'none', 2), ('deliver', 2), ('call', 2, L('lock')),
          ('process', 6, 'none', 2), ('deliver', 2), ('call', 1, L()),
          ('process', 7, 'none', 2), ('deliver', 2),
          ('call', 1, L('unlock', '-', ['wrong'])), ('process', 8, 'none', 2),
          ('deliver', 2), ('call', 1, L('unlock', '-', ['right'])),
          ('process', 9, 'none', 2), ('deliver', 2), ('call', 2, L('query')),
          ('process', 10, 'none', 2), ('deliver', 2),
          ('call', 2, L('removeall')), ('process', 11, 'none', 2),
          ('deliver', 2), ('call', 2, L()), ('process', 12, 'none', 2),
          ('deliver', 2)]),
        ('cancelled while waiting for the answer, next caller signs',
         [('call', 1, L('sign', 'ed')), ('reconnect', 1), ('cancel', 1),
          ('call', 2, L('remove', 'rsa')), ('reconnect', 2),
          ('process', 2, 'none', 2), ('deliver', 2)]),
    ]
    fixed_fwd = [
        ('request and answer, server end closes', True, True,
         [('session', 1), ('openagent', 1, 'api', 'open'), ('swrite', 1),
          ('relayup', 1, 1), ('awrite', 1), ('relaydown',), ('swrite', 1),
          ('send', 1, 'close'), ('relayup', 1, 1), ('relayupend', 1)]),
        ('agent answers and closes at once', True, True,
         [('session', 1), ('openagent', 1, 'path', 'open'), ('swrite', 1),
          ('relayup', 1, 1), ('awrite', 1), ('awrite', 1),
          ('aend', 1, 'close'), ('relaydown',)]),
        ('client option off, rogue server', False, True,
         [('session', 1), ('openagent', 1, 'api', 'prohibited'),
          ('openagent', 2, 'rogue', 'disabled')]),
        ('no session has asked', True, True,
         [('openagent', 1, 'api', 'prohibited'), ('session', 1),
          ('openagent', 2, 'api', 'open'), ('endsession', 1),
          ('openagent', 3, 'path', 'open')]),
        ('server option off', True, False,
         [('session', 1), ('openagent', 1, 'api', 'prohibited')]),
    ]
    init3 = ('ed', 'rsa', 'cert')
    nfixed = 0
    for name, labels in fixed_client:
        for tr in TRANSPORTS:
            r = drv.replay_client(labels, transport=tr, init_store=init3,
                                  units=2, seed=ctx.seed, workdir=tlc.WORK)
            nfixed += 1
            ctx.count(('fixed', name, tr))
            rep.add('client', r, dict(kind='client', labels=labels,
                                      transport=tr, init_store=init3, units=2,
                                      seed=ctx.seed))
    for name, cf, sf, labels in fixed_fwd:
        # every way the application can spell the client option
        for form in (drv.FORMS_ON if cf else drv.FORMS_OFF):
            r = drv.replay_fwd(labels, cf, sf, workdir=tlc.WORK,
                               seed=ctx.seed, form=form)
            nfixed += 1
            ctx.count(('fixed', name, form))
            rep.add('fwd', r, dict(kind='fwd', labels=labels, client_fwd=cf,
                                   server_fwd=sf, seed=ctx.seed, form=form))
    for clause, text in drv.misc_cases() + drv.auth_cases(tlc.WORK):
        ctx.violation({'module': 'Agent', 'part': 'misc', 'clause': clause},
                      f'{clause} [misc] {text}', replay=dict(kind='misc'))
    ctx.count(('fixed', 'misc'))
    caught = {}
    for mname, (part, install) in mutants().items():
        undo = install()
        hits = set()
        try:
            if part == 'client':
                for name, labels in fixed_client:
                    r = drv.replay_client(labels, transport='unix',
                                          init_store=init3, units=2,
                                          seed=ctx.seed, workdir=tlc.WORK)
                    hits |= {c for c, _, d in r['l1'] if d == 'none'}
            else:
                for name, cf, sf, labels in fixed_fwd:
                    r = drv.replay_fwd(labels, cf, sf, workdir=tlc.WORK,
                                       seed=ctx.seed)
                    hits |= {c for c, _, d in r['l1'] if d == 'none'}
        finally:
            undo()
        caught[mname] = sorted(hits)
        ctx.require(hits, f'negative control not caught: {mname}')
    ctx.notes.append('negative controls (monkeypatched mutants, fixed '
                     'schedules): ' + '; '.join(
                         f'{m} -> {"/".join(c)}' for m, c in caught.items()))

    # ---- replay: BFS exports ---------------------------------------------------
    nrep = {'client': 0, 'fwd': 0}
    touched = 0
    outcomes = {}
    opens = {}
    before_request = 0
    coe = 0
    budget_e = 700 if quick else 6000

    def run_client(labels_or_steps, world, transport, seed, tag):
        nonlocal touched, coe
        r = drv.replay_client(labels_or_steps, transport=transport,
                              seed=seed, workdir=tlc.WORK, **world)
        nrep['client'] += 1
        coe += r.get('chan_open_errors', 0)
        for s, (kind, oc) in r['outcomes'].items():
            outcomes[(transport, oc)] = outcomes.get((transport, oc), 0) + 1
        labels = labels_of(labels_or_steps)
        ctx.count((tag, transport, json.dumps(labels, sort_keys=True)),
                  nontrivial=len(labels) >= 4)
        if nrep['client'] % 397 == 5:
            ctx.sample({'part': 'client', 'transport': transport,
                        'schedule': r['script'][:30],
                        'outcomes': {s: list(o) for s, o in
                                     r['outcomes'].items()}})
        if rep.add('client', r, dict(kind='client', labels=labels,
                                     transport=transport,
                                     init_store=list(world['init_store']),
                                     units=world['units'], seed=seed)):
            touched += 1

    def run_fwd(labels_or_steps, world, seed, tag):
        nonlocal before_request
        r = drv.replay_fwd(labels_or_steps, workdir=tlc.WORK, seed=seed,
                           **world)
        nrep['fwd'] += 1
        for o in r['opens']:
            opens[o] = opens.get(o, 0) + 1
        before_request += r.get('before_request', 0)
        labels = labels_of(labels_or_steps)
        ctx.count((tag, json.dumps(world, sort_keys=True),
                   json.dumps(labels, sort_keys=True)),
                  nontrivial=len(labels) >= 3)
        if nrep['fwd'] % 197 == 5:
            ctx.sample({'part': 'fwd', 'world': world,
                        'schedule': r['script'][:30]})
        rep.add('fwd', r, dict(kind='fwd', labels=labels, seed=seed,
                               form=r.get('form'), **world))

    for (name, part, kw, world), fut in zip(emits, f_emit):
        scripts, res = fut.result()
        ctx.require_tlc_ok(f'Agent {name} (design check + export) {kw}', res)
        ctx.require(len(scripts) >= 10, f'{name}: only {len(scripts)} '
                                        'behaviours exported')
        scripts.sort(key=lambda s: json.dumps(s[0], sort_keys=True))
        rnd.shuffle(scripts)
        ordered = tlc.novelty_order(scripts) if len(scripts) > budget_e \
            else scripts
        for j, (labels, _final) in enumerate(ordered[:budget_e]):
            if part == 'client':
                run_client(labels, world,
                           ('unix', 'unix', 'fwd', 'fwdpath')[j % 4],
                           ctx.seed * 31 + j, name)
            else:
                run_fwd(labels, world, ctx.seed * 31 + j, name)
    # ---- replay: simulated behaviours -------------------------------------------
    for i, ((name, part, num, depth, kw, world), fut) in \
            enumerate(zip(sims, f_sim)):
        traces, res = fut.result()
        ctx.require(res.violation is None and not res.error,
                    f'Agent simulate {name}: {res.violation} {res.error}\n' +
                    res.output[-2000:])
        ctx.add_tlc(f'Agent simulate {name} {kw}', res)
        ctx.require(len(traces) >= num * 0.9,
                    f'{name}: only {len(traces)} behaviours')
        seen = set()
        for j, steps in enumerate(traces):
            key = json.dumps(labels_of(steps), sort_keys=True)
            if key in seen:
                continue
            seen.add(key)
            if part == 'client':
                run_client(steps, world, TRANSPORTS[j % 3],
                           ctx.seed * 131 + j, name)
            else:
                run_fwd(steps, world, ctx.seed * 131 + j, name)
    # ---- design checks -----------------------------------------------------------
    for (name, exp, kw, invs, prop, cov), fut in zip(checks, f_chk):
        res = fut.result()
        ctx.require_tlc_ok(f'Agent {name} {prop or ""} {kw}', res,
                           expect_violation=exp)
        if cov:
            acts = CACTIONS if cov == 'client' else FACTIONS
            dead = [a for a in acts if res.coverage.get(a, (0, 0))[1] == 0]
            ctx.require(not dead, f'{name}: actions never taken: {dead} '
                                  f'{res.coverage}')
    ex.shutdown()
    ctx.traces_validated(nrep['client'] + nrep['fwd'] + nfixed)
    ctx.notes.append('client calls by (transport, outcome): ' + ', '.join(
        f'{t}/{o}={n}' for (t, o), n in sorted(outcomes.items(),
                                               key=lambda x: str(x))))
    ctx.notes.append('agent channel opens by (how, outcome): ' + ', '.join(
        f'{h}/{o}={n}' for (h, o), n in sorted(opens.items())))
    ctx.notes.append(
        f'{before_request} agent channels opened by a server that ignores '
        'its own gate were accepted by the client BEFORE any session had '
        'sent auth-agent-req (the client\'s gate is the agent_forwarding '
        'option alone, as in OpenSSH): recorded, not a violation')
    ctx.notes.append(
        f'{coe} calls over open_agent_connection() ended with '
        'ChannelOpenError (the forwarded agent was down) where the direct '
        'transports raise ValueError: recorded, accepted as the failure of '
        'that call')
    for d, n in sorted(rep.suppressed.items()):
        ctx.notes.append(f'{n} behaviours touching the reported defect {d} '
                         'end differently from the (repaired) model; the '
                         'monitors judged them, they are not counted as '
                         'divergences')
    if ctx.violations:
        return
    ctx.require(nrep['client'] >= (900 if quick else 8000),
                f'only {nrep["client"]} client behaviours replayed')
    ctx.require(nrep['fwd'] >= (250 if quick else 2500),
                f'only {nrep["fwd"]} forwarding behaviours replayed')
    for oc in ('ok', 'fail', 'unk', 'dec', 'lost', 'cancel'):
        ctx.require(all(outcomes.get((tr, oc), 0) > 0 for tr in TRANSPORTS),
                    f'outcome {oc} not seen in every transport: {outcomes}')
    for o in (('api', 'open'), ('path', 'open'), ('rogue', 'open'),
              ('api', 'prohibited'), ('rogue', 'disabled'),
              ('api', 'noagent')):
        ctx.require(opens.get(o, 0) > 0, f'open outcome {o} never seen')
    ctx.assumptions += [
        'one SSHAgentClient object, 1..3 caller tasks, one request per API '
        'call (add_keys / remove_keys with one key); connect() and '
        'connect_agent() are not called concurrently with requests',
        'the agent answers in arrival order with OpenSSH ssh-agent '
        'semantics (locked agent: empty identity list, everything but '
        'unlock fails); signatures are symbolic (they name key, data and '
        'the hash the flags select)',
        'an answer is cut into 2 or 3 deliveries at byte positions the '
        'driver picks (half of the time inside the 4-byte length); faults: '
        'wrong type, malformed body, zero length, truncated + close, '
        'declared length larger than what follows + close, close instead '
        'of an answer, close while idle, not listening',
        'a cancelled caller is cancelled while it waits for the lock, for '
        'the connection attempt or for the answer; cancellation inside '
        'the clean-up after a failure (wait_closed) is not modelled',
        'the only instrumentation is a proxy around the reader / writer the '
        'client obtains and a gate in front of the connection attempt '
        '(harness/drivers/agent.py, monkeypatch of asyncssh.agent.'
        'open_agent in the driver only)',
        'forwarding: one SSH connection, <= 2 sessions, <= 3 agent channels, '
        '<= 3 units per direction; hold points in front of the agent (per '
        'channel) and on the SSH link towards the server (shared); key / '
        'certificate permissions (no-agent-forwarding) belong to C05 '
        'Restrict',
        'with transport fwd a refused channel open reaches the caller as '
        'ChannelOpenError (not ValueError): accepted as the failure of that '
        'call',
    ]
    ctx.notes.append(f'wall {time.time() - t_start:.0f}s')


if __name__ == '__main__':
    run_check('X04', main)
