"""Shared by C07 and C08: TLC runs on specs/Channel and replay of its
behaviours into a real client/server pair."""

import os
import random

from harness import tlc
from harness.framework import MachineryError, VERIF

SPEC = os.path.join(VERIF, 'specs', 'Channel')

BASE = dict(Chans='{1}', DTs='{0, 1}', InitWin=3, PktSize=2, MaxUnits=4,
            MaxWrite=3, MaxPause=2, Rogue=0, AccountBuffered='TRUE')

C07_INVS = ['DeliveredIsPrefix', 'Isolation', 'EOFLast']
C08_INVS = ['NeverExceedPeerWindow', 'NeverExceedPktSize',
            'NeverAcceptBeyondGrant', 'BufferBounded', 'WindowSane',
            'HonestNoError']


def write_cfg(name, consts, invariants=(), properties=(), view=True,
              spec='Spec'):
    d = dict(BASE)
    d.update(consts)
    lines = ['CONSTANTS'] + [f'  {k} = {v}' for k, v in d.items()]
    lines += [f'SPECIFICATION {spec}', 'CHECK_DEADLOCK FALSE']
    lines += [f'INVARIANT {i}' for i in invariants]
    lines += [f'PROPERTY {p}' for p in properties]
    if view:
        lines.append('VIEW view')
    with open(os.path.join(SPEC, name), 'w') as f:
        f.write('\n'.join(lines) + '\n')
    return name


def mc(ctx, tag, consts, invariants, expect=None, properties=(),
       spec='Spec', view=True, timeout=1500):
    cfg = write_cfg(f'_{tag}.cfg', consts, invariants, properties, view, spec)
    res = tlc.run(SPEC, 'Channel', cfg, tag, timeout=timeout)
    ctx.require_tlc_ok(f'Channel {tag} {consts}', res, expect_violation=expect)
    tlc.cleanup(tag)
    os.remove(os.path.join(SPEC, cfg))
    return res


def sim(ctx, tag, consts, num, depth, seed):
    cfg = write_cfg(f'_{tag}.cfg', consts, view=False)
    d = tlc.workdir(tag + '_out')
    res = tlc.run(SPEC, 'Channel', cfg, tag, workers=4, timeout=600,
                  simulate=f'file={d}/tr,num={num}', depth=depth, seed=seed)
    if res.error and res.error != 'timeout':
        raise MachineryError(f'simulate {tag}: {res.error}\n' +
                             res.output[-2000:])
    out = []
    for _, steps in tlc.read_sim_traces(d, 'tr_'):
        out.append([(st['lbl'], st) for _, st in steps[1:]])
    tlc.cleanup(tag + '_out')
    tlc.cleanup(tag)
    os.remove(os.path.join(SPEC, cfg))
    return out


def parse_set(s):
    return [int(x) for x in s.strip('{}').split(',') if x.strip()]


def replay_all(ctx, pid, prefix, sims, seed):
    """sims: list of (name, consts, num, depth, scale). Violations whose
    clause starts with the property id are reported."""
    from harness.drivers import channel
    total = 0
    for name, consts, num, depth, scale in sims:
        d = dict(BASE)
        d.update(consts)
        chans = parse_set(d['Chans'])
        traces = sim(ctx, f'{prefix}_sim_{name}', consts, num, depth, seed)
        ctx.require(traces, f'no simulation traces for {name}')
        for steps in traces:
            if len(steps) < 2:
                continue
            r = channel.replay(steps, chans, d['InitWin'], d['PktSize'],
                               scale)
            total += 1
            key = (name, tuple(map(str, r['script'])))
            ctx.count(key, nontrivial=len(r['script']) > 3)
            if total % 101 == 1:
                ctx.sample({'config': name, 'window': d['InitWin'],
                            'pktsize': d['PktSize'], 'scale': scale,
                            'script': r['script']})
            mine = [c for c in r['l1'] if c.startswith(pid)]
            if mine:
                ctx.violation({'module': 'Channel',
                               'clauses': sorted({c.split(':')[0]
                                                  for c in mine}),
                               'rogue': bool(r['rogue'])},
                              '; '.join(mine),
                              replay={'kind': 'behaviour', 'config': name,
                                      'consts': d, 'scale': scale,
                                      'script': r['script']})
            elif r['diverged']:
                ctx.divergence(f'{name}: {r["diverged"]} script='
                               f'{r["script"]}')
            if r['loop_exceptions']:
                ctx.divergence(f'{name}: loop exception '
                               f'{r["loop_exceptions"][0]} script='
                               f'{r["script"]}')
    ctx.traces_validated(total)
    return total
