"""Shared by C07 and C08: TLC runs on specs/Channel and replay of its
behaviours into a real client/server pair."""

import os
import random

from harness import tlc
from harness.framework import MachineryError, VERIF

SPEC = os.path.join(VERIF, 'specs', 'Channel')

BASE = dict(Chans='{1}', DTs='{0, 1}', InitWin=3, PktSize=2, MaxUnits=4,
            MaxWrite=3, MaxPause=2, Rogue=0, AccountBuffered='TRUE',
            High=1, Low=0, ResumeStrict='FALSE')

C07_INVS = ['DeliveredIsPrefix', 'Isolation', 'EOFLast']
C08_INVS = ['NeverExceedPeerWindow', 'NeverExceedPktSize',
            'NeverAcceptBeyondGrant', 'BufferBounded', 'WindowSane',
            'HonestNoError', 'WriterNotStuck']


def write_cfg(name, consts, invariants=(), properties=(), view=True,
              spec='Spec'):
    d = dict(BASE)
    d.update(consts)
    lines = ['CONSTANTS'] + [f'  {k} = {v}' for k, v in d.items()]
    lines += [f'SPECIFICATION {spec}', 'CHECK_DEADLOCK FALSE']
    lines += [f'INVARIANT {i}' for i in invariants]
    lines += [f'PROPERTY {p}' for p in properties]
    if view:
        lines.append('VIEW view')
    with open(os.path.join(SPEC, name), 'w') as f:
        f.write('\n'.join(lines) + '\n')
    return name


def mc(ctx, tag, consts, invariants, expect=None, properties=(),
       spec='Spec', view=True, timeout=1500):
    cfg = write_cfg(f'_{tag}.cfg', consts, invariants, properties, view, spec)
    res = tlc.run(SPEC, 'Channel', cfg, tag, timeout=timeout)
    ctx.require_tlc_ok(f'Channel {tag} {consts}', res, expect_violation=expect)
    tlc.cleanup(tag)
    os.remove(os.path.join(SPEC, cfg))
    return res


def sim(ctx, tag, consts, num, depth, seed):
    cfg = write_cfg(f'_{tag}.cfg', consts, view=False)
    d = tlc.workdir(tag + '_out')
    res = tlc.run(SPEC, 'Channel', cfg, tag, workers=4, timeout=600,
                  simulate=f'file={d}/tr,num={num}', depth=depth, seed=seed)
    if res.error and res.error != 'timeout':
        raise MachineryError(f'simulate {tag}: {res.error}\n' +
                             res.output[-2000:])
    out = []
    for _, steps in tlc.read_sim_traces(d, 'tr_'):
        out.append([(st['lbl'], st) for _, st in steps[1:]])
    tlc.cleanup(tag + '_out')
    tlc.cleanup(tag)
    os.remove(os.path.join(SPEC, cfg))
    return out


def parse_set(s):
    return [int(x) for x in s.strip('{}').split(',') if x.strip()]


def replay_all(ctx, pid, prefix, sims, seed):
    """sims: list of (name, consts, num, depth, scale). Violations whose
    clause starts with the property id are reported."""
    from harness.drivers import channel
    total = 0
    for name, consts, num, depth, scale in sims:
        text = scale == 'text'      # text-mode readers: 1 unit = 1 character = 2 bytes
        scale = 2 if text else scale
        d = dict(BASE)
        d.update(consts)
        chans = parse_set(d['Chans'])
        traces = sim(ctx, f'{prefix}_sim_{name}', consts, num, depth, seed)
        ctx.require(traces, f'no simulation traces for {name}')
        for steps in traces:
            if len(steps) < 2:
                continue
            r = channel.replay(steps, chans, d['InitWin'], d['PktSize'],
                               scale, d['High'], d['Low'], text=text)
            total += 1
            key = (name, tuple(map(str, r['script'])))
            ctx.count(key, nontrivial=len(r['script']) > 3)
            if total % 101 == 1:
                ctx.sample({'config': name, 'window': d['InitWin'],
                            'pktsize': d['PktSize'], 'scale': scale,
                            'script': r['script']})
            mine = [c for c in r['l1'] if c.startswith(pid)]
            if mine:
                ctx.violation({'module': 'Channel',
                               'clauses': sorted({c.split(':')[0]
                                                  for c in mine}),
                               'rogue': bool(r['rogue'])},
                              '; '.join(mine),
                              replay={'kind': 'behaviour', 'config': name,
                                      'consts': d, 'scale': scale,
                                      'script': r['script']})
            elif r['diverged']:
                ctx.divergence(f'{name}: {r["diverged"]} script='
                               f'{r["script"]}')
            if r['loop_exceptions']:
                ctx.divergence(f'{name}: loop exception '
                               f'{r["loop_exceptions"][0]} script='
                               f'{r["script"]}')
    ctx.traces_validated(total)
    return total


# ---------------------------------------------------------------------------
# code -> spec: recorded executions validated against Channel.tla by TLC
# ---------------------------------------------------------------------------

TRACE_DIAG = ['DiagSwin', 'DiagSbuf', 'DiagSstate', 'DiagSpaused', 'DiagRwin', 'DiagRbuf',
              'DiagPaused', 'DiagRstate', 'DiagErr', 'DiagDlen']


def trace_consts(initwin, pktsize, high=1, low=0):
    return dict(Chans='{1, 2}', DTs='{0, 1}', InitWin=initwin,
                PktSize=pktsize, MaxUnits=1000000, MaxWrite=1000000,
                MaxPause=1000000, Rogue=0, AccountBuffered='TRUE',
                High=high, Low=low, ResumeStrict='FALSE')


def trace_validation(ctx, pid, quick):
    """Naturally scheduled sessions (writer tasks, reader tasks pausing and
    resuming, sessions pausing themselves inside data_received, random
    segmentation and stalls) are recorded and TLC decides whether each
    execution is a behaviour of Channel.tla; the C07/C08 invariants are
    evaluated in every state.  Corrupted copies and a spec with the wrong
    window must be rejected."""
    import copy
    from harness.drivers import channel
    # (window, packet size, high-water, low-water)
    configs = [(5, 3, 1, 0), (1, 1, 0, 0), (4, 4, 3, 0), (16, 5, 8, 2)] \
        if quick else \
        [(5, 3, 1, 0), (1, 1, 0, 0), (2, 1, 2, 2), (3, 2, 4, 1), (4, 4, 3, 0),
         (16, 5, 8, 2), (64, 32, 100, 25), (7, 9, 0, 0), (128, 16, 65536,
                                                          16384)]
    per = 12 if quick else 150
    modes = ['mixed', 'whole', 'tiny', 'mixed nopi', 'stall whole',
             'tiny nopause', 'mixed rekey', 'whole rekey nopi']
    good = []
    total = matched = 0
    for ci, (iw, pk, hi, lo) in enumerate(configs):
        recs = []
        for i in range(per):
            seed = ctx.seed * 7919 + ci * 1000 + i
            chans = [1, 2] if i % 3 else [1]
            mode = modes[i % len(modes)]
            args = dict(seed=seed, chans=chans, initwin=iw, pktsize=pk,
                        nwrites=4 + i % 4, mode=mode, high=hi, low=lo)
            r = channel.record_natural(**args)
            r['args'] = args
            # sessions with key re-exchanges all along are judged by the
            # monitors only: packets held back while an exchange runs leave
            # later than the step that wrote them, which Channel.tla (one
            # layer up) does not describe
            if 'rekey' not in mode:
                recs.append(r)
            ctx.count(('trace', iw, pk, len(chans), mode, i),
                      nontrivial=r['npause'] > 0 and r['nadj'] > 0)
            mine = [c for c in r['l1'] if c.startswith(pid)]
            if mine:
                ctx.violation({'module': 'ChannelTrace', 'window': iw,
                               'pktsize': pk, 'clauses': sorted(
                                   {c.split(':')[0] for c in mine})},
                              '; '.join(mine[:3]),
                              replay={'kind': 'natural', **args})
            if r['stray'] and 'rekey' not in mode:
                ctx.divergence(f'natural session {args}: packets outside '
                               f'any step: {r["stray"][:3]}')
            if r['loop_exceptions']:
                ctx.divergence(f'natural session {args}: loop exception '
                               f'{r["loop_exceptions"][0]}')
        res, verdicts = tlc.validate_traces(
            SPEC, 'ChannelTrace', [r['trace'] for r in recs],
            f'{pid.lower()}_tr_{iw}_{pk}',
            constants=trace_consts(iw, pk, hi, lo),
            diag=TRACE_DIAG, progress='TraceProgress', report='TraceReport')
        ctx.add_tlc(f'ChannelTrace window={iw} packet={pk}', res)
        if res.violation:
            ctx.violation({'module': 'ChannelTrace', 'window': iw,
                           'pktsize': pk, 'invariant': res.violation},
                          f'invariant {res.violation} fails on a recorded '
                          f'execution (window {iw}, packet {pk}): ' +
                          res.output[-1200:],
                          replay={'kind': 'natural-batch',
                                  'args': [r['args'] for r in recs]})
            continue
        if res.error:
            raise MachineryError(f'ChannelTrace: {res.error}\n' +
                                 res.output[-3000:])
        for i, v in sorted(verdicts.items()):
            total += 1
            matched += v['matched']
            if not v['accepted']:
                ctx.divergence(f'recorded execution {recs[i]["args"]} is not '
                               f'a behaviour of Channel.tla: '
                               f'{v["diagnosis"]}')
            elif ci == 0 and len(good) < 3 and recs[i]['nadj'] > 1:
                good.append(recs[i]['trace'])
    ctx.coverage['recorded_traces_validated_by_tlc'] = \
        ctx.coverage.get('recorded_traces_validated_by_tlc', 0) + total
    ctx.coverage['recorded_events_matched'] = \
        ctx.coverage.get('recorded_events_matched', 0) + matched
    ctx.traces_validated(total)
    # ---- binding controls ----
    if ctx.violations or ctx.divergences:
        ctx.notes.append('binding controls skipped: recorded traces were '
                         'rejected (see violations / divergences)')
        return
    ctx.require(len(good) == 3, 'no recorded trace with window adjusts')
    iw, pk, hi, lo = configs[0]
    bad = []
    t = copy.deepcopy(good[0])
    i = [k for k, e in enumerate(t['ev']) if e['e'] == 'dfwd'][1]
    t['ev'][i]['rwin'] += 1
    bad.append(('rwin corrupted', t))
    t = copy.deepcopy(good[1])
    i = [k for k, e in enumerate(t['ev']) if e['e'] == 'dbwd'][0]
    del t['ev'][i]
    bad.append(('window adjust receipt removed', t))
    t = copy.deepcopy(good[2])
    i = [k for k, e in enumerate(t['ev']) if e['e'] == 'write' and
         e['out']][0]
    t['ev'][i]['out'][0][2] += 1
    bad.append(('emitted packet one byte longer', t))
    res, verdicts = tlc.validate_traces(
        SPEC, 'ChannelTrace', [b[1] for b in bad], f'{pid.lower()}_tr_neg',
        constants=trace_consts(iw, pk, hi, lo), progress='TraceProgress',
        report='TraceReport')
    for i, (what, _) in enumerate(bad):
        ctx.require(i in verdicts and not verdicts[i]['accepted'],
                    f'binding control "{what}" was accepted by ChannelTrace')
    res, verdicts = tlc.validate_traces(
        SPEC, 'ChannelTrace', good, f'{pid.lower()}_tr_sens',
        constants=trace_consts(iw + 1, pk, hi, lo), invariants=(),
        progress='TraceProgress', report='TraceReport')
    ctx.require(verdicts and not any(v['accepted'] for v in verdicts.values()),
                'a spec with the wrong initial window accepted a recorded '
                'trace')


# ---------------------------------------------------------------------------
# both directions at once: specs/Lifecycle with flow control (Win chunks per
# direction) - data queued behind an exhausted window, EOF / CLOSE queued
# behind the data, WINDOW_ADJUST arriving in every receive state (after the
# peer's EOF, with that EOF still parked behind buffered data, ...)
# ---------------------------------------------------------------------------

def duplex_flow(ctx, pid, quick, clauses, seed):
    """Lifecycle behaviours with flow control replayed into a real pair; the
    findings whose clause is in `clauses` belong to property `pid`."""
    from checks import c09
    from harness.drivers import lifecycle
    flow = dict(WithData='TRUE', Win=2, ConnOps='FALSE', Cuts=0)
    jobs = []
    traces, d = c09.sim(f'{pid.lower()}_lcflow', dict(flow, MaxOps=9),
                        10 if quick else 150, 90, seed)
    ctx.require(traces, 'no Lifecycle behaviours with flow control')
    jobs += [('flow', steps, None) for steps in traces if len(steps) >= 2]
    # every distinct (state, last operation) of the bounded model has one
    # shortest script; those in which a WINDOW_ADJUST is delivered are the
    # ones that exercise the window
    tg = f'{pid.lower()}_lccov_{os.getpid()}'
    cfg, d = c09.write_cfg(f'_{tg}.cfg', dict(flow, MaxOps=6 if quick else 7),
                           invariants=['EmitScript'], view=True,
                           viewname='viewL')
    scripts, res = tlc.bfs_scripts(c09.SPEC, 'Lifecycle', cfg, tg)
    ctx.require_tlc_ok(f'Lifecycle flow (script emission) for {pid}', res)
    tlc.cleanup(tg)
    os.remove(os.path.join(c09.SPEC, cfg))
    adj = [(sc, st) for sc, st in scripts
           if any(l[0] == 'deliver' and l[2] == 'ADJ' for l in sc)]
    ctx.require(len(adj) > 50, f'too few scripts with WINDOW_ADJUST '
                f'({len(adj)} of {len(scripts)})')
    # spread over the list (BFS order: short scripts first)
    keep = 220 if quick else 4000
    step = max(1, len(adj) // keep)
    off = seed % step
    jobs += [('cover', [(l, None) for l in sc], st)
             for sc, st in adj[off::step][:keep]]
    # every application operation in every context (own send / receive
    # state, data queued behind the window, the peer's send state): the
    # shortest behaviour ENDING with it, then everything in flight is
    # delivered.  close() behind a queued EOF, write_eof() behind queued data
    # and the like exist only in passing and leave no trace in a final state
    tg = f'{pid.lower()}_lcctx_{os.getpid()}'
    cfg, d = c09.write_cfg(f'_{tg}.cfg', dict(flow, MaxOps=6),
                           invariants=['EmitOpCtx'], view=True)
    ctxs, res = tlc.bfs_scripts(c09.SPEC, 'Lifecycle', cfg, tg)
    ctx.require_tlc_ok(f'Lifecycle flow (operation contexts) for {pid}', res)
    tlc.cleanup(tg)
    os.remove(os.path.join(c09.SPEC, cfg))
    ctx.require(len(ctxs) > 30, f'too few operation contexts: {len(ctxs)}')
    jobs += [('opctx', [(l, None) for l in sc], None) for sc, _ in ctxs]
    total = 0
    for kind, steps, final in jobs:
        r = lifecycle.replay(steps, [1], [], final=final, win=2,
                             prefix=kind == 'opctx')
        total += 1
        ctx.count(('duplex', kind, tuple(map(str, r['script']))),
                  nontrivial=len(r['script']) > 3)
        mine = [b for b in r['l1'] if b.split(':')[0] in clauses]
        if mine:
            ctx.violation({'module': 'Lifecycle', 'part': 'duplex',
                           'clauses': sorted({c.split(':')[0] for c in mine})},
                          '; '.join(mine[:3]),
                          replay={'kind': 'duplex', 'script': r['script'],
                                  'chans': [1], 'reject': [], 'win': 2,
                                  'prefix': kind == 'opctx'})
        elif r['diverged']:
            ctx.divergence(f'duplex {kind}: {r["diverged"]} script='
                           f'{r["script"]}')
    ctx.traces_validated(total)
    ctx.coverage['duplex_scripts'] = (len(adj), len(scripts))
    return total


def duplex_replay(ctx, rp, sig, clauses):
    from harness.drivers import lifecycle
    steps = []
    for l in rp['script']:
        if l[0] == 'chunk':
            steps.append((l[:3], None))
            steps += [(['deliver', l[1], t, 0], None) for t in l[3]]
        else:
            steps.append((l, None))
    r = lifecycle.replay(steps, rp['chans'], rp['reject'], win=rp['win'],
                         prefix=rp.get('prefix', False))
    mine = [b for b in r['l1'] if b.split(':')[0] in clauses]
    print('l1:', r['l1'])
    ctx.count(('replay', 'duplex'))
    if mine:
        ctx.violation(sig, '; '.join(mine[:3]), replay=rp)


def natural_rekey(ctx, pid, quick):
    """Naturally scheduled sessions (see trace_validation) on a connection
    that re-keys all along, judged by the monitors of property `pid`."""
    from harness.drivers import channel
    configs = [(5, 3, 1, 0), (16, 5, 8, 2), (4, 4, 3, 0)] if quick else \
        [(5, 3, 1, 0), (1, 1, 0, 0), (16, 5, 8, 2), (4, 4, 3, 0),
         (64, 32, 100, 25)]
    per = 16 if quick else 160
    # 'reent': the writing sessions write (and end the stream) from inside
    # their resume_writing() callback
    modes = ['mixed rekey', 'whole rekey nopi', 'tiny rekey', 'stall rekey',
             'mixed reent', 'whole reent nopi', 'tiny reent', 'reent rekey']
    n = 0
    for ci, (iw, pk, hi, lo) in enumerate(configs):
        for i in range(per):
            args = dict(seed=ctx.seed * 104729 + ci * 1000 + i,
                        chans=[1, 2] if i % 2 else [1], initwin=iw,
                        pktsize=pk, nwrites=5 + i % 4,
                        mode=modes[i % len(modes)], high=hi, low=lo)
            r = channel.record_natural(**args)
            n += 1
            ctx.count(('natural-rekey', iw, pk, i), nontrivial=True)
            mine = [c for c in r['l1'] if c.startswith((pid, 'HonestNoError'))]
            if mine:
                ctx.violation({'module': 'ChannelNatural', 'rekey': True,
                               'clauses': sorted({c.split(':')[0]
                                                  for c in mine})},
                              '; '.join(mine[:3]),
                              replay={'kind': 'natural', **args})
            if r['loop_exceptions']:
                ctx.violation({'module': 'ChannelNatural', 'rekey': True,
                               'loop': True},
                              f'natural session {args}: exception reached '
                              f'the event loop: {r["loop_exceptions"][0]}',
                              replay={'kind': 'natural', **args})
    ctx.traces_validated(n)
