"""X09 (extra module) - Tunnel: SSH connections opened through another SSH
connection (asyncssh.connect(..., tunnel=conn), ProxyJump-style chains).

1. TLC checks specs/Forward/Tunnel.tla (2 and 3 levels): InnerEndsWithOuter,
   OnceWithError, OuterSurvivesInner, LowerUntouched, ConnectFailsCleanly,
   NoHalfOpen, RelayFIFO; the wrong variants InnerOutlivesOuter and
   ConnectHangsOnOuterLoss must be rejected; witnesses show that a kill during
   a pending connect() and three levels up are reachable.
2. Behaviours (-simulate) and fixed schedules are replayed on the virtual loop
   with a jump server, a target server and a third server: connect() tasks
   through the lower level with level 1's transport delivered by hand while
   the key exchange / authentication is in flight, waiters (pending read,
   SFTP request with the reply withheld, wait_closed), data through echo
   processes, and every way a level can end (close, abort, close of the
   carrying channel, its server going away, loss of level 1's transport at
   either end).  After every kill and at the end the loop runs to quiescence
   and the monitors look at what the application saw (connection_lost
   calls, connect() result, waiters), at the channel tables, transports,
   listeners and pending tasks.
"""

import json
import os

from harness import tlc
from harness.framework import run_check, MachineryError, VERIF

SPEC = os.path.join(VERIF, 'specs', 'Forward')
INVS = ['InnerEndsWithOuter', 'OnceWithError', 'OuterSurvivesInner',
        'ConnectFailsCleanly', 'NoHalfOpen', 'RelayFIFO']
DEFAULT = dict(L=3, MaxProg=2, MaxData=2, InnerOutlivesOuter='FALSE',
               ConnectHangsOnOuterLoss='FALSE')

K = lambda i, how: ('kill', i, how)
UP2 = [('connect', 2), ('connected', 2)]
UP3 = UP2 + [('connect', 3), ('connected', 3)]
HOWS1 = ['close', 'abort', 'cutc', 'cuts']
REGRESSIONS = []
for _h in HOWS1:
    # everything up, waiters on the top level, level 1 ends
    REGRESSIONS.append(UP3 + [('data', 3), ('wait', 3, 'read'),
                              ('wait', 3, 'sftp'), ('wait', 3, 'wait_closed'),
                              K(1, _h)])
    REGRESSIONS.append(UP2 + [('wait', 2, 'sftp'), K(1, _h)])
    # level 1 ends while level 2 / level 3 is connecting
    for _p in (0, 1, 2):
        REGRESSIONS.append([('connect', 2)] + [('progress', 2)] * _p +
                           [K(1, _h)])
        REGRESSIONS.append(UP2 + [('connect', 3)] + [('progress', 3)] * _p +
                           [K(1, _h)])
    # ... right after connect() returned
    REGRESSIONS.append(UP2 + [K(1, _h)])
for _h in ['close', 'abort', 'carrier', 'server']:
    REGRESSIONS.append(UP3 + [('wait', 3, 'read'), K(2, _h)])
    REGRESSIONS.append(UP3 + [('wait', 3, 'wait_closed'), K(3, _h), ('data', 2)])
    REGRESSIONS.append(UP2 + [('data', 2), ('wait', 2, 'read'), K(2, _h)])
for _h in ['carrier', 'server']:
    for _p in (1, 2):
        REGRESSIONS.append([('connect', 2)] + [('progress', 2)] * _p +
                           [K(2, _h)])
        REGRESSIONS.append(UP2 + [('connect', 3)] + [('progress', 3)] * _p +
                           [K(3, _h), ('data', 2)])
REGRESSIONS.append(UP2 + [('connect', 3), K(3, 'carrier'), ('data', 2)])


def run_tlc(ctx, name, consts, invs=(), props=(), expect=None, simulate=None,
            depth=None):
    tag = f'x09_{name}_{os.getpid()}'
    cfg = f'_{tag}.cfg'
    d = dict(DEFAULT, **consts)
    with open(os.path.join(SPEC, cfg), 'w') as f:
        f.write('CONSTANTS\n' + ''.join(f'  {k} = {v}\n' for k, v in d.items())
                + 'SPECIFICATION Spec\nCHECK_DEADLOCK FALSE\n' +
                ''.join(f'INVARIANT {i}\n' for i in invs) +
                ''.join(f'PROPERTY {p}\n' for p in props))
    traces = None
    try:
        if simulate:
            out = tlc.workdir(tag + '_out')
            res = tlc.run(SPEC, 'Tunnel', cfg, tag, workers=2, timeout=600,
                          simulate=f'file={out}/tr,num={simulate}',
                          depth=depth, seed=ctx.seed + 3)
            traces = [[(st['lbl'], st) for _, st in steps[1:]]
                      for _, steps in tlc.read_sim_traces(out, 'tr_')]
            tlc.cleanup(tag + '_out')
            if res.error and res.error != 'timeout':
                raise MachineryError(f'simulate {name}: {res.error}')
            ctx.add_tlc(name, res)
        else:
            res = tlc.run(SPEC, 'Tunnel', cfg, tag, workers=4, timeout=900)
            ctx.require_tlc_ok(f'Tunnel {name} {d}', res,
                               expect_violation=expect)
    finally:
        tlc.cleanup(tag)
        os.remove(os.path.join(SPEC, cfg))
    return traces


def main(ctx):
    from harness.drivers import tunnel as T
    quick = ctx.tier == 'quick'
    run_tlc(ctx, 'rules L=3', {}, INVS, ['LowerUntouched'])
    run_tlc(ctx, 'rules L=2', dict(L=2, MaxProg=3, MaxData=3), INVS,
            ['LowerUntouched'])
    run_tlc(ctx, 'wrong InnerOutlivesOuter', dict(InnerOutlivesOuter='TRUE'),
            ['InnerEndsWithOuter'], expect='InnerEndsWithOuter')
    run_tlc(ctx, 'wrong ConnectHangsOnOuterLoss',
            dict(ConnectHangsOnOuterLoss='TRUE'), ['ConnectFailsCleanly'],
            expect='ConnectFailsCleanly')
    if not quick:
        for w in ['NeverThreeUp', 'NeverKillWhileConnecting']:
            run_tlc(ctx, f'witness {w}', {}, [w], expect=w)
    traces = run_tlc(ctx, 'sim', dict(MaxProg=2), simulate=30 if quick else 300,
                     depth=14)
    ctx.require(traces, 'no simulation traces')
    seen = set()
    groups = {}

    def judge(r, labels):
        for clause, detail, cause in r['l1']:
            key = (clause, cause)
            if key not in groups or len(labels) < len(groups[key][1]):
                groups[key] = (detail, labels, r['script'])
        for e in r.get('loop_exceptions', []):
            groups.setdefault(('Exception', e[:60]),
                              (f'exception reached the event loop: {e}',
                               labels, r['script']))
        if not r['l1'] and r.get('diverged'):
            ctx.divergence(f'Tunnel: {r["diverged"]} schedule='
                           f'{" ".join(r["script"])}')

    n = 0
    for tr in traces:
        labels = [l for l, _ in tr]
        key = json.dumps(labels)
        if key in seen or not any(l[0] == 'kill' for l in labels):
            continue
        seen.add(key)
        r = T.replay(tr)
        n += 1
        ctx.count(('tunnel', key))
        if n == 3:
            ctx.sample({'module': 'Tunnel', 'schedule': r['script']})
        judge(r, labels)
    for labels in REGRESSIONS:
        r = T.replay(labels)
        n += 1
        ctx.count(('tunnel-regression', json.dumps(labels)))
        judge(r, labels)
    ctx.traces_validated(n)
    for (clause, cause), (detail, labels, script) in sorted(groups.items()):
        ctx.violation({'module': 'Tunnel', 'clause': clause, 'cause': cause},
                      f'Tunnel/{clause}: {detail}; schedule '
                      f'{" ".join(script)}',
                      replay={'kind': 'tunnel', 'labels': labels})
    ctx.assumptions += [
        'run-to-completion scheduling; level 1\'s transport pair is '
        'delivered in whole rounds while a connect() is in flight',
        'the jump, target and third server are asyncssh servers in the same '
        'process on the in-memory network',
    ]


if __name__ == '__main__':
    run_check('X09', main)
