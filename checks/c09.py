"""C09 - everything terminates: no hung waiter, one orderly close.

1. TLC exhausts specs/Lifecycle (open/confirm/failure, exec request, EOF,
   CLOSE handshake, local close/abort, connection close/abort, transport cut
   at any moment, packets coalesced into one read, deferred clean-up
   callbacks) against AllWaitersResolved / CloseOnceAndLast / LegalOrder /
   NoChannelLeft / MadeImpliesLost, plus the liveness property Terminates.
2. Sampled behaviours are replayed into a real client/server pair with
   packet-granular delivery; the implementation's callback logs, waiter
   states, channel tables and channel states are compared with the model
   after every step, and the monitors are evaluated on the observations
   (also after a final transport loss).
3. Crash-point enumeration: a scripted client program (process streams with
   drain/readline/wait, a second channel, SFTP requests, close) is re-run
   with a fault (cut / close / abort by either side) at every packet
   boundary; when the loop goes idle nothing may still be pending."""

import os

from harness import tlc
from harness.framework import run_check, MachineryError, VERIF

SPEC = os.path.join(VERIF, 'specs', 'Lifecycle')
INVS = ['CloseOnceAndLast', 'LegalOrder', 'NoChannelLeft',
        'AllWaitersResolved', 'MadeImpliesLost', 'CreateDecided']
# with flow control in the model (Win > 0)
FLOW = ['HonestNoError', 'NoWedge', 'CloseCompletes']


def write_cfg(name, consts, invariants=(), properties=(), view=True,
              spec='Spec', viewname='view'):
    d = dict(Chans='{1}', Reject='{}', MaxOps=3, Cuts=1, WithData='FALSE', ConnOps='TRUE',
             Win=0, FlowVariant='"none"', FailReqOnClose='TRUE', ResolveOnConnCleanup='TRUE')
    d.update(consts)
    lines = ['CONSTANTS'] + [f'  {k} = {v}' for k, v in d.items()]
    lines += [f'SPECIFICATION {spec}', 'CHECK_DEADLOCK FALSE']
    lines += [f'INVARIANT {i}' for i in invariants]
    lines += [f'PROPERTY {p}' for p in properties]
    if view:
        lines.append(f'VIEW {viewname}')
    with open(os.path.join(SPEC, name), 'w') as f:
        f.write('\n'.join(lines) + '\n')
    return name, d


def mc(ctx, tag, consts, invariants, expect=None, properties=(), spec='Spec',
       view=True):
    cfg, _ = write_cfg(f'_{tag}.cfg', consts, invariants, properties, view,
                       spec)
    res = tlc.run(SPEC, 'Lifecycle', cfg, tag, timeout=2400)
    ctx.require_tlc_ok(f'Lifecycle {tag} {consts}', res,
                       expect_violation=expect)
    tlc.cleanup(tag)
    os.remove(os.path.join(SPEC, cfg))


def _replay_job(job):
    from harness.drivers import lifecycle
    steps, chans, reject, final, win = job[:5]
    return lifecycle.replay(steps, chans, reject, final=final, win=win,
                            prefix=len(job) > 5 and job[5])


def par_replay(jobs, procs=8):
    """Independent replays on several cores (fork; results in job order)."""
    import multiprocessing as mp
    if len(jobs) < 16:
        return [_replay_job(j) for j in jobs]
    with mp.get_context('fork').Pool(procs) as pool:
        return pool.map(_replay_job, jobs, chunksize=8)


class Batch:
    """Design-check runs collected and executed a few at a time (every TLC
    start costs a JVM start; the runs are independent)."""

    def __init__(self, ctx):
        self.ctx, self.jobs = ctx, []

    def mc(self, tag, consts, invariants, expect=None, properties=(),
           spec='Spec', view=True):
        self.jobs.append((f'{tag}_{os.getpid()}', consts, invariants, expect,
                          properties, spec, view))

    def run(self, par=5):
        from concurrent.futures import ThreadPoolExecutor

        def one(job):
            tag, consts, invariants, _, properties, spec, view = job
            cfg, _ = write_cfg(f'_{tag}.cfg', consts, invariants, properties,
                               view, spec)
            try:
                return tlc.run(SPEC, 'Lifecycle', cfg, tag, workers=4,
                               timeout=2400)
            finally:
                tlc.cleanup(tag)
                os.remove(os.path.join(SPEC, cfg))

        with ThreadPoolExecutor(par) as ex:
            results = list(ex.map(one, self.jobs))
        for job, res in zip(self.jobs, results):
            self.ctx.require_tlc_ok(f'Lifecycle {job[0].rsplit("_", 1)[0]} '
                                    f'{job[1]}', res, expect_violation=job[3])
        self.jobs = []


def sim(tag, consts, num, depth, seed):
    tag = f'{tag}_{os.getpid()}'
    cfg, d = write_cfg(f'_{tag}.cfg', consts, view=False)
    out_dir = tlc.workdir(tag + '_out')
    res = tlc.run(SPEC, 'Lifecycle', cfg, tag, workers=4, timeout=600,
                  simulate=f'file={out_dir}/tr,num={num}', depth=depth,
                  seed=seed)
    if res.error and res.error != 'timeout':
        raise MachineryError(f'simulate {tag}: {res.error}\n' +
                             res.output[-2000:])
    traces = [[(st['lbl'], st) for _, st in steps[1:]]
              for _, steps in tlc.read_sim_traces(out_dir, 'tr_')]
    tlc.cleanup(tag + '_out')
    tlc.cleanup(tag)
    os.remove(os.path.join(SPEC, cfg))
    return traces, d


TSPEC = os.path.join(VERIF, 'specs', 'Timers')
TINVS = ['DeadPeerDetected', 'DetectedNotLate', 'NotEarly', 'NoFalseAlarm',
         'CountBounded']


def _tcfg(name, consts, invariants=(), view=True):
    d = dict(I=3, Max=1, D=1, MaxTime=14, MaxData=2, ResetOnReplyOnly='TRUE')
    d.update(consts)
    lines = ['CONSTANTS'] + [f'  {k} = {v}' for k, v in d.items()]
    lines += ['SPECIFICATION Spec', 'CHECK_DEADLOCK FALSE']
    lines += [f'INVARIANT {i}' for i in invariants]
    if view:
        lines.append('VIEW view')
    with open(os.path.join(TSPEC, name), 'w') as f:
        f.write('\n'.join(lines) + '\n')
    return d


def timers(ctx, quick):
    """A peer that goes silent without closing the transport: with keepalive
    configured the connection is given up within (count_max + 1) intervals
    of the last input and every pending operation fails; a peer that stalls
    before authentication completes is dropped at login_timeout."""
    from harness.drivers import keepalive
    # the peer answers within a round trip of 2 * D < I ticks
    grid = [(3, 1, 1), (3, 2, 1), (5, 2, 2)] if quick else \
        [(3, 1, 1), (3, 2, 1), (5, 2, 2), (4, 3, 1), (5, 1, 2), (7, 1, 3)]
    for i_, mx, d_ in grid:
        tag = f'c09_ka_{i_}_{mx}_{d_}_{os.getpid()}'
        # (asyncssh refuses keepalive_count_max = 0, so Max >= 1)
        _tcfg(f'_{tag}.cfg', dict(I=i_, Max=mx, D=d_,
                                  MaxTime=(mx + 2) * i_ + 6),
              [i for i in TINVS if mx > 0 or i != 'NoFalseAlarm'])
        res = tlc.run(TSPEC, 'Keepalive', f'_{tag}.cfg', tag, timeout=900)
        ctx.require_tlc_ok(f'Keepalive I={i_} Max={mx} D={d_}', res)
        tlc.cleanup(tag)
        os.remove(os.path.join(TSPEC, f'_{tag}.cfg'))
    for tag, consts, inv in (
            ('c09_ka_sens', dict(ResetOnReplyOnly='FALSE'), 'NoFalseAlarm'),
            ('c09_ka_obs', {}, 'NotEarlyAfterAnyInput'),
            ('c09_ka_w', {}, 'NeverLost')):
        name, tag = tag, f'{tag}_{os.getpid()}'
        _tcfg(f'_{tag}.cfg', consts, [inv])
        res = tlc.run(TSPEC, 'Keepalive', f'_{tag}.cfg', tag, timeout=900)
        ctx.require_tlc_ok(f'Keepalive {name}', res, expect_violation=inv)
        tlc.cleanup(tag)
        os.remove(os.path.join(TSPEC, f'_{tag}.cfg'))
    total = 0
    for i_, mx, d_ in grid:
        tag = f'c09_kasim_{i_}_{mx}_{d_}_{os.getpid()}'
        d = _tcfg(f'_{tag}.cfg', dict(I=i_, Max=mx, D=d_,
                                      MaxTime=(mx + 2) * i_ + 6), view=False)
        out = tlc.workdir(tag + '_out')
        res = tlc.run(TSPEC, 'Keepalive', f'_{tag}.cfg', tag, workers=4,
                      timeout=600,
                      simulate=f'file={out}/tr,num={8 if quick else 80}',
                      depth=60, seed=ctx.seed + 31)
        if res.error and res.error != 'timeout':
            raise MachineryError(f'simulate {tag}: {res.error}')
        traces = [[(st['lbl'], st) for _, st in steps[1:]]
                  for _, steps in tlc.read_sim_traces(out, 'tr_')]
        tlc.cleanup(tag + '_out')
        tlc.cleanup(tag)
        os.remove(os.path.join(TSPEC, f'_{tag}.cfg'))
        ctx.require(traces, f'no keepalive behaviours for {tag}')
        for steps in traces:
            for role in 'cs':
                r = keepalive.replay(steps, role, i_, mx)
                total += 1
                ctx.count(('keepalive', i_, mx, role,
                           tuple(map(str, r['script']))),
                          nontrivial=any(l[0] == 'silent'
                                         for l in r['script']))
                hard = [b for b in r['l1'] if b.startswith(
                    ('DeadPeerDetected', 'AllWaitersResolved'))]
                soft = [b for b in r['l1'] if b not in hard and
                        (mx > 0 or not b.startswith('NoFalseAlarm'))]
                if hard:
                    ctx.violation({'module': 'Keepalive', 'role': role,
                                   'clauses': sorted({b.split(':')[0]
                                                      for b in hard})},
                                  f'interval {i_} count max {mx} role {role}: '
                                  + '; '.join(hard[:3]),
                                  replay={'kind': 'keepalive', 'role': role,
                                          'interval': i_, 'count_max': mx,
                                          'script': r['script']})
                for b in soft:
                    ctx.divergence(f'keepalive {role} I={i_} Max={mx}: {b} '
                                   f'script={r["script"]}')
                if r['diverged']:
                    ctx.divergence(f'keepalive {role} I={i_} Max={mx}: '
                                   f'{r["diverged"]} script={r["script"]}')
                if r['loop_exceptions']:
                    ctx.divergence(f'keepalive {role}: loop exception '
                                   f'{r["loop_exceptions"][0]}')
    ctx.traces_validated(total)
    for stall in ('connect', 'kex', 'service', 'failed_auth', 'auth'):
        for timeout in ((5.0,) if quick else (5.0, 1.0, 30.0)):
            at, info = keepalive.login_timeout_case(stall, timeout)
            ctx.count(('login_timeout', stall, timeout))
            ctx.require('setup_error' not in info,
                        f'login timeout case {stall}: {info}')
            if stall == 'auth':
                if at is not None:
                    ctx.divergence(f'login timeout: authenticated connection '
                                   f'dropped at t={at} (limit {timeout})')
            elif at is None:
                ctx.violation({'module': 'LoginTimeout', 'stall': stall},
                              f'a peer that stalls after "{stall}" is never '
                              f'dropped although login_timeout={timeout}',
                              replay={'kind': 'login_timeout', 'stall': stall,
                                      'timeout': timeout})
            elif at != timeout:
                ctx.divergence(f'login timeout: stalled peer ({stall}) '
                               f'dropped at t={at}, limit {timeout}')


def main(ctx):
    from harness.drivers import lifecycle, crashpoints
    if ctx.replay_path:
        from checks import replay_mine
        return replay_mine.c09(ctx)
    quick = ctx.tier == 'quick'
    import time
    t0 = time.time()
    parts = ctx.coverage.setdefault('seconds_per_part', {})
    # ---- 1. design check ----
    b = Batch(ctx)
    b.mc('c09_mc1', dict(MaxOps=4), INVS)
    b.mc('c09_mc2', dict(Chans='{1, 2}', Reject='{2}',
                            MaxOps=4 if quick else 5), INVS)
    b.mc('c09_mcd', dict(MaxOps=5 if quick else 6, WithData='TRUE'), INVS)
    if not quick:
        b.mc('c09_mc3', dict(Chans='{1, 2}', MaxOps=5), INVS)
        b.mc('c09_mcd2', dict(Chans='{1, 2}', MaxOps=5, WithData='TRUE'),
           INVS)
    b.mc('c09_live', dict(MaxOps=3), [], properties=['Terminates'],
       spec='LiveSpec', view=False)
    b.mc('c09_sens', dict(MaxOps=2, ResolveOnConnCleanup='FALSE'),
       ['AllWaitersResolved'], expect='AllWaitersResolved')
    b.mc('c09_sens2', dict(MaxOps=5, WithData='TRUE',
                              FailReqOnClose='FALSE'),
       ['CreateDecided'], expect='CreateDecided')
    # flow control: windows of Win chunks, data queued behind an exhausted
    # window, EOF / CLOSE queued behind the data, WINDOW_ADJUST in every
    # receive state
    flow = dict(WithData='TRUE', Win=2, ConnOps='FALSE', Cuts=0)
    b.mc('c09_flow', dict(flow, MaxOps=6 if quick else 7), INVS + FLOW)
    b.mc('c09_flowc', dict(WithData='TRUE', Win=2, MaxOps=5 if quick else 6),
       INVS + FLOW)
    if not quick:
        b.mc('c09_flow3', dict(flow, Win=3, MaxOps=7), INVS + FLOW)
    b.mc('c09_sens3', dict(flow, MaxOps=6, FlowVariant='"adj_open_only"'),
       ['HonestNoError'], expect='HonestNoError')
    b.mc('c09_sens4', dict(flow, MaxOps=6, FlowVariant='"close_forgets"'),
       ['CloseCompletes'], expect='CloseCompletes')
    b.mc('c09_sens5', dict(flow, MaxOps=6,
                              FlowVariant='"no_reply_closing"'),
       ['CreateDecided'], expect='CreateDecided')
    b.mc('c09_flow1', dict(flow, Win=1, MaxOps=7), INVS + FLOW)
    b.mc('c09_sens6', dict(flow, Win=1, MaxOps=7,
                            FlowVariant='"no_credit_closing"'),
         ['CloseCompletes'], expect='CloseCompletes')
    b.mc('c09_w4', dict(flow, MaxOps=6), ['NeverSendPending'],
       expect='NeverSendPending')
    b.mc('c09_w5', dict(flow, MaxOps=6), ['NeverAdjAfterEof'],
       expect='NeverAdjAfterEof')
    b.mc('c09_w1', dict(MaxOps=1), ['NeverStarted'], expect='NeverStarted')
    b.mc('c09_w2', dict(MaxOps=2), ['NeverErr'], expect='NeverErr')
    b.mc('c09_w3', dict(MaxOps=5, WithData='TRUE'), ['NeverClosePending'],
       expect='NeverClosePending')
    b.run()
    parts['design'] = round(time.time() - t0, 1)
    # ---- 2. replay ----
    n = 60 if quick else 600
    sims = [('one', dict(MaxOps=4), n, 45),
            ('two', dict(Chans='{1, 2}', Reject='{2}', MaxOps=5), n, 60),
            ('twoacc', dict(Chans='{1, 2}', MaxOps=6), n, 70),
            ('data', dict(MaxOps=7, WithData='TRUE'), n * 2, 70),
            ('data2', dict(Chans='{1, 2}', MaxOps=8, WithData='TRUE'), n, 80),
            ('flow', dict(flow, MaxOps=9), n * 2 // 3, 90),
            ('flowcut', dict(WithData='TRUE', Win=2, MaxOps=7), n // 3, 80)]
    total = 0
    for name, consts, num, depth in sims:
        traces, d = sim(f'c09_sim_{name}', consts, num, depth, ctx.seed + 3)
        ctx.require(traces, f'no simulation traces for {name}')
        chans = [int(x) for x in d['Chans'].strip('{}').split(',')]
        reject = [int(x) for x in d['Reject'].strip('{}').split(',')
                  if x.strip()]
        traces = [steps for steps in traces if len(steps) >= 2]
        for r in par_replay([(steps, chans, reject, None, d['Win'])
                             for steps in traces]):
            r['l1'] = [b for b in r['l1']
                       if not b.startswith('DataBeforeClose')]   # C07's
            total += 1
            ctx.count((name, tuple(map(str, r['script']))),
                      nontrivial=len(r['script']) > 2)
            if total % 97 == 1:
                ctx.sample({'config': name, 'script': r['script']})
            if r['l1']:
                ctx.violation({'module': 'Lifecycle',
                               'clauses': sorted({c.split(':')[0]
                                                  for c in r['l1']})},
                              '; '.join(r['l1'][:4]),
                              replay={'kind': 'behaviour', 'config': name,
                                      'script': r['script'], 'chans': chans,
                                      'reject': reject, 'win': d['Win']})
            elif r['diverged']:
                ctx.divergence(f'{name}: {r["diverged"]} script='
                               f'{r["script"]}')
            if r['loop_exceptions']:
                ctx.violation({'module': 'Lifecycle', 'loop_exception':
                               r['loop_exceptions'][0][:60]},
                              f'exception reached the event loop: '
                              f'{r["loop_exceptions"][0]}',
                              replay={'kind': 'behaviour', 'config': name,
                                      'script': r['script'], 'chans': chans,
                                      'reject': reject, 'win': d['Win']})
    # state-covering scripts: exhaustive BFS with the script history hidden by
    # the VIEW makes TLC print ONE shortest behaviour for every distinct
    # reachable quiescent state; each is replayed and the implementation's
    # final state compared with that state
    deep = [('cover1', dict(MaxOps=5 if quick else 6, WithData='TRUE',
                            ConnOps='FALSE', Cuts=0), 300 if quick else 6000),
            ('cover2', dict(MaxOps=4 if quick else 5, WithData='TRUE'),
             400 if quick else 5000),
            ('cover3', dict(Chans='{1, 2}', Reject='{2}', MaxOps=4 if quick
                            else 5, WithData='TRUE', ConnOps='FALSE'),
             300 if quick else 4000),
            ('coverF', dict(flow, MaxOps=6 if quick else 7),
             220 if quick else 8000),
            ('coverF1', dict(flow, Win=1, MaxOps=7),
             200 if quick else 8000)]

    def cls(script, st):
        return (str([st[k] for k in ('ss', 'rs', 'reading', 'createW',
                                     'reqW', 'up', 'connClosed')] +
                    [[[n > 0 for n in v] for v in (st['sbufN'].values()
                                                   if isinstance(st['sbufN'], dict)
                                                   else st['sbufN'])]]),
                str(script[-1]))

    for name, consts, keep in deep:
        tg = f'c09_{name}_{os.getpid()}'
        cfg, d = write_cfg(f'_{tg}.cfg', consts,
                           invariants=['EmitScript'], view=True,
                           viewname='viewL')
        scripts, res = tlc.bfs_scripts(SPEC, 'Lifecycle', cfg, tg)
        ctx.require_tlc_ok(f'Lifecycle {name} (script emission) {consts}',
                           res)
        tlc.cleanup(tg)
        os.remove(os.path.join(SPEC, cfg))
        ctx.require(len(scripts) > 20, f'too few scripts for {name}')
        chans = [int(x) for x in d['Chans'].strip('{}').split(',')]
        reject = [int(x) for x in d['Reject'].strip('{}').split(',')
                  if x.strip()]
        # one per (state class, last operation) first, then the rest
        first, rest, seen = [], [], set()
        for sc, st in scripts:
            k = cls(sc, st)
            (rest if k in seen else first).append((sc, st))
            seen.add(k)
        # ... and before both: scripts chosen greedily so that every operation
        # in every context (its label carries the channel states it was
        # applied in, on both sides) occurs in at least one replayed script
        ops_of = [frozenset(str(l) for l in sc if l[0] not in
                            ('chunk', 'deliver', 'run')) for sc, _ in scripts]
        need = set().union(*ops_of) if ops_of else set()
        ctx.coverage[f'op_contexts_{name}'] = len(need)
        chosen, left = [], set(range(len(scripts)))
        while need:
            best = max(left, key=lambda i: (len(ops_of[i] & need), -i))
            if not ops_of[best] & need:
                break
            chosen.append(best)
            need -= ops_of[best]
            left.discard(best)
        cover = [scripts[i] for i in chosen]
        picked = set(chosen)
        first = [x for i, x in enumerate(scripts)
                 if i not in picked and x in first]
        rest = [x for i, x in enumerate(scripts)
                if i not in picked and x not in first]
        first = cover + first
        ctx.coverage[f'op_cover_scripts_{name}'] = len(cover)
        ctx.coverage.setdefault('state_classes_covered', 0)
        ctx.coverage['state_classes_covered'] += len(first)
        ctx.coverage[f'scripts_{name}'] = (len(first), len(scripts))
        for r in par_replay([([(lbl, None) for lbl in script], chans, reject,
                              final, d['Win'])
                             for script, final in (first + rest)[:keep]]):
            r['l1'] = [b for b in r['l1']
                       if not b.startswith('DataBeforeClose')]   # C07's
            total += 1
            ctx.count((name, tuple(map(str, r['script']))))
            if r['l1']:
                ctx.violation({'module': 'Lifecycle',
                               'clauses': sorted({c.split(':')[0]
                                                  for c in r['l1']})},
                              '; '.join(r['l1'][:4]),
                              replay={'kind': 'script', 'config': name,
                                      'script': r['script'], 'chans': chans,
                                      'reject': reject, 'win': d['Win']})
            elif r['diverged']:
                ctx.divergence(f'{name}: {r["diverged"]} script='
                               f'{r["script"]}')
    # every application operation in every context (own channel states, the
    # peer's send state): the shortest behaviour ending with it, then
    # everything in flight is delivered and the monitors judge.  Contexts
    # that exist only in passing (both ends closing with unsent data) leave
    # no trace in a quiescent final state and are reached only this way.
    ctxs = [('ctxF', dict(flow, MaxOps=6 if quick else 7)),
            ('ctxF1', dict(flow, Win=1, MaxOps=7)),
            ('ctxD', dict(WithData='TRUE', ConnOps='FALSE', Cuts=0,
                          MaxOps=5 if quick else 6))]
    for name, consts in ctxs:
        tg = f'c09_{name}_{os.getpid()}'
        # viewL: the label is part of the state identity - with the plain view
        # an operation whose successor state coincides with another's
        # (abort() and close() with nothing left to send) was never printed
        cfg, d = write_cfg(f'_{tg}.cfg', consts, invariants=['EmitOpCtx'],
                           view=True, viewname='viewL')
        scripts, res = tlc.bfs_scripts(SPEC, 'Lifecycle', cfg, tg)
        ctx.require_tlc_ok(f'Lifecycle {name} (operation contexts) {consts}',
                           res)
        tlc.cleanup(tg)
        os.remove(os.path.join(SPEC, cfg))
        ctx.require(len(scripts) > 30, f'too few operation contexts for '
                    f'{name}: {len(scripts)}')
        ctx.coverage[f'op_contexts_{name}'] = len(scripts)
        jobs = [([(lbl, None) for lbl in sc], [1], [], None, d['Win'], True)
                for sc, _ in scripts]
        for r in par_replay(jobs):
            r['l1'] = [b for b in r['l1']
                       if not b.startswith('DataBeforeClose')]   # C07's
            total += 1
            ctx.count((name, tuple(map(str, r['script']))))
            if r['l1']:
                ctx.violation({'module': 'Lifecycle',
                               'clauses': sorted({c.split(':')[0]
                                                  for c in r['l1']})},
                              '; '.join(r['l1'][:4]),
                              replay={'kind': 'script', 'config': name,
                                      'script': r['script'], 'chans': [1],
                                      'reject': [], 'win': d['Win'],
                                      'prefix': True})
            elif r['diverged']:
                ctx.divergence(f'{name}: {r["diverged"]} script='
                               f'{r["script"]}')
    ctx.traces_validated(total)
    parts['replay'] = round(time.time() - t0, 1)
    # ---- 3. crash points ----
    os.makedirs(tlc.WORK, exist_ok=True)
    total_points = 0
    for sname, scen, skw, qstep in (
            ('main', None, {}, 3),
            ('flow', crashpoints.scenario_flow,
             dict(window=1024, max_pktsize=512), 5)):
        base = crashpoints.Run(workdir=tlc.WORK, scenario=scen,
                               server_kw=skw).run()
        bad = crashpoints.judge(base, False)
        if not bad and base['log'][-1:] != ['end']:
            bad = [f'FaultFreeCompletes: the scenario stopped at '
                   f'{base["log"][-3:]}']
        if bad:
            # two honest endpoints, nothing injected: whatever goes wrong here
            # is the implementation (an operation that hangs or fails)
            ctx.violation({'module': 'CrashPoints', 'scenario': sname,
                           'kind': 'fault-free'},
                          f'{sname}: without any fault: ' + '; '.join(bad[:3]),
                          replay={'kind': 'crashpoint', 'k': 0, 'fault': None,
                                  'scenario': sname})
            continue
        N = base['nwrites']
        total_points += N
        step = qstep if quick else 1
        kinds = crashpoints.KINDS
        for k in range(1, N + 1):
            for i, kind in enumerate(kinds):
                if quick and (k + i) % step:
                    continue
                r = crashpoints.Run(k, kind, workdir=tlc.WORK, scenario=scen,
                                    server_kw=skw).run()
                ctx.count(('crash', sname, k, kind))
                bad = crashpoints.judge(r, True)
                if bad:
                    ctx.violation({'module': 'CrashPoints', 'kind': kind,
                                   'scenario': sname,
                                   'clauses': sorted({b.split(':')[0]
                                                      for b in bad})},
                                  f'{sname}: fault {kind} at packet {k}/{N}: '
                                  + '; '.join(bad[:3]),
                                  replay={'kind': 'crashpoint', 'k': k,
                                          'scenario': sname, 'fault': kind})
                if r['loop_exceptions']:
                    ctx.violation({'module': 'CrashPoints', 'kind': kind,
                                   'scenario': sname, 'loop_exception':
                                   r['loop_exceptions'][0][:60]},
                                  f'{sname}: fault {kind} at packet {k}/{N}: '
                                  f'exception reached the event loop: '
                                  f'{r["loop_exceptions"][0]}',
                                  replay={'kind': 'crashpoint', 'k': k,
                                          'scenario': sname, 'fault': kind})
    N = total_points
    ctx.coverage['crash_points'] = N
    parts['crashpoints'] = round(time.time() - t0, 1)
    # ---- 4. silent peers: keepalive and login timeout (specs/Timers) ----
    timers(ctx, quick)
    parts['timers'] = round(time.time() - t0, 1)
    ctx.assumptions += [
        'both endpoints are asyncssh (a peer that never answers CLOSE while '
        'the connection stays up is outside the property)',
        'at quiescence with the connection still up, wait_closed() on a '
        'channel nobody closed may legitimately be pending; everything must '
        'be resolved after the final transport loss',
    ]


if __name__ == '__main__':
    run_check('C09', main)
