"""C11 - re-keying is invisible to applications and really changes keys.

1. TLC exhausts specs/Transport/Rekey.tla: thresholds of one packet on either
   or both sides (simultaneous initiation), repeated exchanges, application
   packets from both sides interleaved with every step of the exchange:
   FIFOExactlyOnce, NoKeyMismatch, OnlyKexBetween, EpochsInStep and the
   liveness property Completes; the variant that flushes deferred packets
   before NEWKEYS must be rejected.
2. Behaviours are replayed on a real pair at packet granularity (one
   application packet = one channel write, one delivery = one SSH packet),
   comparing emitted message kinds, pending packets and received data with
   the model after every step.
3. Busy live sessions with tiny byte limits and a time limit, on several
   cipher families, with requests and channel opens in flight: echoed data
   intact, only key-exchange messages between a side's KEXINIT and NEWKEYS
   (hook log), session id constant, fresh K/H and fresh derived keys per
   exchange, and the INDEPENDENT decoder must follow every key change.
4. Code -> spec trace validation (specs/Transport/RekeyTrace.tla): sessions
   in which both applications write from their own asyncio tasks at random
   virtual times, with random segmentation and stalls of both byte streams
   and byte limits from one byte to several packets, are RECORDED (one event
   per spec action at its linearization point, with the endpoint's
   _kex_complete/_kexinit_sent/_kex/_next_recv_encryption/deferred/
   _rekey_bytes_sent afterwards) and TLC decides whether each recorded
   execution is a behaviour of Rekey.tla, evaluating the invariants in every
   state; corrupted copies of real traces and the flush-before-NEWKEYS
   variant of the spec must be rejected (binding controls)."""

import os

from harness import tlc, wire
from harness.framework import run_check, MachineryError, VERIF

SPEC = os.path.join(VERIF, 'specs', 'Transport')
INVS = ['FIFOExactlyOnce', 'NoKeyMismatch', 'OnlyKexBetween', 'EpochsInStep']


def write_cfg(name, consts, invariants=(), properties=(), view=True,
              spec='Spec'):
    d = dict(ThreshC=1, ThreshS=1, MaxApp=3, MaxKex=3,
             FlushBeforeNewkeys='FALSE', RepeatC='TRUE', RepeatS='TRUE',
             RelatchStrict='FALSE', Timer='{}', MaxTicks=0,
             TimerIgnoresKex='FALSE')
    d.update(consts)
    lines = ['CONSTANTS'] + [f'  {k} = {v}' for k, v in d.items()]
    lines += [f'SPECIFICATION {spec}', 'CHECK_DEADLOCK FALSE']
    lines += [f'INVARIANT {i}' for i in invariants]
    lines += [f'PROPERTY {p}' for p in properties]
    if view:
        lines.append('VIEW view')
    with open(os.path.join(SPEC, name), 'w') as f:
        f.write('\n'.join(lines) + '\n')
    return name, d


def mc(ctx, tag, consts, invariants, expect=None, properties=(), spec='Spec',
       view=True):
    cfg, _ = write_cfg(f'_{tag}.cfg', consts, invariants, properties, view,
                       spec)
    res = tlc.run(SPEC, 'Rekey', cfg, tag, timeout=1800)
    ctx.require_tlc_ok(f'Rekey {tag} {consts}', res, expect_violation=expect)
    tlc.cleanup(tag)
    os.remove(os.path.join(SPEC, cfg))


def sim(tag, consts, num, depth, seed):
    cfg, d = write_cfg(f'_{tag}.cfg', consts, view=False)
    out_dir = tlc.workdir(tag + '_out')
    res = tlc.run(SPEC, 'Rekey', cfg, tag, workers=4, timeout=600,
                  simulate=f'file={out_dir}/tr,num={num}', depth=depth,
                  seed=seed)
    if res.error and res.error != 'timeout':
        raise MachineryError(f'simulate {tag}: {res.error}\n' +
                             res.output[-2000:])
    traces = [[(st['lbl'], st) for _, st in steps[1:]]
              for _, steps in tlc.read_sim_traces(out_dir, 'tr_')]
    tlc.cleanup(tag + '_out')
    tlc.cleanup(tag)
    os.remove(os.path.join(SPEC, cfg))
    return traces, d


def busy_session(ctx, T, kw, rekey_c, rekey_s, what, sig, by_time=False,
                 change=None):
    """A live echo session with tiny re-key limits; everything observable is
    judged."""
    import asyncssh
    from harness.drivers import rekey
    payloads = [bytes([65 + i]) * n for i, n in
                enumerate((1, 40, 300, 7, 1200, 3, 64, 500))]
    ckw = dict(kw)
    skw = dict(kw)
    if rekey_c:
        ckw['rekey_bytes'] = rekey_c
    if rekey_s:
        skw['rekey_bytes'] = rekey_s
    extra = {}

    async def after(conn, sconn, rec):
        # requests and a channel open in flight while exchanges run
        chan2, _ = await conn.create_session(asyncssh.SSHClientSession, 'y',
                                             encoding=None)
        extra['chan2'] = chan2
        lst = await conn.forward_remote_port('', 0, '127.0.0.1', 2222)
        extra['lst'] = lst
        if change:
            # both ends now prefer other algorithms: every later exchange
            # negotiates them, so keys, cipher, MAC and compression all
            # change in mid-session
            for c in (conn, sconn):
                for attr, val in change.items():
                    setattr(c, attr, [v.encode() for v in val])

    class Srv(T.NoAuth):
        def server_requested(self, host, port):
            return True

    skw['server_factory'] = Srv
    r = T.run_session(payloads, client_kw=ckw, server_kw=skw,
                      after_connect=after)
    bad = []
    if r['outcome'] != 'ok':
        bad.append(f'session failed: {r["outcome"]} {r.get("exc")}')
    elif r['echoed'] != payloads:
        bad.append('FIFOExactlyOnce: echoed data differs from what was '
                   'written')
    rec = r['rec']
    hook_events = []
    for side in 'cs':
        hook_events += [(side, 'pkt_out', {'pkttype': t})
                        for t, _, _, _ in rec.app[side]]
    # order within a side is what matters for OnlyKexBetween
    bad += rekey.only_kex_between(hook_events)
    klogs = [e[1] for e in rec.events if e[0] == 'k']
    sids = {k['session_id'] for k in klogs}
    if len(sids) != 1:
        bad.append(f'SessionIdStable: {len(sids)} different session ids')
    nx = len(klogs) // 2
    if (rekey_c or rekey_s or by_time) and nx < 2:
        bad.append(f'no re-exchange happened (exchanges: {nx}); limits '
                   f'{rekey_c}/{rekey_s} were not honoured')
    if change and nx >= 2:
        first, last = klogs[0], klogs[-1]
        want = {'_enc_algs': ('enc_cs', 'enc_sc'),
                '_mac_algs': ('mac_cs', 'mac_sc'),
                '_cmp_algs': ('cmp_cs', 'cmp_sc'),
                '_kex_algs': ('kex_alg',)}
        for attr, val in change.items():
            for f in want[attr]:
                got = last[f].decode() if isinstance(last[f], bytes) \
                    else last[f]
                if got != val[0]:
                    bad.append(f'AlgorithmChange: after the change of '
                               f'preferences {f} is still {last[f]!r}, '
                               f'expected {val[0]}')
    hs = [k['h'] for k in klogs if k['side'] == 'c']
    if len(set(hs)) != len(hs):
        bad.append('EpochFresh: an exchange hash was reused')
    sess, err = T.decode_all(rec)
    if err:
        bad.append(f'independent decoder: {err}')
    else:
        for d in ('cs', 'sc'):
            dec = sess.cs if d == 'cs' else sess.sc
            if dec.epoch != nx:
                bad.append(f'independent decoder saw {dec.epoch} key changes '
                           f'in direction {d}, endpoints logged {nx}')
        # fresh keys: the keys derived for consecutive exchanges differ
        seen = set()
        for k in klogs:
            if k['side'] != 'c':
                continue
            ks = wire.Keys(k['kex_alg'], k['k'], k['h'], k['session_id'],
                           'cs', k['enc_cs'], k['mac_cs'], k['cmp_cs'])
            if (ks.key, ks.iv) in seen:
                bad.append('EpochFresh: derived keys repeated')
            seen.add((ks.key, ks.iv))
    if r['loop_exceptions']:
        bad.append(f'exception reached the loop: {r["loop_exceptions"][0]}')
    ctx.count(('busy', what), nontrivial=nx >= 2)
    if bad:
        ctx.violation(sig, f'{what}: ' + '; '.join(bad[:3]),
                      replay={'kind': 'busy', **sig})
    return nx


TRACE_CONSTS = dict(ThreshC=0, ThreshS=0, MaxApp=100000, MaxKex=100000,
                    FlushBeforeNewkeys='FALSE', RepeatC='TRUE', RepeatS='TRUE',
                    RelatchStrict='FALSE', Timer='{}', MaxTicks=0,
                    TimerIgnoresKex='FALSE')
DIAG = ['DiagOut', 'DiagKc', 'DiagKs', 'DiagKexing', 'DiagStaged', 'DiagNdef',
        'DiagCnt', 'DiagErr']


def trace_validation(ctx, rekey, quick):
    """Part 4: recorded executions against Rekey.tla."""
    import copy
    n = 90 if quick else 2400
    kws = [None, dict(encryption_algs=['aes128-ctr'],
                      mac_algs=['hmac-sha2-256']),
           dict(encryption_algs=['3des-cbc'], mac_algs=['hmac-sha1'])]
    modes = ['mixed', 'whole', 'tiny', 'mixed half', 'stall whole',
             'tiny half']
    recs = []
    for i in range(n):
        seed = ctx.seed * 100003 + i
        thc, ths = [(1, 0), (0, 1), (1, 1), (2, 1), (2, 2), (3, 0), (1, 3),
                    (3, 2), (4, 4)][i % 9]
        mode = modes[(i // 9) % len(modes)]
        kw = kws[(i // 54) % len(kws)]
        r = rekey.record_natural(seed, thc, ths, n_c=4 + i % 5,
                                 n_s=3 + (i // 5) % 5, mode=mode, kw=kw)
        r['sig'] = {'module': 'RekeyTrace', 'limits': [thc, ths],
                    'mode': mode, 'algs': str(kw)}
        r['args'] = dict(seed=seed, th_c=thc, th_s=ths, n_c=4 + i % 5,
                         n_s=3 + (i // 5) % 5, mode=mode, kw=kw)
        recs.append(r)
        ctx.count(('trace', thc, ths, mode, str(kw)),
                  nontrivial=r['nkex'] >= 2)
        if r['l1']:
            ctx.violation(dict(r['sig'], clauses=sorted(
                {c.split(':')[0] for c in r['l1']})),
                          '; '.join(r['l1'][:3]),
                          replay={'kind': 'natural', **r['args']})
        if r['loop_exceptions']:
            ctx.divergence(f'natural session {r["args"]}: loop exception '
                           f'{r["loop_exceptions"][0]}')
    total_ev = 0
    for b in range(0, len(recs), 300):
        batch = recs[b:b + 300]
        res, verdicts = tlc.validate_traces(
            SPEC, 'RekeyTrace', [r['trace'] for r in batch],
            f'c11_tr_{b}', constants=TRACE_CONSTS, diag=DIAG)
        ctx.add_tlc(f'RekeyTrace batch {b}', res)
        if res.violation:
            # an invariant of Rekey.tla fails in a state bound to a recorded
            # execution
            ctx.violation({'module': 'RekeyTrace', 'invariant': res.violation},
                          f'invariant {res.violation} fails on a recorded '
                          f'execution: ' + res.output[-1500:],
                          replay={'kind': 'natural-batch',
                                  'args': [r['args'] for r in batch]})
            continue
        if res.error:
            raise MachineryError(f'RekeyTrace: {res.error}\n' +
                                 res.output[-3000:])
        for i, v in sorted(verdicts.items()):
            total_ev += v['matched']
            if not v['accepted']:
                ctx.divergence(f'recorded execution {batch[i]["args"]} is '
                               f'not a behaviour of Rekey.tla: '
                               f'{v["diagnosis"]}')
    ctx.coverage['recorded_traces_validated_by_tlc'] = len(recs)
    ctx.coverage['recorded_events_matched'] = total_ev
    # ---- binding controls: corrupted copies must be rejected ----
    good = [r['trace'] for r in recs if r['nkex'] >= 2 and
            any(e['ndef'] > 0 for e in r['trace']['ev'])][:4]
    if ctx.violations or ctx.divergences:
        # (on a tree that misbehaves the recorded traces are not the
        # material the controls are designed for; the verdict is exit 1)
        ctx.notes.append('binding controls skipped: recorded traces were '
                         'rejected (see violations / divergences)')
        ctx.traces_validated(len(recs))
        return
    ctx.require(len(good) == 4, 'no recorded trace with deferred packets')
    bad = []
    t = copy.deepcopy(good[0])
    i = [k for k, e in enumerate(t['ev']) if e['ndef'] > 0][0]
    t['ev'][i]['ndef'] += 1
    bad.append(('field ndef corrupted', t))
    t = copy.deepcopy(good[1])
    i = [k for k, e in enumerate(t['ev']) if e['t'] == 'NEWKEYS'][0]
    del t['ev'][i]
    bad.append(('NEWKEYS receipt removed', t))
    t = copy.deepcopy(good[2])
    t['thc'] += t['asz']
    t['ths'] += t['asz']
    bad.append(('limits shifted by one packet', t))
    t = copy.deepcopy(good[3])
    i = [k for k, e in enumerate(t['ev']) if e['e'] == 'app' and
         e['out'] == ['APP']][0]
    t['ev'][i]['cnt'] += 1
    bad.append(('counter off by one', t))
    res, verdicts = tlc.validate_traces(SPEC, 'RekeyTrace',
                                        [b[1] for b in bad], 'c11_tr_neg',
                                        constants=TRACE_CONSTS)
    for i, (what, _) in enumerate(bad):
        ctx.require(i in verdicts and not verdicts[i]['accepted'],
                    f'binding control "{what}" was accepted by RekeyTrace')
    res, verdicts = tlc.validate_traces(
        SPEC, 'RekeyTrace', good, 'c11_tr_sens',
        constants=dict(TRACE_CONSTS, FlushBeforeNewkeys='TRUE'),
        invariants=())
    ctx.require(verdicts and not any(v['accepted'] for v in verdicts.values()),
                'flush-before-NEWKEYS variant accepted a recorded trace')
    ctx.traces_validated(len(recs))


def main(ctx):
    from harness.drivers import rekey, transport as T
    if ctx.replay_path:
        from checks import replay_mine
        return replay_mine.c11(ctx)
    quick = ctx.tier == 'quick'
    # ---- 1. design check ----
    for tc, ts in ((1, 0), (0, 1), (1, 1), (2, 1)):
        mc(ctx, f'c11_mc_{tc}{ts}', dict(ThreshC=tc, ThreshS=ts,
                                         MaxApp=3 if quick else 4,
                                         MaxKex=12), INVS)
    mc(ctx, 'c11_live', dict(MaxApp=2, MaxKex=2), [],
       properties=['Completes'], spec='LiveSpec', view=False)
    mc(ctx, 'c11_sens', dict(FlushBeforeNewkeys='TRUE'), ['OnlyKexBetween'],
       expect='OnlyKexBetween')
    # a peer that sends the kex-strict marker in its first KEXINIT only
    for rc, rs in (('FALSE', 'TRUE'), ('TRUE', 'FALSE'), ('FALSE', 'FALSE')):
        mc(ctx, f'c11_mk_{rc[0]}{rs[0]}', dict(RepeatC=rc, RepeatS=rs,
                                               MaxApp=3, MaxKex=6), INVS)
    mc(ctx, 'c11_sens_mk', dict(RepeatC='FALSE', RelatchStrict='TRUE',
                                MaxKex=6), ['NoKeyMismatch'],
       expect='NoKeyMismatch')
    # re-keying by time (rekey_seconds): the limit can pass at any moment,
    # also while an exchange is running and again before it completes
    for tm, tc, ts in (('{"c"}', 0, 0), ('{"s"}', 0, 1), ('{"c", "s"}', 1, 0)):
        mc(ctx, f'c11_tm_{len(tm)}{tc}{ts}',
           dict(Timer=tm, MaxTicks=3, ThreshC=tc, ThreshS=ts, MaxApp=3,
                MaxKex=8), INVS)
    mc(ctx, 'c11_sens_tm', dict(Timer='{"c"}', MaxTicks=2, ThreshC=0,
                                ThreshS=0, TimerIgnoresKex='TRUE', MaxKex=6),
       ['NoKeyMismatch'], expect='NoKeyMismatch')
    mc(ctx, 'c11_w1', {}, ['NeverSimultaneous'], expect='NeverSimultaneous')
    mc(ctx, 'c11_w2', {}, ['NeverRekey'], expect='NeverRekey')
    # ---- 2. replay ----
    n = 50 if quick else 500
    total = 0
    for name, tc, ts, tm in (('c', 1, 0, ''), ('s', 0, 1, ''),
                             ('both', 1, 1, ''), ('tc', 0, 0, 'c'),
                             ('ts', 0, 0, 's'), ('tcs', 0, 1, 'cs')):
        consts = dict(ThreshC=tc, ThreshS=ts, MaxApp=4, MaxKex=12)
        if tm:
            # (MaxKex out of reach: the bound is an artefact of the model)
            consts.update(Timer='{' + ', '.join(f'"{x}"' for x in tm) + '}',
                          MaxTicks=4, MaxKex=60)
        traces, d = sim(f'c11_sim_{name}', consts, n, 60, ctx.seed + 21)
        ctx.require(traces, f'no traces for {name}')
        for steps in traces:
            if len(steps) < 3:
                continue
            r = rekey.replay(steps, tc, ts, timer=tm)
            total += 1
            ctx.count((name, tuple(map(str, r['script']))),
                      nontrivial='KEXINIT' in str(steps[-1][1]['s']['out']))
            if total % 53 == 1:
                ctx.sample({'thresholds': [tc, ts], 'script': r['script']})
            if r['l1']:
                ctx.violation({'module': 'Rekey', 'clauses':
                               sorted({c.split(':')[0] for c in r['l1']})},
                              '; '.join(r['l1'][:3]),
                              replay={'kind': 'behaviour', 'thresh': [tc, ts],
                                      'timer': tm, 'script': r['script']})
            elif r['diverged']:
                ctx.divergence(f'{name}: {r["diverged"]} script='
                               f'{r["script"]}')
            if r['loop_exceptions']:
                ctx.divergence(f'{name}: loop exception '
                               f'{r["loop_exceptions"][0]}')
    ctx.traces_validated(total)
    # ---- 3. busy sessions ----
    algs = [dict(encryption_algs=['aes128-ctr'], mac_algs=['hmac-sha2-256']),
            dict(encryption_algs=['chacha20-poly1305@openssh.com']),
            dict(encryption_algs=['aes256-gcm@openssh.com']),
            dict(encryption_algs=['aes128-cbc'],
                 mac_algs=['hmac-sha1-etm@openssh.com'],
                 compression_algs=['zlib@openssh.com'])]
    if not quick:
        algs += [dict(encryption_algs=['3des-cbc'], mac_algs=['hmac-md5']),
                 dict(encryption_algs=['aes192-ctr'],
                      mac_algs=['umac-128@openssh.com'],
                      compression_algs=['zlib']),
                 dict(kex_algs=['diffie-hellman-group14-sha256']),
                 dict(kex_algs=['ecdh-sha2-nistp256'])]
    limits = [(1, 0), (0, 1), (1, 1), (100, 0), (0, 257), (64, 64),
              (1000, 300)]
    for i, kw in enumerate(algs):
        for rc, rs in (limits if not quick else limits[i % 2::2] +
                       [limits[2]]):
            name = f'{kw} rekey_bytes c={rc} s={rs}'
            busy_session(ctx, T, kw, rc, rs, name,
                         {'module': 'RekeyLive', 'algs': str(kw),
                          'limits': [rc, rs]})
    # ---- 4. recorded executions against the spec ----
    trace_validation(ctx, rekey, quick)
    # ---- 3b. the negotiated algorithms change between exchanges ----
    changes = [
        (dict(encryption_algs=['aes128-ctr'], mac_algs=['hmac-sha2-256'],
              compression_algs=['none']),
         dict(_enc_algs=['chacha20-poly1305@openssh.com'],
              _cmp_algs=['zlib@openssh.com'])),
        (dict(encryption_algs=['chacha20-poly1305@openssh.com']),
         dict(_enc_algs=['aes256-ctr'],
              _mac_algs=['hmac-sha2-512-etm@openssh.com'])),
        (dict(encryption_algs=['aes128-gcm@openssh.com'],
              compression_algs=['zlib@openssh.com']),
         dict(_enc_algs=['aes128-cbc'], _mac_algs=['hmac-sha1'],
              _cmp_algs=['none'])),
        (dict(encryption_algs=['aes256-ctr'],
              mac_algs=['umac-64-etm@openssh.com'],
              kex_algs=['curve25519-sha256']),
         dict(_enc_algs=['3des-cbc'], _mac_algs=['hmac-md5'],
              _kex_algs=['diffie-hellman-group14-sha256'])),
    ]
    for kw, change in (changes[:3] if quick else changes):
        for rc, rs in ((64, 0), (0, 64), (1, 1)):
            name = f'{kw} -> {change} rekey_bytes c={rc} s={rs}'
            busy_session(ctx, T, kw, rc, rs, name,
                         {'module': 'RekeyLive', 'algs': str(kw),
                          'change': str(change), 'limits': [rc, rs]},
                         change=change)
    # ---- 3c. a peer that sends the kex-strict marker in its first KEXINIT
    # only (RepeatC / RepeatS = FALSE of the model): a raw peer re-keys with
    # the endpoint under test; strict mode stays as the first exchange
    # decided, so the sequence numbers keep being reset on both sides ----
    pl = [bytes([(5 * i + j) % 251 for j in range(600)]) for i in range(10)]
    for role in 'sc':
        for rk in ((1500,) if quick else (800, 1500, 3000)):
            r = T.run_asym_session(role, {}, pl, kw=dict(rekey_bytes=rk),
                                   raw_kw=dict(strict_first_only=True))
            nkex = sum(1 for t, *_ in r['rec'].app['c'] if t == 20)
            ctx.count(('marker-first-only', role, rk), nontrivial=True)
            bad = []
            if r['outcome'] != 'ok':
                bad.append(f'NoKeyMismatch: the session ended with '
                           f'{r["outcome"]} after {nkex} key exchanges')
            elif r['echoed'] != pl:
                bad.append(f'FIFOExactlyOnce: payload lengths sent '
                           f'{[len(p) for p in pl]} echoed '
                           f'{[len(p) for p in r["echoed"]]}')
            elif nkex < 3:
                raise MachineryError(f'marker-first-only session did not '
                                     f're-key ({nkex} KEXINIT)')
            if bad:
                ctx.violation({'module': 'RekeyLive', 'marker_first_only':
                               True, 'role': role},
                              f're-key every {rk} bytes against a peer that '
                              f'omits the strict-kex marker when re-keying '
                              f'(endpoint under test: {role}): '
                              + '; '.join(bad),
                              replay={'kind': 'marker-first-only',
                                      'role': role, 'rekey_bytes': rk})
    ctx.assumptions += [
        'replay thresholds are 0 or 1 application packet (rekey_bytes=1); '
        'larger byte limits are covered by the busy-session sweep',
        'time-based re-keying uses time.monotonic() and is not driven by the '
        'virtual clock; it shares the trigger code path with the byte limit',
    ]


if __name__ == '__main__':
    run_check('C11', main)
