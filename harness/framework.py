"""Common check scaffolding: verdicts, known findings, evidence, exit codes.

Exit codes: 0 property held on everything explored (known findings are
printed as KNOWN-FINDING lines), 1 at least one violation that is not a
listed known finding (VIOLATION line printed), 2 machinery failure.
"""

import hashlib
import json
import os
import sys
import time
import traceback

VERIF = os.path.dirname(os.path.dirname(os.path.abspath(__file__)))
REPO = os.environ.get('VERIF_REPO', '/repo')
EVID = os.path.join(VERIF, 'evidence')
REPLAYS = os.path.join(VERIF, 'replays')
KNOWN = os.path.join(VERIF, 'known_findings.json')


class MachineryError(Exception):
    pass


def load_known():
    try:
        with open(KNOWN) as f:
            return json.load(f)
    except FileNotFoundError:
        return {'known': [], 'fixed': []}


class Ctx:
    def __init__(self, pid, tier, seed):
        self.pid = pid
        self.tier = tier
        self.seed = seed
        self.t0 = time.time()
        self.violations = []        # unlisted
        self.known_hits = {}        # finding id -> count
        self.known = [k for k in load_known().get('known', [])
                      if k.get('property') == pid]
        self.coverage = {'evaluations': 0, 'distinct_nontrivial': 0,
                         'samples': []}
        self.assumptions = []
        self.level = 'model_checking'
        self.notes = []
        self._distinct = set()
        self.tlc_runs = []
        self.divergences = []

    # ---- counting ----
    def count(self, key=None, nontrivial=True, n=1):
        self.coverage['evaluations'] += n
        if key is not None and nontrivial:
            self._distinct.add(key if isinstance(key, (str, int, tuple))
                               else json.dumps(key, sort_keys=True, default=str))

    def sample(self, obj, limit=6):
        if len(self.coverage['samples']) < limit:
            self.coverage['samples'].append(obj)

    def add_tlc(self, name, res):
        self.tlc_runs.append(dict(name=name, **res.as_dict()))
        self.coverage['states'] = self.coverage.get('states', 0) + res.distinct
        self.coverage['transitions'] = \
            self.coverage.get('transitions', 0) + res.generated

    def traces_validated(self, n):
        self.coverage['traces_validated_against_impl'] = \
            self.coverage.get('traces_validated_against_impl', 0) + n

    # ---- verdicts ----
    def violation(self, signature, what, replay=None):
        """signature: JSON-able value identifying the failing input/schedule
        (compared with known_findings.json)."""
        sig = json.dumps(signature, sort_keys=True, default=str)
        for k in self.known:
            if _sig_match(k.get('signature'), signature):
                kid = k.get('id', k.get('what', '?'))
                if kid not in self.known_hits:
                    print(f'KNOWN-FINDING: property={self.pid} {k["what"]}')
                self.known_hits[kid] = self.known_hits.get(kid, 0) + 1
                return False
        h = hashlib.sha1(sig.encode()).hexdigest()[:12]
        d = os.path.join(REPLAYS, self.pid)
        os.makedirs(d, exist_ok=True)
        path = os.path.join(d, f'{h}.json')
        with open(path, 'w') as f:
            json.dump({'property': self.pid, 'signature': signature,
                       'what': what, 'replay': replay, 'seed': self.seed,
                       'tier': self.tier}, f, indent=1, default=str)
        if len(self.violations) < 20:
            print(f'VIOLATION property={self.pid} replay={path}')
            print(f'  what: {what}')
        self.violations.append((signature, what, path))
        return True

    def divergence(self, what):
        self.divergences.append(what)
        if len(self.divergences) <= 10:
            print(f'MODEL-DIVERGENCE property={self.pid} {what}')

    def require(self, cond, msg):
        if not cond:
            raise MachineryError(msg)

    def require_tlc_ok(self, name, res, expect_violation=None):
        self.add_tlc(name, res)
        if expect_violation is not None:
            if res.violation != expect_violation:
                raise MachineryError(
                    f'TLC run {name}: expected violation {expect_violation}, '
                    f'got {res.violation} / {res.error}\n' + res.output[-3000:])
            return
        if res.error:
            raise MachineryError(f'TLC run {name}: {res.error}\n' +
                                 res.output[-3000:])
        if res.violation:
            raise MachineryError(
                f'TLC run {name}: specification violates {res.violation}; the '
                f'design model is expected to satisfy it (spec bug)\n' +
                res.output[-4000:])

    # ---- finish ----
    def finish(self):
        cov = self.coverage
        cov['distinct_nontrivial'] = max(cov.get('distinct_nontrivial', 0),
                                         len(self._distinct))
        if not cov.get('samples'):
            cov['samples'] = ['(none recorded)']
        cov['tlc_runs'] = self.tlc_runs
        cov['known_findings_hit'] = self.known_hits
        cov['model_divergences'] = self.divergences[:20]
        level = self.level
        if self.divergences and level == 'model_checking':
            level = 'exploration'
        if level == 'model_checking':
            cov.setdefault('states', 0)
            cov.setdefault('transitions', 0)
            cov.setdefault('traces_validated_against_impl', 0)
            if cov['states'] < 1 or cov['transitions'] < 1:
                level = 'exploration'
        ev = {'property_id': self.pid, 'tier': self.tier, 'seed': self.seed,
              'level': level, 'coverage': cov,
              'assumptions': self.assumptions,
              'wall_s': round(time.time() - self.t0, 2),
              'violations': len(self.violations), 'notes': self.notes}
        os.makedirs(EVID, exist_ok=True)
        with open(os.path.join(EVID, f'{self.pid}.json'), 'w') as f:
            json.dump(ev, f, indent=1, default=str)
        print(f'[{self.pid}/{self.tier}] evaluations={cov["evaluations"]} '
              f'distinct={cov["distinct_nontrivial"]} '
              f'states={cov.get("states", 0)} '
              f'traces={cov.get("traces_validated_against_impl", 0)} '
              f'violations={len(self.violations)} '
              f'known={sum(self.known_hits.values())} '
              f'wall={ev["wall_s"]}s')
        return 1 if self.violations else 0


def _sig_match(pattern, sig):
    """A known-finding signature matches if every key of the pattern is in
    the observed signature with an equal value (dict), or equal otherwise."""
    if isinstance(pattern, dict) and isinstance(sig, dict):
        return all(k in sig and _sig_match(v, sig[k])
                   for k, v in pattern.items())
    return pattern == sig


def run_check(pid, main):
    """Entry used by every checks/cXX.py: main(ctx) does the work."""
    tier = os.environ.get('VERIF_TIER', 'quick')
    args = sys.argv[1:]
    replay = None
    i = 0
    while i < len(args):
        if args[i] in ('quick', 'thorough'):
            tier = args[i]
        elif args[i] == '--replay':
            replay = args[i + 1]
            i += 1
        i += 1
    seed = int(os.environ.get('VERIF_SEED', '0') or 0)
    ctx = Ctx(pid, tier, seed)
    ctx.replay_path = replay
    try:
        main(ctx)
        rc = ctx.finish()
    except MachineryError as exc:
        print(f'MACHINERY-ERROR property={pid}: {exc}')
        rc = 2
    except Exception:                   # pylint: disable=broad-except
        traceback.print_exc()
        print(f'MACHINERY-ERROR property={pid}: unexpected exception')
        rc = 2
    sys.stdout.flush()
    sys.exit(rc)
