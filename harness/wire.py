"""Independent decoder of the SSH binary packet protocol (RFC 4253 s6, s7.2;
OpenSSH PROTOCOL.chacha20poly1305; RFC 5647 as used by OpenSSH for AES-GCM).

Never imports asyncssh.  Keys are derived here from (K, H, session id) and the
negotiated algorithm names; every primitive comes from `cryptography`,
hashlib, hmac and zlib.  Used to judge what asyncssh puts on the wire.
"""

import hashlib
import hmac as _hmac
import struct
import zlib

from cryptography.hazmat.primitives.ciphers import Cipher, algorithms, modes
from cryptography.hazmat.primitives.ciphers.aead import AESGCM
from cryptography.hazmat.primitives import poly1305

try:
    from cryptography.hazmat.decrepit.ciphers import algorithms as old
except ImportError:                     # pragma: no cover
    old = algorithms


class WireError(Exception):
    pass


# name -> (kind, key size, iv size, block size)
CIPHERS = {
    'chacha20-poly1305@openssh.com': ('chacha', 64, 0, 8),
    'aes128-gcm@openssh.com': ('gcm', 16, 12, 16),
    'aes256-gcm@openssh.com': ('gcm', 32, 12, 16),
    'aes128-ctr': ('ctr', 16, 16, 16),
    'aes192-ctr': ('ctr', 24, 16, 16),
    'aes256-ctr': ('ctr', 32, 16, 16),
    'aes128-cbc': ('cbc-aes', 16, 16, 16),
    'aes192-cbc': ('cbc-aes', 24, 16, 16),
    'aes256-cbc': ('cbc-aes', 32, 16, 16),
    '3des-cbc': ('cbc-3des', 24, 8, 8),
    'blowfish-cbc': ('cbc-bf', 16, 8, 8),
    'cast128-cbc': ('cbc-cast', 16, 8, 8),
    'seed-cbc@ssh.com': ('cbc-seed', 16, 16, 16),
    'arcfour': ('rc4', 16, 0, 1, 0),
    'arcfour128': ('rc4', 16, 0, 1, 1536),
    'arcfour256': ('rc4', 32, 0, 1, 1536),
}

# name -> (hash name | 'umac', key size, tag size, etm)
MACS = {}
for _n, _h, _k in (('hmac-md5', 'md5', 16), ('hmac-sha1', 'sha1', 20),
                   ('hmac-sha2-256', 'sha256', 32),
                   ('hmac-sha2-512', 'sha512', 64)):
    _d = hashlib.new(_h).digest_size
    MACS[_n] = (_h, _k, _d, False)
    MACS[_n + '-96'] = (_h, _k, 12, False)
    MACS[_n + '-etm@openssh.com'] = (_h, _k, _d, True)
    MACS[_n + '-96-etm@openssh.com'] = (_h, _k, 12, True)
for _n, _h in (('hmac-sha224@ssh.com', 'sha224'),
               ('hmac-sha256@ssh.com', 'sha256'),
               ('hmac-sha384@ssh.com', 'sha384'),
               ('hmac-sha512@ssh.com', 'sha512')):
    _d = hashlib.new(_h).digest_size
    MACS[_n] = (_h, _d, _d, False)
MACS['hmac-sha256-2@ssh.com'] = ('sha256', 32, 32, False)
# Tectia: the original hmac-sha256@ssh.com uses a 16-byte key
MACS['hmac-sha256@ssh.com'] = ('sha256', 16, 32, False)
MACS['umac-64@openssh.com'] = ('umac', 16, 8, False)
MACS['umac-128@openssh.com'] = ('umac', 16, 16, False)
MACS['umac-64-etm@openssh.com'] = ('umac', 16, 8, True)
MACS['umac-128-etm@openssh.com'] = ('umac', 16, 16, True)


def kex_hash(kex_alg):
    for h in ('sha512', 'sha384', 'sha256', 'sha224', 'sha1'):
        if kex_alg.endswith(h) or ('-' + h + '@') in kex_alg:
            return h
    if kex_alg.startswith('curve25519-sha256'):
        return 'sha256'
    # RFC 5656 s6.2.1: hash by curve size
    ecdh = {'ecdh-sha2-nistp256': 'sha256', 'ecdh-sha2-nistp384': 'sha384',
            'ecdh-sha2-nistp521': 'sha512',
            'ecdh-sha2-1.3.132.0.10': 'sha256'}
    if kex_alg in ecdh:
        return ecdh[kex_alg]
    raise WireError(f'unknown kex hash for {kex_alg}')


def derive(hname, k, h, letter, session_id, n):
    """RFC 4253 s7.2: HASH(K || H || X || session_id), extended."""
    key = b''
    while len(key) < n:
        d = hashlib.new(hname)
        d.update(k)
        d.update(h)
        d.update(key if key else letter + session_id)
        key += d.digest()
    return key[:n]


class Keys:
    """Keys of ONE direction derived independently from (K, H, sid)."""

    def __init__(self, kex_alg, k, h, session_id, direction, enc, mac, cmp_):
        hn = kex_hash(kex_alg)
        ivl, encl, macl = (b'A', b'C', b'E') if direction == 'cs' else \
            (b'B', b'D', b'F')
        self.enc, self.cmp = enc, cmp_
        c = CIPHERS[enc]
        self.kind, ksz, ivsz, self.block = c[0], c[1], c[2], c[3]
        self.iv = derive(hn, k, h, ivl, session_id, ivsz)
        self.key = derive(hn, k, h, encl, session_id, ksz)
        if self.kind in ('gcm', 'chacha'):
            self.mac = None
            self.macname = enc
            self.macsize = 16
            self.etm = False
            self.mackey = b''
        else:
            m = MACS[mac]
            self.mac, msz, self.macsize, self.etm = m[0], m[1], m[2], m[3]
            self.macname = mac
            self.mackey = derive(hn, k, h, macl, session_id, msz)
        self.rc4_skip = c[4] if self.kind == 'rc4' else 0


def _cbc_ctr(keys):
    k = keys.kind
    if k == 'ctr':
        return Cipher(algorithms.AES(keys.key), modes.CTR(keys.iv))
    if k == 'cbc-aes':
        return Cipher(algorithms.AES(keys.key), modes.CBC(keys.iv))
    if k == 'cbc-3des':
        return Cipher(old.TripleDES(keys.key), modes.CBC(keys.iv))
    if k == 'cbc-bf':
        return Cipher(old.Blowfish(keys.key), modes.CBC(keys.iv))
    if k == 'cbc-cast':
        return Cipher(old.CAST5(keys.key), modes.CBC(keys.iv))
    if k == 'cbc-seed':
        return Cipher(old.SEED(keys.key), modes.CBC(keys.iv))
    if k == 'rc4':
        return Cipher(old.ARC4(keys.key), None)
    raise WireError(k)


class Packet:
    __slots__ = ('seq', 'payload', 'raw_payload', 'padlen', 'pktlen', 'wire',
                 'type', 'epoch', 'mac_checked', 'compressed')

    def __repr__(self):
        return (f'<pkt seq={self.seq} type={self.type} len={self.pktlen} '
                f'pad={self.padlen} epoch={self.epoch}>')


class Decoder:
    """Decoder of one direction of one connection."""

    def __init__(self, direction):
        self.dir = direction            # 'cs' or 'sc'
        self.buf = b''
        self.version = None
        self.banner = []
        self.seq = 0
        self.epoch = 0
        self.keys = None
        self.dec = None
        self.gcm_iv = None
        self.next_keys = None           # installed when NEWKEYS is decoded
        self.strict = False
        self.packets = []
        self.inflate = None
        self.delayed = False            # zlib@openssh.com negotiated
        self.auth_seen = False          # set by the owner when SUCCESS seen
        self.total = 0

    # -- key management --
    def stage(self, keys):
        self.next_keys = keys

    def _install(self):
        k = self.next_keys
        if k is None:
            raise WireError(f'{self.dir}: NEWKEYS without staged keys')
        self.keys, self.next_keys = k, None
        self.epoch += 1
        if k.kind in ('ctr', 'rc4') or k.kind.startswith('cbc'):
            self.dec = _cbc_ctr(k).decryptor()
            if k.rc4_skip:
                self.dec.update(bytes(k.rc4_skip))
        elif k.kind == 'gcm':
            self.gcm_iv = k.iv
        if k.cmp == 'zlib':
            self.inflate = zlib.decompressobj()
            self.delayed = False
        elif k.cmp == 'zlib@openssh.com':
            # a new compression context per key exchange (RFC 4253 s6.2);
            # before authentication completes nothing is compressed
            self.delayed = True
            self.inflate = zlib.decompressobj() if self.auth_seen else None
        else:
            self.inflate = None
            self.delayed = False
        if self.strict:
            self.seq = 0

    # -- feeding --
    def feed(self, data):
        self.buf += data
        self.total += len(data)
        out = []
        if self.version is None:
            while True:
                i = self.buf.find(b'\n')
                if i < 0:
                    return out
                line, self.buf = self.buf[:i + 1], self.buf[i + 1:]
                if line.startswith(b'SSH-'):
                    self.version = line.rstrip(b'\r\n')
                    if not line.endswith(b'\r\n'):
                        raise WireError(f'{self.dir}: version line not '
                                        f'terminated by CR LF')
                    if len(line) > 255:
                        raise WireError('version line longer than 255')
                    break
                self.banner.append(line)
        while True:
            p = self._one()
            if p is None:
                break
            out.append(p)
            self.packets.append(p)
        return out

    def _one(self):
        k = self.keys
        buf = self.buf
        if len(buf) < 4:
            return None
        seq = self.seq
        if k is None:
            (pktlen,) = struct.unpack('>I', buf[:4])
            need = 4 + pktlen
            if len(buf) < need:
                self._sanity(pktlen)
                return None
            body = buf[4:need]
            wire = buf[:need]
            self._check_align(4 + pktlen, 8, 'cleartext')
            macok = None
        elif k.kind == 'chacha':
            k2, k1 = k.key[:32], k.key[32:]
            nonce = struct.pack('>Q', seq)
            hdr = Cipher(algorithms.ChaCha20(k1, bytes(8) + nonce),
                         None).decryptor().update(buf[:4])
            (pktlen,) = struct.unpack('>I', hdr)
            need = 4 + pktlen + 16
            if len(buf) < need:
                self._sanity(pktlen)
                return None
            wire = buf[:need]
            polykey = Cipher(algorithms.ChaCha20(k2, bytes(8) + nonce),
                             None).encryptor().update(bytes(32))
            tag = poly1305.Poly1305.generate_tag(polykey, buf[:4 + pktlen])
            if not _hmac.compare_digest(tag, buf[4 + pktlen:need]):
                raise WireError(f'{self.dir}: seq {seq}: chacha20-poly1305 '
                                f'tag does not verify under independently '
                                f'derived keys')
            body = Cipher(algorithms.ChaCha20(k2, struct.pack('<Q', 1) + nonce),
                          None).decryptor().update(buf[4:4 + pktlen])
            self._check_align(pktlen, 8, 'chacha')
            macok = True
        elif k.kind == 'gcm':
            (pktlen,) = struct.unpack('>I', buf[:4])
            need = 4 + pktlen + 16
            if len(buf) < need:
                self._sanity(pktlen)
                return None
            wire = buf[:need]
            try:
                body = AESGCM(k.key).decrypt(self.gcm_iv, buf[4:need], buf[:4])
            except Exception:
                raise WireError(f'{self.dir}: seq {seq}: AES-GCM tag does '
                                f'not verify under independently derived '
                                f'keys / invocation counter') from None
            ctr = int.from_bytes(self.gcm_iv[4:], 'big') + 1
            self.gcm_iv = self.gcm_iv[:4] + (ctr & (2 ** 64 - 1)).to_bytes(8, 'big')
            self._check_align(pktlen, 16, 'gcm')
            macok = True
        elif k.etm:
            (pktlen,) = struct.unpack('>I', buf[:4])
            need = 4 + pktlen + k.macsize
            if len(buf) < need:
                self._sanity(pktlen)
                return None
            wire = buf[:need]
            macok = self._mac(seq, buf[:4 + pktlen], buf[4 + pktlen:need])
            body = self.dec.update(buf[4:4 + pktlen])
            self._check_align(pktlen, k.block, 'etm')
        else:
            # encrypt-and-MAC: the first block has to be decrypted to learn
            # the length; keep the decryptor in step with the stream
            bs = max(k.block, 8)
            if len(buf) < bs:
                return None
            if getattr(self, '_first', None) is None:
                self._first = self.dec.update(buf[:bs])
            (pktlen,) = struct.unpack('>I', self._first[:4])
            need = 4 + pktlen + k.macsize
            if len(buf) < need:
                self._sanity(pktlen)
                return None
            wire = buf[:need]
            rest = self.dec.update(buf[bs:4 + pktlen])
            clear = self._first + rest
            self._first = None
            macok = self._mac(seq, clear, buf[4 + pktlen:need])
            body = clear[4:]
            self._check_align(4 + pktlen, k.block, 'e&m')
        self.buf = buf[need:]
        p = Packet()
        p.seq, p.pktlen, p.wire, p.epoch = seq, pktlen, wire, self.epoch
        p.mac_checked = macok
        padlen = body[0]
        p.padlen = padlen
        if padlen < 4:
            raise WireError(f'{self.dir}: seq {seq}: padding of {padlen} '
                            f'bytes (< 4)')
        if padlen + 1 > len(body):
            raise WireError(f'{self.dir}: seq {seq}: padding length '
                            f'{padlen} exceeds packet')
        raw = body[1:len(body) - padlen]
        p.raw_payload = raw
        p.compressed = False
        payload = raw
        if self.inflate is not None and not self.delayed:
            payload = self._inflate(raw, seq)
            p.compressed = True
        elif self.delayed and self.auth_seen:
            if self.inflate is None and raw[:1] == b'\x78':
                self.inflate = zlib.decompressobj()
            if self.inflate is not None:
                payload = self._inflate(raw, seq)
                p.compressed = True
        if not payload:
            raise WireError(f'{self.dir}: seq {seq}: empty payload')
        p.payload = payload
        p.type = payload[0]
        self.seq = (seq + 1) & 0xffffffff
        if p.type == 21:
            self._install()
        return p

    def _inflate(self, raw, seq):
        try:
            return self.inflate.decompress(raw)
        except zlib.error as exc:
            raise WireError(f'{self.dir}: seq {seq}: payload does not '
                            f'inflate: {exc}') from None

    def _mac(self, seq, data, tag):
        k = self.keys
        if k.mac == 'umac':
            return None                 # no independent UMAC available
        d = _hmac.new(k.mackey, struct.pack('>I', seq) + data,
                      k.mac).digest()[:k.macsize]
        if not _hmac.compare_digest(d, tag):
            raise WireError(f'{self.dir}: seq {seq}: {k.macname} does not '
                            f'verify under independently derived keys and '
                            f'sequence number')
        return True

    def _check_align(self, n, block, what):
        b = max(8, block)
        if n % b:
            raise WireError(f'{self.dir}: seq {self.seq}: {what} packet '
                            f'length {n} is not a multiple of {b}')

    def _sanity(self, pktlen):
        if pktlen > 2 * 1024 * 1024:
            raise WireError(f'{self.dir}: seq {self.seq}: implausible packet '
                            f'length {pktlen} (keys or framing wrong)')


class Session:
    """Both directions of a connection plus key staging from key-log
    records (dicts with k, h, session_id, kex_alg, enc_cs, ...)."""

    def __init__(self):
        self.cs = Decoder('cs')
        self.sc = Decoder('sc')
        self.session_id = None
        self.keylogs = []
        self.first_kexinit = {}

    def keylog(self, rec):
        """rec from either endpoint; both must agree."""
        self.keylogs.append(rec)
        if self.session_id is None:
            self.session_id = rec['session_id']
        ka = rec['kex_alg']
        for d, dec in (('cs', self.cs), ('sc', self.sc)):
            keys = Keys(ka, rec['k'], rec['h'], self.session_id, d,
                        rec['enc_' + d], rec['mac_' + d], rec['cmp_' + d])
            if rec['side'] == ('c' if d == 'cs' else 's'):
                dec.stage(keys)

    def feed(self, direction, data):
        dec = self.cs if direction == 'cs' else self.sc
        pk = dec.feed(data)
        for p in pk:
            if p.type == 20 and direction not in self.first_kexinit:
                # first KEXINIT of this side: strict-kex marker (OpenSSH
                # PROTOCOL, "strict KEX"): both must offer it
                n = int.from_bytes(p.payload[17:21], 'big')
                names = p.payload[21:21 + n].split(b',')
                self.first_kexinit[direction] = names
                if len(self.first_kexinit) == 2:
                    strict = (b'kex-strict-c-v00@openssh.com' in
                              self.first_kexinit['cs'] and
                              b'kex-strict-s-v00@openssh.com' in
                              self.first_kexinit['sc'])
                    self.cs.strict = self.sc.strict = strict
            if p.type == 52 and direction == 'sc':
                # USERAUTH_SUCCESS: delayed compression starts
                self.sc.auth_seen = True
                self.cs.auth_seen = True
        return pk
