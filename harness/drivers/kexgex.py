"""Driver for specs/Handshake/KexGex.tla (extra module X08).

Real client <-> real server over the in-memory network, group exchange
negotiated; the parsing MITM of harness.drivers.handshake supplies the
numbers of a request (a request as another client would send it: min, n, max
or the old one-number form) and watches which group the server answers; the
server's group table (asyncssh.kex_dh._dh_gex_groups, its "configuration")
is replaced to make it offer a chosen group to the real client.
"""

import os
import warnings

import asyncssh.kex_dh as kd

from harness.drivers import handshake as H

KEX = 'diffie-hellman-group-exchange-sha256'
BUILTIN = {size: (g, p) for size, g, p in kd._dh_gex_groups}
_ORIG = kd._dh_gex_groups
_made = {}


def modulus(bits, kind='prime'):
    """A modulus of the given bit length: a built-in group, a generated
    512/768-bit prime, or (sizes no built-in group has) an odd number of
    that length -- neither role tests primality."""
    k = (bits, kind)
    if k not in _made:
        if kind == 'one':
            p = 1
        elif bits in BUILTIN:
            p = BUILTIN[bits][1]
        elif bits <= 768:
            from cryptography.hazmat.primitives.asymmetric import dh
            with warnings.catch_warnings():
                warnings.simplefilter('ignore')
                p = dh.generate_parameters(2, bits).parameter_numbers().p
        else:
            p = int.from_bytes(os.urandom(bits // 8), 'big') | \
                (1 << (bits - 1)) | 1
        if kind == 'even':
            p -= 1
        _made[k] = p
    return _made[k]


def gen(kind, p):
    return {'ok': 2, 'zero': 0, 'one': 1, 'pm1': p - 1}[kind]


def set_groups(table):
    kd._dh_gex_groups = tuple(table)


def restore():
    kd._dh_gex_groups = _ORIG


def e_request(style, mn, n, mx):
    """The client's GEX request replaced by one with these numbers."""
    def fn(msg, _):
        if style == 'old':
            return H.frame(bytes([30]) + H.u32(n))
        return H.frame(bytes([34]) + H.u32(mn) + H.u32(n) + H.u32(mx))
    return {'msg': 'GREQ', 'fn': fn, 'label': f'request {style} '
            f'{mn},{n},{mx}'}


def server_pick(style, mn, n, mx, groups):
    """-> bit length of the p the server answers (0: no group offered)."""
    table = sorted((s, 2, modulus(s)) for s in groups)
    set_groups(table)
    # the code starts from "group1", the first entry of the built-in table
    _g1 = kd._group1_g, kd._group1_p
    kd._group1_g, kd._group1_p = table[0][1], table[0][2]
    try:
        o = H.run_handshake(KEX, edits=[e_request(style, mn, n, mx)],
                            run_command=False)
    finally:
        kd._group1_g, kd._group1_p = _g1
        restore()
    grp = o.mitm.by_name.get('GGRP')
    if grp is None or not grp.fields:
        return 0, o
    return grp.fields['p'].bit_length(), o


def client_accept(bits, pk, gk):
    """The server offers this group to the real client (which asked for
    1024 / 2048 / 8192).  -> Outcome"""
    p = modulus(bits, pk)
    # a server whose table claims 2048 bits for it: offered whatever is asked
    set_groups([(2048, gen(gk, p), p)])
    _g1 = kd._group1_g, kd._group1_p
    kd._group1_g, kd._group1_p = gen(gk, p), p
    try:
        with warnings.catch_warnings():
            warnings.simplefilter('ignore')
            o = H.run_handshake(KEX, run_command=True)
    finally:
        kd._group1_g, kd._group1_p = _g1
        restore()
    return o


def peer_value(field, vk):
    """e (client -> server) or f replaced in flight by a boundary value."""
    def val(cur, msg, mitm):
        p = mitm.by_name['GGRP'].fields['p']
        return {'zero': 0, 'one': 1, 'pm1': p - 1, 'p': p,
                'above': p + 5, 'ok': cur}[vk]
    ed = {'msg': 'INIT' if field == 'e' else 'REPLY',
          'fn': H.e_field(field, val), 'label': f'{field}={vk}'}
    return H.run_handshake(KEX, edits=[ed], run_command=False)
