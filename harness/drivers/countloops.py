"""Driver for part "counts" of specs/Hostile/Grammar.tla: count-prefixed
lists whose count exceeds the entries actually present, fed to the real
parsers (agent client, keyboard-interactive on both sides, EXT_INFO on both
sides, SFTP client and server) under a wall-clock watchdog: the work must be
bounded by the input received, and the operation must end with the
documented error (or the connection with an error reported to its owner)."""

import asyncio
import signal
import time

import asyncssh
from asyncssh.packet import Boolean, Byte, String, UInt32, UInt64

from harness import rawpeer
from harness.sshpair import hostkey
from harness.vloop import new_loop, close_loop, Deadlock, Spin

WATCHDOG_S = 3


class Watchdog(BaseException):
    pass


def _alarm(signum, frame):
    raise Watchdog('no result within the watchdog time')


def count_value(cls, n):
    return {'exact': n, 'plus1': n + 1, 'k64': 65536, 'max31': 2 ** 31 - 1,
            'max32': 2 ** 32 - 1}[cls]


_key = None


def _pub():
    global _key
    if _key is None:
        _key = asyncssh.generate_private_key('ssh-ed25519')
    return _key.public_data


def _guard(fn):
    """Run fn() under the watchdog; returns (outcome, detail, seconds)."""
    # CPU time of this process, not wall-clock time: a loaded machine must
    # not look like unbounded work
    old = signal.signal(signal.SIGVTALRM, _alarm)
    signal.setitimer(signal.ITIMER_VIRTUAL, WATCHDOG_S)
    t0 = time.process_time()
    try:
        out = fn()
        return out[0], out[1], time.process_time() - t0
    except Watchdog:
        return 'hang', f'still running after {WATCHDOG_S} s of CPU time', \
            time.process_time() - t0
    except Spin as exc:
        return 'hang', f'event loop spins: {exc}', time.process_time() - t0
    finally:
        signal.setitimer(signal.ITIMER_VIRTUAL, 0)
        signal.signal(signal.SIGVTALRM, old)


def _finish(loop, closers=()):
    exc = [str(c.get('exception') or c.get('message'))
           for c in loop.exceptions]
    try:
        for c in closers:
            c()
        loop.run_until_idle()
    except BaseException:               # pylint: disable=broad-except
        pass
    for t in asyncio.all_tasks(loop):
        t.cancel()
    try:
        loop.run_until_idle()
    except BaseException:               # pylint: disable=broad-except
        pass
    close_loop(loop)
    return exc


# ---------------------------------------------------------------------------

def agent_identities(cls, n):
    loop = new_loop()
    loop.max_iterations = 200000
    body = UInt32(count_value(cls, n)) + \
        b''.join(String(_pub()) + String(b'k%d' % i) for i in range(n))

    class Agent(asyncio.Protocol):
        def connection_made(self, transport):
            self.t = transport
            self.buf = b''

        def data_received(self, data):
            self.buf += data
            if len(self.buf) >= 5:
                self.buf = b''
                payload = Byte(12) + body
                self.t.write(UInt32(len(payload)) + payload)

    res = {}

    async def go():
        res['srv'] = await loop.create_unix_server(Agent, '/agent')
        agent = asyncssh.SSHAgentClient('/agent')
        try:
            keys = await agent.get_keys()
            return 'ok', f'{len(keys)} keys'
        except (ValueError, asyncssh.Error, OSError) as exc:
            return 'error', f'{type(exc).__name__}: {exc}'
        finally:
            agent.close()

    def run():
        try:
            return loop.run_until_complete(go())
        except Deadlock:
            return 'hang', 'get_keys() never completes'
    out = _guard(run)
    exc = _finish(loop, [lambda: res['srv'].close()] if 'srv' in res else [])
    return out, exc


def _client_vs_raw_server(on_request, client_kw, sess=None):
    """A real client against a scripted raw server."""
    loop = new_loop()
    loop.max_iterations = 200000
    log = []
    conns = []

    class Cli(asyncssh.SSHClient):
        def connection_lost(self, exc):
            log.append(('lost', type(exc).__name__ if exc else None))

        def kbdint_auth_requested(self):
            return ''

        def kbdint_challenge_received(self, name, instructions, lang,
                                      prompts):
            log.append(('challenge', len(prompts)))
            return ['x'] * len(prompts)

    def on_conn(conn):
        conns.append(conn)

        def on_packet(t, payload):
            on_request(conn, t, payload)
        conn.on_packet = on_packet

    res = {}

    async def go():
        res['acc'] = await rawpeer.raw_listen(
            '127.0.0.1', 2222, on_conn, server_host_keys=[hostkey()])
        try:
            kw = dict(known_hosts=None, config=None, client_keys=None,
                      username='u', client_factory=Cli)
            kw.update(client_kw)
            conn = await asyncssh.connect('127.0.0.1', 2222, **kw)
            res['conn'] = conn
            if sess is not None:
                return await sess(conn)
            return 'ok', 'connected'
        except (asyncssh.Error, OSError, ValueError) as exc:
            return 'error', f'{type(exc).__name__}: {exc}'

    def run():
        try:
            return loop.run_until_complete(go())
        except Deadlock:
            return 'hang', f'operation never completes (log {log})'
    out = _guard(run)
    closers = [c.abort for c in conns]
    if 'conn' in res:
        closers.append(res['conn'].abort)
    if 'acc' in res:
        closers.append(res['acc'].close)
    exc = _finish(loop, closers)
    return out, exc


def kbdint_prompts(cls, n):
    body = String(b'name') + String(b'instr') + String(b'') + \
        UInt32(count_value(cls, n)) + \
        b''.join(String(b'p%d' % i) + Boolean(False) for i in range(n))
    st = {'asked': False}

    def on_request(conn, t, payload):
        if t == 5:
            conn.raw_send(6, String(b'ssh-userauth'))
        elif t == 50:
            if b'keyboard-interactive' in payload and not st['asked']:
                st['asked'] = True
                conn.raw_send(60, body)
            else:
                from asyncssh.packet import NameList
                conn.raw_send(51, NameList([b'keyboard-interactive']) +
                              Boolean(False))
        elif t == 61:
            conn.raw_send(52, b'')

    return _client_vs_raw_server(on_request, dict(password=None))


def ext_info_client(cls, n):
    body = UInt32(count_value(cls, n)) + \
        b''.join(String(b'ext%d@x' % i) + String(b'v') for i in range(n))

    def on_request(conn, t, payload):
        if t == 5:
            conn.raw_send(7, body)
            conn.raw_send(6, String(b'ssh-userauth'))
        elif t == 50:
            conn.raw_send(52, b'')

    return _client_vs_raw_server(on_request, {})


def hostkeys_tail(p, a):
    """Part "loops", loop "keylist" (connection.py _finish_hostkeys: `while
    packet:` over the key list of a hostkeys-00@openssh.com request): one
    genuine key followed by `a` more bytes - 1..3 stray bytes (less than a
    length prefix), or a complete prefix announcing p bytes of which none is
    there (p = 0: an empty entry).  Every iteration must consume input or
    end the loop."""
    hk = hostkey()
    body = String(hk.public_data)
    if 1 <= a <= 3:
        body += bytes([p] * a)
    elif a == 4:
        body += UInt32(p)
    updates = []

    def handler(added, removed, retained, revoked):
        updates.append((len(added), len(removed), len(retained),
                        len(revoked)))

    def on_request(conn, t, payload):
        if t == 5:
            conn.raw_send(6, String(b'ssh-userauth'))
        elif t == 50:
            conn.raw_send(52, b'')
            conn.raw_send(80, String(b'hostkeys-00@openssh.com') +
                          Boolean(False) + body)

    async def sess(conn):
        await asyncio.sleep(0.5)
        return 'ok', f'handler calls {updates}'

    return _client_vs_raw_server(
        on_request,
        dict(known_hosts=([hk.convert_to_public()], [], []),
             server_host_keys_handler=handler), sess=sess)


def reply_replaced(request_kind, instead):
    """A client whose want-reply channel request is answered with something
    else by a hostile server: `instead` in ('close', 'eof_close', 'nothing',
    'open_failure', 'two_replies', 'disconnect').  The waiting call must
    complete or fail, nothing may reach the loop's exception handler, and
    when the connection is closed afterwards its owner is told exactly once
    and wait_closed() returns."""
    st = {}

    def on_request(conn, t, payload):
        if t == 5:
            conn.raw_send(6, String(b'ssh-userauth'))
        elif t == 50:
            conn.raw_send(52, b'')
        elif t == 90:
            st['c'] = int.from_bytes(payload[12:16], 'big')
            conn.raw_send(91, UInt32(st['c']) + UInt32(3) + UInt32(1 << 20)
                          + UInt32(1 << 15))
        elif t == 98:
            c = st['c']
            n = st['n'] = st.get('n', 0) + 1
            # the request under test is the first one that wants a reply
            ln = int.from_bytes(payload[5:9], 'big')
            wants = payload[9 + ln] != 0
            if not wants:
                return
            if st.get('done'):
                conn.raw_send(99, UInt32(c))
                return
            st['done'] = True
            if instead == 'close':
                conn.raw_send(97, UInt32(c))
            elif instead == 'eof_close':
                conn.raw_send(96, UInt32(c))
                conn.raw_send(97, UInt32(c))
            elif instead == 'open_failure':
                conn.raw_send(92, UInt32(c) + UInt32(1) + String(b'no') +
                              String(b''))
            elif instead == 'two_replies':
                conn.raw_send(99, UInt32(c))
                conn.raw_send(100, UInt32(c))
            elif instead == 'disconnect':
                conn.raw_send(1, UInt32(11) + String(b'bye') + String(b''))
            # 'nothing': the reply never comes; the connection is closed
            # by the client below

    async def sess(conn):
        kw = {}
        if request_kind == 'exec':
            kw = dict(command='x')
        elif request_kind == 'subsystem':
            kw = dict(subsystem='sftp')
        elif request_kind == 'pty':
            kw = dict(command='x', term_type='vt100')
        elif request_kind == 'env':
            kw = dict(command='x', env={'A': 'b'})
        elif request_kind == 'x11':
            kw = dict(command='x', x11_forwarding='ignore_failure',
                      x11_display='127.0.0.1:0')
        task = asyncio.ensure_future(conn.create_session(
            asyncssh.SSHClientSession, encoding=None, **kw))
        await asyncio.sleep(0.3)
        if instead == 'nothing' and not task.done():
            conn.close()
        try:
            await asyncio.wait_for(task, 2)
            out = 'opened'
        except asyncio.TimeoutError:
            return 'hang', 'create_session() still pending'
        except (asyncssh.Error, OSError) as exc:
            out = f'{type(exc).__name__}'
        conn.close()
        try:
            await asyncio.wait_for(conn.wait_closed(), 2)
        except asyncio.TimeoutError:
            return 'hang', f'conn.wait_closed() still pending ({out})'
        return 'ok', out

    return _client_vs_raw_server(on_request, {}, sess=sess)


def _server_vs_raw_client(script, server_kw=None, server_cls=None):
    loop = new_loop()
    loop.max_iterations = 200000
    log = []

    class Srv(asyncssh.SSHServer):
        def connection_lost(self, exc):
            log.append(('lost', type(exc).__name__ if exc else None))

        def begin_auth(self, username):
            return username != 'free'

        def kbdint_auth_supported(self):
            return True

        def get_kbdint_challenge(self, username, lang, submethods):
            return 'n', 'i', '', [('p0', False), ('p1', False)]

        def validate_kbdint_response(self, username, responses):
            log.append(('responses', len(responses)))
            return True

    res = {}

    async def go():
        res['acc'] = await asyncssh.listen(
            '127.0.0.1', 2222, server_factory=server_cls or Srv,
            server_host_keys=[hostkey()], **(server_kw or {}))
        res['raw'] = await rawpeer.raw_connect('127.0.0.1', 2222,
                                               hold_service=True)

    def run():
        try:
            loop.run_until_complete(go())
        except (Deadlock, asyncssh.Error, OSError) as exc:
            return 'error', f'setup: {exc!r}'
        raw = res['raw']
        loop.run_until_idle()
        return script(loop, raw, log)
    out = _guard(run)
    closers = []
    if 'raw' in res:
        closers.append(res['raw'].abort)
    if 'acc' in res:
        closers.append(res['acc'].close)
    exc = _finish(loop, closers)
    return out, exc


def ext_info_server(cls, n):
    body = UInt32(count_value(cls, n)) + \
        b''.join(String(b'ext%d@x' % i) + String(b'v') for i in range(n))

    def script(loop, raw, log):
        loop.run_callback(raw.raw_send, 7, body)
        loop.run_callback(raw.raw_send, 5, String(b'ssh-userauth'))
        seen = [t for t, _ in raw.take()]
        if 6 in seen and not log:
            return 'ok', 'service accepted'
        return 'error', f'connection ended: {log}'

    return _server_vs_raw_client(script)


def kbdint_responses(cls, n):
    n2 = min(n, 2)
    body = UInt32(count_value(cls, n2)) + \
        b''.join(String(b'r%d' % i) for i in range(n2))

    def script(loop, raw, log):
        loop.run_callback(raw.raw_send, 5, String(b'ssh-userauth'))
        loop.run_callback(raw.raw_send, 50, rawpeer.kbdint_request('u'))
        seen = [t for t, _ in raw.take()]
        if 60 not in seen:
            return 'error', f'no challenge: {seen} {log}'
        loop.run_callback(raw.raw_send, 61, body)
        seen = [t for t, _ in raw.take()]
        if 52 in seen or 51 in seen:
            return 'ok', f'answered {seen}'
        return 'error', f'connection ended: {log}'

    return _server_vs_raw_client(script)


# ---- SFTP client against a scripted SFTP server ----------------------------

def _sftp_client_case(reply_for):
    """reply_for(pkttype, request id) -> raw SFTP packet bytes (without the
    length) or None; the scripted server runs as the 'sftp' subsystem of a
    real asyncssh server, the client under test is a real SFTPClient."""
    loop = new_loop()
    loop.max_iterations = 200000

    class Sess(asyncssh.SSHServerSession):
        def connection_made(self, chan):
            self.chan = chan
            self.buf = b''

        def subsystem_requested(self, subsystem):
            return subsystem == 'sftp'

        def data_received(self, data, datatype):
            self.buf += data
            while len(self.buf) >= 4:
                ln = int.from_bytes(self.buf[:4], 'big')
                if len(self.buf) < 4 + ln:
                    break
                pkt, self.buf = self.buf[4:4 + ln], self.buf[4 + ln:]
                t = pkt[0]
                if t == 1:                           # INIT
                    out = Byte(2) + UInt32(3)
                else:
                    rid = int.from_bytes(pkt[1:5], 'big')
                    out = reply_for(t, rid)
                if out is not None:
                    self.chan.write(UInt32(len(out)) + out)

    class Srv(asyncssh.SSHServer):
        def begin_auth(self, username):
            return False

        def session_requested(self):
            return Sess()

    res = {}

    async def go(op):
        res['acc'] = await asyncssh.listen(
            '127.0.0.1', 2222, server_factory=Srv,
            server_host_keys=[hostkey()], encoding=None)
        conn = await asyncssh.connect('127.0.0.1', 2222, known_hosts=None,
                                      config=None, client_keys=None,
                                      username='u')
        res['conn'] = conn
        try:
            sftp = await conn.start_sftp_client()
            r = await op(sftp)
            return 'ok', repr(r)[:80]
        except (asyncssh.Error, OSError, ValueError) as exc:
            return 'error', f'{type(exc).__name__}: {exc}'

    def runner(op):
        def run():
            try:
                return loop.run_until_complete(go(op))
            except Deadlock:
                return 'hang', 'SFTP operation never completes'
        out = _guard(run)
        closers = []
        if 'conn' in res:
            closers.append(res['conn'].abort)
        if 'acc' in res:
            closers.append(res['acc'].close)
        exc = _finish(loop, closers)
        return out, exc
    return runner


def _attrs(flags=0):
    return UInt32(flags)


def sftp_names(cls, n):
    cnt = count_value(cls, n)
    state = {'sent': False}

    def reply_for(t, rid):
        if t == 11:                                  # OPENDIR
            return Byte(102) + UInt32(rid) + String(b'h')
        if t == 12:                                  # READDIR
            if state['sent']:
                return Byte(101) + UInt32(rid) + UInt32(1) + String(b'eof') \
                    + String(b'')
            state['sent'] = True
            return Byte(104) + UInt32(rid) + UInt32(cnt) + b''.join(
                String(b'f%d' % i) + String(b'long') + _attrs()
                for i in range(n))
        if t == 4:                                   # CLOSE
            return Byte(101) + UInt32(rid) + UInt32(0) + String(b'') + \
                String(b'')
        if t == 16:                                  # REALPATH
            return Byte(104) + UInt32(rid) + UInt32(1) + String(b'/') + \
                String(b'/') + _attrs()
        return Byte(101) + UInt32(rid) + UInt32(4) + String(b'no') + \
            String(b'')

    async def op(sftp):
        return await sftp.listdir('.')
    return _sftp_client_case(reply_for)(op)


def sftp_attr_ext(cls, n):
    cnt = count_value(cls, n)

    def reply_for(t, rid):
        if t in (17, 7):                             # STAT / LSTAT
            return Byte(105) + UInt32(rid) + UInt32(0x80000000) + \
                UInt32(cnt) + b''.join(String(b't%d' % i) + String(b'd')
                                       for i in range(n))
        if t == 16:
            return Byte(104) + UInt32(rid) + UInt32(1) + String(b'/') + \
                String(b'/') + _attrs()
        return Byte(101) + UInt32(rid) + UInt32(4) + String(b'no') + \
            String(b'')

    async def op(sftp):
        return await sftp.stat('x')
    return _sftp_client_case(reply_for)(op)


def sftp_srv_attr_ext(cls, n):
    """raw SFTP client -> real SFTP server: SETSTAT with extended attributes"""
    import os
    import shutil
    import tempfile
    from harness import tlc
    os.makedirs(tlc.WORK, exist_ok=True)
    tmp = tempfile.mkdtemp(prefix='c10cnt', dir=tlc.WORK)
    open(os.path.join(tmp, 'f'), 'w').close()
    loop = new_loop()
    loop.max_iterations = 200000
    cnt = count_value(cls, n)
    got = bytearray()
    res = {}

    class Srv(asyncssh.SSHServer):
        def begin_auth(self, username):
            return False

    class CS(asyncssh.SSHClientSession):
        def data_received(self, data, datatype):
            got.extend(data)

    async def go():
        res['acc'] = await asyncssh.listen(
            '127.0.0.1', 2222, server_factory=Srv,
            server_host_keys=[hostkey()],
            sftp_factory=lambda chan: asyncssh.SFTPServer(chan, chroot=tmp))
        conn = await asyncssh.connect('127.0.0.1', 2222, known_hosts=None,
                                      config=None, client_keys=None,
                                      username='u')
        res['conn'] = conn
        chan, _ = await conn.create_session(CS, subsystem='sftp',
                                            encoding=None)

        def send(p):
            chan.write(UInt32(len(p)) + p)
        send(Byte(1) + UInt32(3))
        send(Byte(9) + UInt32(7) + String(b'/f') + UInt32(0x80000000) +
             UInt32(cnt) + b''.join(String(b't%d' % i) + String(b'd')
                                    for i in range(n)))
        send(Byte(17) + UInt32(8) + String(b'/f'))       # probe: STAT
        for _ in range(50):
            await asyncio.sleep(0)
        return None

    def run():
        try:
            loop.run_until_complete(go())
            loop.run_until_idle()
        except Deadlock:
            return 'hang', 'session never set up'
        except (asyncssh.Error, OSError) as exc:
            return 'error', f'{type(exc).__name__}: {exc}'
        # parse replies
        buf, ids = bytes(got), {}
        while len(buf) >= 4:
            ln = int.from_bytes(buf[:4], 'big')
            pkt, buf = buf[4:4 + ln], buf[4 + ln:]
            if pkt and pkt[0] != 2:
                ids[int.from_bytes(pkt[1:5], 'big')] = (
                    pkt[0], int.from_bytes(pkt[5:9], 'big'))
        if 7 not in ids:
            return 'hang', f'no reply to the SETSTAT request (replies {ids})'
        if 8 not in ids:
            return 'hang', f'no reply to the following request ({ids})'
        t, code = ids[7]
        return ('ok' if (t, code) == (101, 0) else 'error'), f'{ids}'
    out = _guard(run)
    closers = []
    if 'conn' in res:
        closers.append(res['conn'].abort)
    if 'acc' in res:
        closers.append(res['acc'].close)
    exc = _finish(loop, closers)
    shutil.rmtree(tmp, ignore_errors=True)
    return out, exc


SITES = {'agent_identities': agent_identities,
         'kbdint_prompts': kbdint_prompts,
         'kbdint_responses': kbdint_responses,
         'ext_info_client': ext_info_client,
         'ext_info_server': ext_info_server,
         'sftp_names': sftp_names,
         'sftp_attr_ext': sftp_attr_ext,
         'sftp_srv_attr_ext': sftp_srv_attr_ext}


def run_case(site, cls, n):
    (outcome, detail, secs), exc = SITES[site](cls, n)
    return {'outcome': outcome, 'detail': detail, 'seconds': secs,
            'loop_exceptions': exc}
