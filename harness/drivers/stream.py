"""Driver for the Stream specification (property C19).

A *case* is what TLC prints for one behaviour of specs/Stream/Stream.tla:
    [W, [stream per data type], [label, ...]]
with labels
    ["emit", kind, dt, units]          the peer puts one packet on the wire
    ["run", fin]                       the loop runs until idle
    ["call", dt, kind, n, sep, fin]    the application starts a read call
    ["redirect", dt, fin]              the application redirects a stream
    ["pad"]
where fin is the specification's prediction of the calls that finish in that
step: [dt, "ret"|"inc"|"exc"|"wait", units, units2, exit].

replay() drives a real channel pair on the deterministic loop through the
labels: the emitting side is a real asyncssh endpoint used only as a packet
source (one chan.write per chunk = one CHANNEL_DATA message; everything
emitted between two "run" labels reaches the reading side in ONE
data_received call), the reading side is the unmodified
SSHReader / SSHClientProcess / SSHServerProcess under test.

Two outputs per case:
  * divergences: observed results differ from the specification's prediction;
  * violations: the property monitor (judge) rejects the observations.  The
    monitor only looks at what was put on the wire and at what the read calls
    returned / raised; it re-states the reference semantics of the property
    and never consults the model's prediction.
"""

import asyncio
import os
import re
import shutil
import tempfile

import asyncssh
from asyncssh.constants import EXTENDED_DATA_STDERR
from asyncssh.packet import UInt32, String, Boolean

from harness.vloop import new_loop, close_loop, Deadlock

UNIT = {'a': b'a', 'b': b'b', 'n': b'\n'}
RUNIT = {ord('a'): 'a', ord('b'): 'b', ord('\n'): 'n', 'a': 'a', 'b': 'b',
         '\n': 'n'}
MARKS = ('!sig', '!brk', '!win', '!seof')
RE_MAX = 6
PEER_WIN = 2        # PeerWin of the specification (duplex cases)
FAST = dict(encryption_algs=['aes128-gcm@openssh.com'],
            compression_algs=['none'])

_key = []


def host_key():
    if not _key:
        _key.append(asyncssh.generate_private_key('ssh-ed25519'))
    return _key[0]


def enc(units, text):
    b = b''.join(UNIT[u] for u in units)
    return b.decode('ascii') if text else b


def dec(data):
    if data is None:
        return []
    return [RUNIT.get(x, '?') for x in data]


NO_SEP = ('-', ())


def norm_sep(x):
    """separator as printed by the specification -> hashable
    (kind, (alt, ...)) with kind in lit / re0 / reK / -"""
    if isinstance(x, tuple):
        return x
    if x == '-' or not x or x[0] == '-':
        return NO_SEP
    return (x[0], tuple(tuple(a) for a in x[1]))


def separator(sep, text, remax=RE_MAX, seqtype=tuple):
    """-> (separator argument for readuntil, max_separator_len)"""
    cv = (lambda b: b.decode()) if text else (lambda b: b)
    kind, alts = sep
    if kind == 're0':
        return re.compile(cv(b'a+b')), 0
    if kind == 'reK':
        return re.compile(cv(b'a+b')), remax
    lits = [cv(enc(a, False)) for a in alts]
    if len(lits) == 1:
        return lits[0], 0
    return seqtype(lits), 0


def sep_shape(sep):
    """shape class of a literal separator tuple (as in Stream.tla)"""
    kind, alts = sep
    if kind != 'lit':
        return kind
    if len(alts) == 1:
        x = alts[0]
        if len(x) == 1:
            return 'one'
        if x[0] in x[1:]:
            return 'rep' if len(x) == 2 else 'rep3'
        return 'word'
    x, y = alts[0], alts[1]
    if len(x) == len(y):
        return 'eq'
    sh, lo = (x, y) if len(x) < len(y) else (y, x)
    offs = [i for i in range(len(lo) - len(sh) + 1)
            if lo[i:i + len(sh)] == sh]
    if 0 in offs and x == sh:
        return 'prefix'
    if any(i + len(sh) < len(lo) for i in offs):
        return 'nested'
    if offs:
        return 'suffix'
    order = {'n': 0, 'a': 1, 'b': 2}
    return 'lexopp' if [order[u] for u in lo] < [order[u] for u in sh] \
        else 'lexsame'


# ---------------------------------------------------------------------------
# reference semantics of the property, on plain lists of units

def in_lang(sep, x):
    kind, alts = sep
    if kind in ('re0', 'reK'):
        return len(x) >= 2 and x[-1] == 'b' and all(u == 'a' for u in x[:-1])
    return tuple(x) in alts


def ref_end(sep, run):
    """length of the shortest prefix of run that ends with a separator
    match, 0 if there is none"""
    for e in range(1, len(run) + 1):
        for p in range(0, e):
            if in_lang(sep, run[p:e]):
                return e
    return 0


def occurrences(sep, run):
    """[(start, end)] of every separator occurrence in run"""
    out = []
    for e in range(1, len(run) + 1):
        for p in range(0, e):
            if in_lang(sep, run[p:e]):
                out.append((p, e))
    return out


def cut_inside_match(case):
    """True if the case's first readuntil/readline call has a separator
    occurrence in its stream with a packet boundary strictly inside it (used
    to prioritise cases, never for a verdict)"""
    streams, hist = case[1], case[2]
    call = next((l for l in hist if l[0] == 'call'), None)
    if call is None or call[2] not in ('until', 'line'):
        return False
    sep = norm_sep(call[4])
    cuts = set()
    pos = 0
    for l in hist:
        if l[0] == 'emit' and l[1] == 'data' and l[2] == call[1]:
            pos += len(l[3])
            cuts.add(pos)
    data = [u for u in streams[0] if not u.startswith('!')] \
        if call[1] != 'err' else streams[1]
    return any(any(p < c < e for c in cuts)
               for p, e in occurrences(sep, data))


# ---------------------------------------------------------------------------

_STOP = object()


def outcome(task):
    """Normalise what a read call did."""
    if not task.done():
        return None
    if task.cancelled():
        return ('cancelled', [])
    exc = task.exception()
    if exc is None:
        res = task.result()
        if res is _STOP:
            return ('stop', [])
        if isinstance(res, tuple) and len(res) == 2:
            return ('collect', dec(res[0]), dec(res[1]), '-')
        if isinstance(res, (asyncssh.SSHCompletedProcess, _WaitRes)):
            x = 'none'
            if res.exit_signal is not None:
                x = 'signal'
            elif res.exit_status is not None:
                x = 'status'
            return ('wait', dec(res.stdout), dec(res.stderr), x)
        return ('ret', dec(res))
    if isinstance(exc, asyncio.IncompleteReadError):
        return ('inc', dec(exc.partial))
    if isinstance(exc, asyncssh.SignalReceived):
        return ('exc', ['!sig'])
    if isinstance(exc, asyncssh.BreakReceived):
        return ('exc', ['!brk'])
    if isinstance(exc, asyncssh.TerminalSizeChanged):
        return ('exc', ['!win'])
    return ('exc', ['other:' + type(exc).__name__ + ':' + str(exc)[:60]])


class _Srv(asyncssh.SSHServer):
    def __init__(self, h):
        self.h = h

    def begin_auth(self, username):
        return False

    def session_requested(self):
        return _EmitSession(self.h)


class _EmitSession(asyncssh.SSHServerSession):
    """Callback style server session used as a packet source."""

    def __init__(self, h):
        self.h = h
        self.chan = None
        self.got = []
        self.got_eof = False

    def connection_made(self, chan):
        self.chan = chan
        self.h.emit_sessions.append(self)

    def shell_requested(self):
        return True

    def exec_requested(self, command):
        return True

    def data_received(self, data, datatype):
        self.got.append(data)

    def eof_received(self):
        self.got_eof = True
        return True


class Harness:
    """One deterministic loop with lazily created servers and connections."""

    def __init__(self, workdir=None):
        self.loop = new_loop()
        self.emit_sessions = []
        self.server_procs = []
        self.conns = {}
        self.port = 2300
        self.workdir = workdir
        self.cases = 0

    def close(self):
        for _, conn in self.conns.values():
            try:
                conn.abort()
            except Exception:           # pylint: disable=broad-except
                pass
        close_loop(self.loop)

    # -- connections ---------------------------------------------------
    def _conn(self, key, **listen_kw):
        ent = self.conns.get(key)
        if ent is not None and not ent[1].is_closed():
            return ent[1]
        self.port += 1
        port = self.port

        async def setup():
            srv = await asyncssh.listen(
                '127.0.0.1', port, server_factory=lambda: _Srv(self),
                server_host_keys=[host_key()], **listen_kw)
            conn = await asyncssh.connect(
                '127.0.0.1', port, known_hosts=None, config=None,
                client_keys=None, username='u', **FAST)
            return srv, conn
        srv, conn = self.loop.run_until_complete(setup())
        self.conns[key] = (srv, conn)
        return conn

    def client_reader_conn(self, peer_window=None):
        if peer_window:
            # the peer's window for what the reading side SENDS (duplex)
            return self._conn(('cr', peer_window), encoding=None,
                              window=peer_window)
        return self._conn(('cr',), encoding=None)

    def server_reader_conn(self, window, text):
        async def handler(process):
            self.server_procs.append(process)
        return self._conn(('sr', window, text), process_factory=handler,
                          encoding='utf-8' if text else None, window=window)


# ---------------------------------------------------------------------------

class Replay:
    """Replay of one case."""

    def __init__(self, h, case, text=False, api='process', remax=RE_MAX,
                 target=None, seqtype='tuple', waitop='wait'):
        self.h = h
        self.loop = h.loop
        self.W = case[0]
        self.streams = case[1]
        self.hist = case[2]
        self.pred_targets = case[3] if len(case) > 3 else None
        self.text = text
        self.api = api
        self.remax = remax
        self.target_kind = target
        self.seqtype = list if seqtype == 'list' else tuple
        self.waitop = waitop
        self.role = 'server' if any(
            l[0] == 'emit' and l[2] == 'in' or l[0] == 'call' and l[1] == 'in'
            for l in self.hist) else 'client'
        self.dts = ['in'] if self.role == 'server' else ['out', 'err']
        self.log = []            # time-ordered observations for the monitor
        self.pending = []        # packets emitted, loop not yet run
        self.tasks = {}          # dt -> (task, callspec)
        self.completed = []
        self.divergences = []
        self.eof_sent = False
        self.close_sent = False
        self.exit_sent = None
        self.machinery = None
        self.desync = None
        self.iters = {}          # dt -> async iterator of the reader
        self.ae_pred = None
        self.targets = {}        # dt -> [target record, ...] (redirections;
                                 # a later record replaced the earlier one)
        self.steps_done = 0
        self.open()

    # -- set-up --------------------------------------------------------
    def open(self):
        h = self.h
        enc_ = 'utf-8' if self.text else None
        self.duplex = any(l[0] in ('lwrite', 'leof', 'popen')
                          for l in self.hist)
        if self.role == 'client':
            conn = h.client_reader_conn(PEER_WIN if self.duplex else None)
            n0 = len(h.emit_sessions)

            async def op():
                if self.api == 'session':
                    return await conn.open_session(
                        command='c', encoding=enc_, window=self.W)
                return await conn.create_process(
                    command='c', encoding=enc_, window=self.W)
            res = self.loop.run_until_complete(op())
            self.loop.run_until_idle()
            if len(h.emit_sessions) != n0 + 1:
                raise RuntimeError('server session not created')
            self.emitter = h.emit_sessions.pop()
            self.echan = self.emitter.chan
            if self.duplex:
                # the peer holds what it is sent until "popen"
                self.echan.pause_reading()
            if self.api == 'session':
                stdin, stdout, stderr = res
                self.proc = None
                self.rchan = stdin.channel
                self.stdin_writer = stdin
                self.readers = {'out': stdout, 'err': stderr}
            else:
                self.proc = res
                self.rchan = res.channel
                self.stdin_writer = res.stdin
                self.readers = {'out': res.stdout, 'err': res.stderr}
        else:
            conn = h.server_reader_conn(self.W, self.text)
            n0 = len(h.server_procs)

            async def op():
                return await conn.create_process(command='c', encoding=None)
            self.cproc = self.loop.run_until_complete(op())
            self.loop.run_until_idle()
            if len(h.server_procs) != n0 + 1:
                raise RuntimeError('server process not created')
            self.proc = h.server_procs.pop()
            self.rchan = self.proc.channel
            self.echan = self.cproc.channel
            self.readers = {'in': self.proc.stdin}

    def shut(self):
        for t, _ in self.tasks.values():
            if not t.done():
                t.cancel()
        try:
            if self.role == 'client':
                self.rchan.close()
                self.echan.close()
            else:
                self.cproc.close()
                self.proc.close()
            self.loop.run_until_idle()
        except Exception:               # pylint: disable=broad-except
            pass
        for recs in self.targets.values():
            for rec in recs:
                d = rec.get('dir')
                if d:
                    shutil.rmtree(d, ignore_errors=True)
                if 'proc2' in rec:
                    try:
                        rec['proc2'].close()
                        rec['sink'].chan.close()
                    except Exception:   # pylint: disable=broad-except
                        pass
        if self.targets:
            self.loop.run_until_idle()

    # -- emitting side -------------------------------------------------
    def emit(self, kind, dt, units):
        ch = self.echan
        if kind == 'data':
            data = enc(units, False)
            if self.role == 'client':
                ch.write(data, EXTENDED_DATA_STDERR if dt == 'err' else None)
            else:
                ch.write(data)
            if ch.get_write_buffer_size() != 0:
                # the reading side has not opened the window the way the
                # specification predicts: the chunk is now queued in the
                # emitter and will arrive at unknown times
                self.desync = ('the reading side did not open the window as '
                               'predicted: chunk %r could not be sent' %
                               (units,))
        elif kind == 'mark':
            m = units[0]
            if m == '!sig':
                ch.send_signal('INT')
            elif m == '!brk':
                ch.send_break(5)
            elif m == '!win':
                ch.change_terminal_size(81, 25)
            elif m == '!seof':
                # the line editor's callback, invoked as the channel does
                self.proc.soft_eof_received()
        elif kind == 'eof':
            ch.write_eof()
            self.eof_sent = True
        elif kind == 'exit':
            if units[0] == 'status':
                ch._send_request(b'exit-status', UInt32(3))
            else:
                ch._send_request(b'exit-signal', String('TERM'),
                                 Boolean(False), String('x'), String('en'))
            self.exit_sent = units[0]
        elif kind == 'close':
            ch.close()
            self.close_sent = True
        self.pending.append((kind, dt, list(units)))

    # -- reading side --------------------------------------------------
    def start_call(self, dt, kind, n, sep):
        sep = norm_sep(sep)
        if kind == 'wait':
            op = self.waitop
            if op == 'aexit' and not (
                    self.close_sent and not self.pending and
                    all(d in self.targets for d in self.readers)):
                # "async with" closes the channel itself, which by design
                # discards input the application has not read yet: it only
                # stands for wait() when every stream goes to a target
                op = 'wait'
            proc = self.proc

            async def wait():
                if op == 'communicate':
                    o, e = await proc.communicate()
                elif op == 'aexit':
                    await proc.__aexit__(None, None, None)
                    o, e = proc.collect_output()
                else:
                    r = await proc.wait()
                    o, e = r.stdout, r.stderr
                snap = {d: [(rec['kind'],) + self.target_state(rec)
                            for rec in recs]
                        for d, recs in self.targets.items()}
                return _WaitRes(o, e, proc.exit_status, proc.exit_signal,
                                snap)
            coro = wait()
        elif kind == 'collect':
            async def collect():
                return self.proc.collect_output()
            coro = collect()
        elif kind == 'next':
            # one step of "async for line in reader"
            it = self.iters.get(dt)
            if it is None:
                it = self.iters[dt] = self.readers[dt].__aiter__()

            async def nxt():
                try:
                    return await it.__anext__()
                except StopAsyncIteration:
                    self.iters.pop(dt, None)
                    return _STOP
                except BaseException:
                    # an exception ends the application's "async for"; the
                    # next one iterates the reader afresh
                    self.iters.pop(dt, None)
                    raise
            coro = nxt()
        else:
            rd = self.readers[dt]
            if kind == 'read':
                coro = rd.read(n)
            elif kind == 'exact':
                coro = rd.readexactly(n)
            elif kind == 'line':
                coro = rd.readline()
            else:
                s, msl = separator(sep, self.text, self.remax, self.seqtype)
                coro = rd.readuntil(s, msl) if msl else rd.readuntil(s)
        task = self.loop.create_task(coro)
        spec = (kind, n, sep)
        self.log.append(('start', dt, spec))
        self.tasks[dt] = (task, spec)
        task.add_done_callback(lambda t, dt=dt, spec=spec:
                               self.completed.append((dt, spec, t)))

    def run(self):
        """Run the loop until idle; returns the calls that finished, in
        completion order, as the spec's fin tuples."""
        for p in self.pending:
            self.log.append(('arrive',) + p)
        self.pending = []
        self.completed = []
        self.loop.run_until_idle()
        fin = []
        for dt, spec, t in self.completed:
            out = outcome(t)
            if out[0] == 'wait' and isinstance(t.result(), _WaitRes):
                self.log.append(('waitsnap', t.result().snap))
            self.log.append(('done', dt, spec, out))
            if self.tasks.get(dt, (None,))[0] is t:
                del self.tasks[dt]
            if out[0] in ('wait', 'collect'):
                fin.append([dt, out[0], out[1], out[2], out[3]])
            else:
                fin.append([dt, out[0], out[1], [], '-'])
        self.completed = []
        # at_eof() of every stream is polled after every step
        self.ae_obs = []
        for dt in self.dts:
            if dt in self.readers:
                v = bool(self.readers[dt].at_eof())
                self.ae_obs.append(v)
                self.log.append(('ateof', dt, v))
        return fin

    def compare(self, step, label, fin, pred, ae=None):
        if fin != pred:
            self.divergences.append(
                f'step {step} {label[:5]}: observed {fin} predicted {pred}')
        elif ae is not None and list(ae) != self.ae_obs[:len(ae)]:
            self.divergences.append(
                f'step {step} {label[:5]}: at_eof() observed {self.ae_obs} '
                f'predicted {ae}')

    # -- redirections --------------------------------------------------
    def redirect(self, dt):
        kind = self.target_kind or 'file'
        if self.targets.get(dt):
            # the target is being replaced: use another kind for the new one
            kind = 'process' if self.targets[dt][-1]['kind'] == 'file' \
                else 'file'
        if kind == 'stream' and self.close_sent:
            # asyncssh cannot attach a StreamWriter to a closed channel
            # (AssertionError in _StreamWriter.__init__); noted, not judged
            kind = 'file'
        rec = {'kind': kind, 'dt': dt}
        h = self.h
        if kind in ('file', 'name'):
            d = tempfile.mkdtemp(prefix='c19_redir_', dir=h.workdir)
            rec['dir'] = d
            rec['path'] = os.path.join(d, 'target')
            if kind == 'file':
                rec['obj'] = open(rec['path'], 'wb')
                target = rec['obj']
            else:
                target = rec['path']
        elif kind == 'devnull':
            target = asyncssh.DEVNULL
        elif kind == 'process':
            # stdin of a second remote process: an emit-session records it
            conn = h.client_reader_conn()
            n0 = len(h.emit_sessions)

            async def op():
                return await conn.create_process(
                    command='sink', encoding='utf-8' if self.text else None)
            rec['proc2'] = self.loop.run_until_complete(op())
            self.loop.run_until_idle()
            assert len(h.emit_sessions) == n0 + 1
            rec['sink'] = h.emit_sessions.pop()
            target = rec['proc2'].stdin
        elif kind == 'stream':
            rec['sr'] = _MemWriterTransport(self.loop)
            target = rec['sr'].writer
        elif kind == 'hstream':
            rec['sr'] = rec['slow'] = _MemWriterTransport(self.loop, hold=True)
            target = rec['sr'].writer
        elif kind == 'afile':
            rec['af'] = rec['slow'] = _AsyncFile(self.loop)
            target = rec['af']
        else:
            raise ValueError(kind)
        self.targets.setdefault(dt, []).append(rec)

        async def op2():
            if dt == 'err':
                await self.proc.redirect_stderr(target)
            else:
                await self.proc.redirect_stdout(target)
        try:
            self.loop.run_until_complete(op2())
        except Exception as exc:        # pylint: disable=broad-except
            # an observation: redirect*() itself failed
            self.log.append(('redirect-error', dt, kind, repr(exc)[:120]))
            self.desync = f'redirect_{dt} -> {kind} raised {exc!r}'
            return
        self.log.append(('redirect', dt, kind))

    def target_state(self, rec):
        """-> (units that reached the target or None if unobservable,
                eof seen or None)"""
        kind = rec['kind']
        if kind in ('file', 'name'):
            closed = rec['obj'].closed if 'obj' in rec else None
            if 'obj' in rec and not closed:
                rec['obj'].flush()
            with open(rec['path'], 'rb') as f:
                data = f.read()
            return dec(data), closed
        if kind == 'devnull':
            return None, None
        if kind == 'process':
            return dec(b''.join(rec['sink'].got)), rec['sink'].got_eof
        if kind in ('stream', 'hstream'):
            return dec(rec['sr'].data), rec['sr'].eof
        if kind == 'afile':
            return dec(rec['af'].data), rec['af'].closed == 1
        return None, None

    # -- whole case ----------------------------------------------------
    def execute(self):
        step = 0
        for lab in self.hist:
            step += 1
            k = lab[0]
            if k == 'pad':
                continue
            if k == 'emit':
                self.emit(lab[1], lab[2], lab[3])
            elif k == 'run':
                self.compare(step, lab, self.run(), lab[1],
                             lab[2] if len(lab) > 2 else None)
            elif k == 'call':
                self.start_call(lab[1], lab[2], lab[3], lab[4])
                self.compare(step, lab, self.run(), lab[5],
                             lab[6] if len(lab) > 6 else None)
            elif k in ('lwrite', 'leof', 'popen'):
                # the reading side's own sending (full duplex)
                wr = self.stdin_writer
                if k == 'lwrite':
                    wr.write(enc(['a'] * lab[1], self.text))
                elif k == 'leof':
                    wr.write_eof()
                else:
                    self.echan.resume_reading()
                self.compare(step, lab, self.run(), [],
                             lab[3] if len(lab) > 3 else None)
            elif k == 'tstep':
                rec = self.targets[lab[1]][-1]
                if not rec['slow'].release():
                    self.desync = (f'target of {lab[1]} has no write in '
                                   f'flight where the specification has one')
                self.compare(step, lab, self.run(), lab[2],
                             lab[3] if len(lab) > 3 else None)
            elif k == 'redirect':
                self.redirect(lab[1])
                self.compare(step, lab, self.run(), lab[2],
                             lab[4] if len(lab) > 4 else None)
            if self.machinery or self.desync:
                break
        self.steps_done = step
        if self.desync:
            self.divergences.append(f'step {step}: {self.desync}')
        if not self.machinery and not self.desync:
            self.finish()
        elif self.targets:
            self.loop.run_until_idle()
            self.log_targets()

    def finish(self):
        """Closing phase (not predicted by the spec, judged by the monitor
        only): EOF, then every stream is drained."""
        if self.pending:
            self.run()
        if not self.eof_sent and not self.close_sent:
            self.emit('eof', self.dts[0], [])
            self.run()
        if self.role == 'client' and self.proc is not None and \
                self.exit_sent is not None and not self.close_sent:
            self.emit('close', self.dts[0], [])
            self.run()
        self.release_all()
        for _ in range(2):
            for dt in self.dts:
                if dt in self.targets or dt not in self.readers:
                    continue
                for _ in range(12):
                    if dt in self.tasks:
                        break
                    if self.readers[dt].at_eof():
                        break
                    self.start_call(dt, 'read', -1, '-')
                    self.run()
        if self.close_sent and self.proc is not None and \
                self.role == 'client' and 'w' not in self.tasks and \
                not any(e[0] == 'done' and e[1] == 'w' for e in self.log):
            if not self.tasks:
                self.start_call('w', 'wait', 0, '-')
                self.run()
        self.log.append(('end', {dt: self.tasks[dt][1] for dt in self.tasks},
                         {dt: (self.readers[dt].at_eof()
                               if dt in self.readers else None)
                          for dt in self.dts}))
        self.log_targets()
        self.compare_targets()

    def compare_targets(self):
        """conformance: what each successive target received, against the
        specification's state at the end of the labels"""
        if not self.pred_targets:
            return
        order = ['in'] if self.role == 'server' else ['out', 'err']
        for i, (gens, data) in enumerate(self.pred_targets):
            dt = order[i]
            recs = self.targets.get(dt, [])
            obs = [self.target_state(r)[0] for r in recs]
            if not recs and not data and not gens:
                continue
            if any(o is None for o in obs):
                continue
            cum = []
            tot = 0
            for o in obs[:-1]:
                tot += len(o)
                cum.append(tot)
            flat = [u for o in obs for u in o]
            if cum != list(gens) or flat[:len(data)] != list(data):
                self.divergences.append(
                    f'targets of {dt}: observed {obs}, predicted data '
                    f'{data} replaced at {gens}')

    def release_all(self):
        """closing phase: slow targets accept everything that is queued"""
        for _ in range(64):
            moved = False
            for recs in self.targets.values():
                for rec in recs:
                    if 'slow' in rec and rec['slow'].release():
                        moved = True
            if not moved:
                break
            self.run()

    def log_targets(self):
        self.release_all()
        for dt in self.targets:
            self.log.append(('target', dt,
                             [(rec['kind'],) + self.target_state(rec)
                              for rec in self.targets[dt]]))


class _WaitRes:
    """what wait()/communicate()/__aexit__ reported, and the state of the
    redirect targets at the very moment it returned"""

    def __init__(self, stdout, stderr, status, signal, snap):
        self.stdout, self.stderr = stdout, stderr
        self.exit_status, self.exit_signal = status, signal
        self.snap = snap


class _AsyncFile:
    """aiofiles-like target whose writes complete when the driver says so"""

    def __init__(self, loop):
        self.loop = loop
        self.data = b''
        self.closed = 0
        self.pending = []
        self.after_close = False

    async def write(self, data):
        fut = self.loop.create_future()
        self.pending.append((fut, bytes(data)))
        await fut

    async def close(self):
        self.closed += 1

    def release(self):
        if not self.pending:
            return False
        fut, data = self.pending.pop(0)
        if self.closed:
            self.after_close = True
        self.data += data
        if not fut.done():
            fut.set_result(None)
        return True


class _MemWriterTransport(asyncio.Transport):
    """asyncio.StreamWriter over an in-memory transport (redirect target).
    With hold=True every write stays in flight (writing paused, drain()
    blocks) until the driver releases it."""

    def __init__(self, loop, hold=False):
        super().__init__()
        self.hold = hold
        self.inflight = []
        self.data = b''
        self.eof = False
        self.after_eof = False
        self._closing = False
        proto = asyncio.StreamReaderProtocol(asyncio.StreamReader(loop=loop),
                                             loop=loop)
        self.proto = proto
        self.writer = asyncio.StreamWriter(self, proto, None, loop)

    def write(self, data):
        if self.eof:
            self.after_eof = True
        if self.hold:
            self.inflight.append(bytes(data))
            self.proto.pause_writing()
        else:
            self.data += bytes(data)

    def release(self):
        if not self.inflight:
            return False
        self.data += self.inflight.pop(0)
        if not self.inflight:
            self.proto.resume_writing()
        return True

    def can_write_eof(self):
        return True

    def write_eof(self):
        self.eof = True

    def is_closing(self):
        return self._closing

    def close(self):
        self._closing = True

    def get_extra_info(self, name, default=None):
        return default


# ---------------------------------------------------------------------------
# the property monitor

def judge(rep):
    """Evaluate C19's read clauses on the observations of one replay.
    Returns a list of (clause, call, detail, context) tuples."""
    W = rep.W
    viol = []
    dts = rep.dts
    # what was put on the wire, per data type, in order
    sent_data = {d: [] for d in dts}     # units
    sent_marks = {d: [] for d in dts}    # (marker, data units sent before,
                                         #  lower bound on its position)
    arrived_n = {d: 0 for d in dts}      # data units that have arrived
    marks_arrived = {d: 0 for d in dts}
    firm = {d: 0 for d in dts}           # units certainly handed to the stream
    firm_open = {d: True for d in dts}
    eof_arrived = False
    closed_arrived = False
    exit_arrived = None
    pd = {d: 0 for d in dts}             # data units returned so far
    pm = {d: 0 for d in dts}             # markers raised so far
    stale = {d: False for d in dts}      # F11 precondition seen on this stream
    redirected = {}
    results = {d: [] for d in dts}
    end = None
    targets = []

    def unread_total():
        return sum(arrived_n[d] - pd[d] for d in dts if d not in redirected)

    collected = [False]

    def context(dt):
        """circumstances that identify a known finding"""
        if stale.get(dt):
            return 'stale-pause'
        if collected[0]:
            return 'after-collect'
        return ''

    marks_ctx = ['']
    at_eof_at_start = {}

    def bad(clause, dt, spec, detail):
        ctx = marks_ctx[0] or context(dt)
        marks_ctx[0] = ''
        if not ctx and spec and spec[0] == 'until' and \
                sep_shape(spec[2]) == 'nested':
            ctx = 'nested-separators'
        viol.append((clause, spec, f'{dt} {spec}: {detail}', ctx))

    for ev in rep.log:
        if ev[0] == 'arrive':
            _, kind, dt, units = ev
            if kind == 'data':
                if firm_open[dt] and unread_total() < W:
                    firm[dt] += len(units)
                else:
                    firm_open[dt] = False
                sent_data[dt] += units
                arrived_n[dt] += len(units)
            elif kind == 'mark':
                sent_marks[dt].append((units[0], len(sent_data[dt]),
                                       firm[dt] if not firm_open[dt]
                                       else len(sent_data[dt])))
                marks_arrived[dt] += 1
            elif kind == 'eof':
                eof_arrived = True
            elif kind == 'exit':
                exit_arrived = units[0]
            elif kind == 'close':
                # a closed channel is the end of every stream on it
                closed_arrived = True
                eof_arrived = True
            # once nothing is unread the stream has caught up again
            continue
        if ev[0] == 'redirect':
            redirected.setdefault(ev[1], pd[ev[1]])
            continue
        if ev[0] == 'redirect-error':
            viol.append(('all-data-then-eof', ('redirect', ev[2]),
                         f'redirect of {ev[1]} to {ev[2]} raised {ev[3]}',
                         context(ev[1])))
            redirected.setdefault(ev[1], pd[ev[1]])
            continue
        if ev[0] == 'end':
            end = ev
            continue
        if ev[0] == 'waitsnap':
            # ExitAfterOutput: at the moment wait()/communicate()/"async
            # with" returns every redirect target holds all of its stream
            # and has been given EOF / closed
            for d, gens in ev[1].items():
                if any(g[1] is None for g in gens):
                    continue
                got = [u for g in gens for u in g[1]]
                want = sent_data[d][redirected.get(d, 0):arrived_n[d]]
                kinds = '+'.join(g[0] for g in gens)
                if got != want or gens[-1][2] is False:
                    viol.append(('exit-after-output', ('wait', 0, NO_SEP),
                                 f'wait()/communicate() returned while the '
                                 f'{kinds} target of {d} holds {got} of '
                                 f'{want}, EOF/close given: {gens[-1][2]}',
                                 context(d)))
            continue
        if ev[0] == 'start':
            d0 = ev[1]
            at_eof_at_start[d0] = d0 in pd and eof_arrived and \
                pd[d0] == arrived_n[d0] and pm[d0] == marks_arrived[d0] and \
                all(firm_open.values())
            continue
        if ev[0] == 'ateof':
            _, dt, val = ev
            if dt in redirected:
                continue
            own_done = pd[dt] == arrived_n[dt] and \
                pm[dt] == marks_arrived[dt]
            if val and not (eof_arrived and own_done):
                viol.append(('at-eof-early', ('ateof', 0, NO_SEP),
                             f'{dt}: at_eof() is True, EOF arrived '
                             f'{eof_arrived}, {arrived_n[dt] - pd[dt]} units '
                             f'of it unread', context(dt)))
            elif not val and eof_arrived and own_done and \
                    all(firm_open.values()):
                # nothing can be held back by the channel (every chunk
                # arrived below the buffer limit), so EOF has reached the
                # session; how much the OTHER stream holds is irrelevant
                viol.append(('eof-report', ('ateof', 0, NO_SEP),
                             f'{dt}: at_eof() is False although EOF has '
                             f'arrived and all of its data was consumed '
                             f'(unread on other streams: '
                             f'{unread_total()})', context(dt)))
            continue
        if ev[0] == 'target':
            targets.append(ev)
            continue
        _, dt, spec, out = ev
        kind, n, sep = spec
        if kind == 'next':
            # one step of "async for": stop at EOF, else a readline()
            own_done = pd[dt] == arrived_n[dt] and \
                pm[dt] == marks_arrived[dt]
            if out[0] == 'stop':
                if not (eof_arrived and own_done):
                    bad('stop-before-eof', dt, spec,
                        f'iteration stopped, EOF arrived {eof_arrived}, '
                        f'{arrived_n[dt] - pd[dt]} units unread')
                continue
            if at_eof_at_start.get(dt):
                bad('iteration-not-stopped', dt, spec,
                    f'returned {out} although EOF has arrived and all of '
                    f'the stream was consumed')
            kind = 'line'
        if kind == 'collect':
            _, o, e, _x = out
            for d, v in (('out', o), ('err', e)):
                rest = sent_data[d][pd[d]:arrived_n[d]]
                if v != rest[:len(v)]:
                    bad('nothing-lost', 'w', spec,
                        f'collect_output() returned {v} for {d}, unread '
                        f'output is {rest}')
                pd[d] += len(v)
            collected[0] = True
            continue
        if kind == 'wait':
            _, o, e, x = out
            for d, v in (('out', o), ('err', e)):
                if d in redirected:
                    if v:
                        bad('wait-output', 'w', spec,
                            f'{d} is redirected but wait() returned {v}')
                    continue
                rest = sent_data[d][pd[d]:arrived_n[d]]
                if v != rest[:len(v)] or (v != rest and x != 'none'):
                    bad('exit-implies-all-output', 'w', spec,
                        f'exit={x}: {d} result {v} but unread output is '
                        f'{rest}')
                pd[d] += len(v)
            if (x == 'none') != (exit_arrived is None) or \
                    (x != 'none' and x != exit_arrived):
                bad('exit-report', 'w', spec,
                    f'reported {x}, on the wire {exit_arrived}')
            if not closed_arrived:
                bad('wait-early', 'w', spec, 'wait() returned before CLOSE')
            continue
        v = out[1]
        data = sent_data[dt]
        marks = sent_marks[dt]
        nxt = marks[pm[dt]] if pm[dt] < marks_arrived[dt] else None
        unread_before = unread_total()
        other_unread = unread_before - (arrived_n[dt] - pd[dt])
        avail = data[pd[dt]:arrived_n[dt]]      # arrived, not yet returned
        if out[0] == 'exc':
            m = v[0]
            if nxt is None or nxt[0] != m or m == '!seof':
                bad('unexpected-exception', dt, spec,
                    f'raised {m}, next marker on the wire {nxt}')
            else:
                if pd[dt] > nxt[1]:
                    bad('marker-late', dt, spec,
                        f'{m} raised after {pd[dt]} units, sent after '
                        f'{nxt[1]}')
                elif pd[dt] < nxt[2]:
                    bad('marker-early', dt, spec,
                        f'{m} raised after {pd[dt]} units, sent after '
                        f'{nxt[1]} (at least {nxt[2]} were already in the '
                        f'stream)')
                pm[dt] += 1
            results[dt].append((spec, out))
            continue
        if out[0] not in ('ret', 'inc'):
            bad('unexpected-outcome', dt, spec, str(out))
            continue
        # data result: must be the next units of the stream, not crossing a
        # marker that was sent before them
        if v != avail[:len(v)]:
            bad('nothing-lost', dt, spec,
                f'returned {v}, next unread units are {avail}')
            pd[dt] += len(v)
            results[dt].append((spec, out))
            continue
        if nxt is not None and pd[dt] + len(v) > nxt[1]:
            bad('marker-late', dt, spec,
                f'returned units beyond marker {nxt[0]} (sent after '
                f'{nxt[1]} units) before raising it')
        # the run this call could see: up to the next marker that has
        # arrived (anywhere in its admissible range) or up to what arrived
        limit_hi = nxt[1] if nxt is not None else len(data)
        run_hi = data[pd[dt]:min(limit_hi, arrived_n[dt])]
        at_marker = nxt is not None and pd[dt] + len(v) >= nxt[2] and \
            pd[dt] + len(v) <= nxt[1]
        at_end = nxt is None and eof_arrived and \
            pd[dt] + len(v) == arrived_n[dt]
        term_here = at_marker or at_end
        seof_here = nxt is not None and nxt[0] == '!seof' and not v and \
            nxt[2] <= pd[dt] <= nxt[1]
        # the designed escape: a partial (non-empty: an empty result reads
        # as EOF) result when the buffer limit is reached
        escape = W > 0 and unread_before >= W and len(v) > 0 and \
            len(v) + other_unread >= W
        empty_escape = W > 0 and unread_before >= W and not v
        if kind in ('read', 'exact') and n == 0:
            if v or out[0] != 'ret':
                bad('read-zero', dt, spec, f'{out}')
        elif kind == 'read':
            if out[0] != 'ret':
                bad('read-outcome', dt, spec, f'{out}')
            elif not v:
                if seof_here:
                    pm[dt] += 1
                elif not at_end:
                    bad('empty-read-not-at-eof', dt, spec,
                        f'returned nothing; unread {avail}, eof '
                        f'arrived {eof_arrived}, next marker {nxt}')
            elif n > 0:
                if len(v) > n:
                    bad('read-more-than-n', dt, spec, f'returned {len(v)}')
            else:
                # read(-1): everything up to EOF or the next marker
                if not term_here:
                    bad('read-all-short', dt, spec,
                        f'returned {v}; unread {avail}, eof arrived '
                        f'{eof_arrived}, next marker {nxt}')
        elif kind == 'exact':
            if out[0] == 'ret':
                if not v and seof_here:
                    pm[dt] += 1
                elif len(v) != n:
                    bad('readexactly-length', dt, spec, f'returned {v}')
            else:
                if len(v) >= n or not term_here:
                    bad('incomplete-without-cause', dt, spec,
                        f'IncompleteReadError partial {v}; unread {avail}, '
                        f'eof arrived {eof_arrived}, next marker {nxt}')
        else:
            e = ref_end(sep, run_hi)
            if kind == 'until':
                full = out[0] == 'ret'
            else:
                full = out[0] == 'ret' and e > 0 and len(v) == e
            if kind == 'line' and out[0] != 'ret':
                bad('readline-outcome', dt, spec, f'{out}')
            elif full:
                if not v and seof_here:
                    pm[dt] += 1
                elif e == 0 or len(v) != e:
                    bad('separator-split', dt, spec,
                        f'returned {v}; first match in {run_hi} ends at {e}')
            else:
                # partial result
                if ref_end(sep, v):
                    bad('separator-split', dt, spec,
                        f'partial {v} contains a separator match')
                elif not v and seof_here and kind == 'line':
                    pm[dt] += 1
                elif not (term_here or escape):
                    if empty_escape and context(dt) != 'stale-pause':
                        marks_ctx[0] = 'empty-escape'
                    bad('partial-without-cause', dt, spec,
                        f'partial {v} but no EOF/marker there and '
                        + ('an empty result reads as EOF (the buffer limit '
                           f'{W} is reached only through other streams)'
                           if empty_escape else
                           f'the buffer limit {W} not reached') +
                        f': unread {avail} '
                        f'(+{other_unread} on other streams), eof arrived '
                        f'{eof_arrived}, next marker {nxt}')
                if out[0] in ('inc',) or kind == 'line':
                    # F11 precondition: a partial result that stopped at a
                    # marker while the buffer limit had been reached
                    if v and at_marker and unread_before >= W:
                        stale[dt] = True
        pd[dt] += len(v)
        results[dt].append((spec, out))

    # end of the case: everything was drained
    if end is not None:
        _, active, ateof = end
        if 'w' in active and closed_arrived:
            viol.append(('hung-wait', active['w'],
                         'wait() still pending after CLOSE', context('out')))
        for dt in dts:
            if dt in redirected:
                continue
            if dt in active:
                viol.append(('hung-read', active[dt],
                             f'{dt} {active[dt]} still pending after EOF '
                             f'and a full drain', context(dt)))
                continue
            if dt not in rep.readers:
                continue
            if pd[dt] != len(sent_data[dt]) or pm[dt] != len(sent_marks[dt]):
                viol.append(('nothing-lost', None,
                             f'{dt}: {pd[dt]} of {len(sent_data[dt])} units '
                             f'and {pm[dt]} of {len(sent_marks[dt])} markers '
                             f'delivered by the end', context(dt)))
            elif not ateof.get(dt):
                viol.append(('eof-report', None,
                             f'{dt}: at_eof() false after EOF and a full '
                             f'drain', context(dt)))
    complete = end is not None      # the case ran to its end (EOF sent)
    for ev in targets:
        _, dt, gens = ev
        kinds = '+'.join(g[0] for g in gens)
        # everything not consumed by a reader before the (first) redirection,
        # in the order written, each unit once, over the successive targets
        want = sent_data[dt][redirected.get(dt, 0):]
        if all(g[1] is not None for g in gens):
            got = [u for g in gens for u in g[1]]
            if got != (want if complete else want[:len(got)]) or \
                    (not complete and len(got) > len(want)):
                viol.append(('all-data-then-eof', ('redirect', kinds),
                             f'{dt} -> {kinds}: target(s) got '
                             f'{[g[1] for g in gens]}, the source wrote '
                             f'{want} after the redirection point',
                             context(dt)))
        eof = gens[-1][2]
        if complete and eof is not None and not eof:
            viol.append(('all-data-then-eof', ('redirect', kinds),
                         f'{dt} -> {kinds}: no EOF at the target',
                         context(dt)))
    return viol


def replay(h, case, **kw):
    """-> dict(divergences, violations, machinery, log)"""
    rep = Replay(h, case, **kw)
    h.cases += 1
    n_exc = len(h.loop.exceptions)
    try:
        rep.execute()
        # after a desync the closing phase is skipped; what was observed up
        # to that point is still judged
        viol = [] if rep.machinery else judge(rep)
    finally:
        rep.shut()
    loopexc = [str(c.get('exception') or c.get('message'))
               for c in h.loop.exceptions[n_exc:]]
    return {'divergences': rep.divergences, 'violations': viol,
            'machinery': rep.machinery, 'log': rep.log,
            'loop_exceptions': loopexc, 'role': rep.role}


# ---------------------------------------------------------------------------
# drain(): cases from specs/Stream/Drain.tla
#   [High, Low, Win, [[op, k, dr, res], ...]]   op in write/open/close/lost/drain

def _drain_conn(h, win):
    key = ('dr', win)
    ent = h.conns.get(key)
    if ent is not None and not ent[1].is_closed():
        return ent[1], h.transports[key]
    n0 = len(h.loop.net.all_transports)
    conn = h._conn(key, encoding=None, window=win)
    if not hasattr(h, 'transports'):
        h.transports = {}
    h.transports[key] = h.loop.net.all_transports[n0]
    return conn, h.transports[key]


def replay_drain(h, case):
    high, low, win, hist = case
    if not hasattr(h, 'transports'):
        h.transports = {}
    conn, ctrans = _drain_conn(h, win)
    loop = h.loop
    n0 = len(h.emit_sessions)

    async def op():
        return await conn.create_process(command='d', encoding=None)
    proc = loop.run_until_complete(op())
    loop.run_until_idle()
    assert len(h.emit_sessions) == n0 + 1
    peer = h.emit_sessions.pop()
    peer.chan.pause_reading()
    proc.channel.set_write_buffer_limits(high=high, low=low)
    n_exc = len(loop.exceptions)
    task = None
    gone = None
    paused_obs = False
    wrote = 0
    div = []
    viol = []
    obs = []
    step = 0
    for lab in hist:
        step += 1
        o, k, p_dr, p_res = lab
        finished = None
        if o == 'write':
            proc.stdin.write(b'x' * k)
            wrote += k
        elif o == 'open':
            peer.chan.resume_reading()
            loop.run_until_idle()
            peer.chan.pause_reading()
        elif o == 'close':
            peer.chan.close()
            gone = 'clean'
        elif o == 'lost':
            ctrans.cut(ConnectionResetError('cut by harness'))
            gone = 'exc'
        elif o == 'drain':
            task = loop.create_task(proc.stdin.drain())
        loop.run_until_idle()
        if gone is None:
            size = proc.channel.get_write_buffer_size()
            paused_obs = size > low if paused_obs else size > high
        if task is not None and task.done():
            finished = 'raise' if task.exception() is not None else 'ret'
            # ---- the property, on observations ----
            if finished == 'ret' and paused_obs:
                viol.append(('drain-returned-while-paused', o,
                             f'drain() returned normally at step {step} '
                             f'({o}) while writing was paused (write buffer '
                             f'above the water marks {low}/{high}) and '
                             f'channel state {gone}'))
            if finished == 'raise' and gone is None:
                viol.append(('drain-raised-on-open-channel', o,
                             f'drain() raised {task.exception()!r} at step '
                             f'{step} with the channel open'))
            task = None
        o_dr = 'waiting' if task is not None else 'idle'
        o_res = finished if finished else \
            ('none' if o == 'drain' else None)
        obs.append([o, k, o_dr, o_res])
        if o_dr != p_dr or (o_res is not None and o_res != p_res) or \
                (finished is None and o != 'drain' and p_dr == 'idle' and
                 step > 1 and hist[step - 2][2] == 'waiting'):
            div.append(f'step {step} {lab}: observed drain {o_dr}/{o_res}')
    if task is not None:
        if gone is not None or not paused_obs:
            viol.append(('drain-hung', hist[-1][0],
                         f'drain() still waiting at the end although '
                         f'channel state is {gone} and paused={paused_obs}'))
        task.cancel()
    try:
        proc.close()
        peer.chan.close()
        loop.run_until_idle()
    except Exception:                   # pylint: disable=broad-except
        pass
    loopexc = [str(c.get('exception') or c.get('message'))
               for c in loop.exceptions[n_exc:]]
    return {'divergences': div, 'violations': viol, 'obs': obs,
            'loop_exceptions': loopexc}


# ---------------------------------------------------------------------------
# ExitImpliesAllOutput end to end: a real server handler writes and calls
# exit() / exit_with_signal(); the client uses run() / wait() with a window
# that is small compared with the output, so that the exit status overtakes
# output still buffered in the server's channel.

def _exit_conn(h):
    import json

    async def handler(process):
        spec = json.loads(process.command)
        for dt, n in spec['writes']:
            data = (b'o' if dt == 'out' else b'e') * n
            (process.stdout if dt == 'out' else process.stderr).write(data)
        if spec['how'] == 'status':
            process.exit(spec['status'])
        elif spec['how'] == 'signal':
            process.exit_with_signal('KILL', False, 'killed')
        else:
            process.close()
    return h._conn(('px',), process_factory=handler, encoding=None)


def exit_scenarios(tier):
    wins = [1, 2, 3, 8, 64, None]
    sizes = [(0, 0), (1, 0), (0, 1), (3, 2), (7, 5), (64, 33)]
    if tier != 'quick':
        sizes += [(200, 0), (129, 130), (1000, 999)]
    out = []
    for w in wins:
        for so, se in sizes:
            for order in ('oe', 'eo', 'oeoe'):
                if order == 'oe':
                    writes = [('out', so), ('err', se)]
                elif order == 'eo':
                    writes = [('err', se), ('out', so)]
                else:
                    writes = [('out', so // 2), ('err', se // 2),
                              ('out', so - so // 2), ('err', se - se // 2)]
                for how in ('status', 'signal', 'none'):
                    for mode in ('run', 'read', 'delay'):
                        out.append(dict(window=w, writes=writes, how=how,
                                        status=(so + se) % 7, mode=mode,
                                        so=so, se=se))
                if order == 'oe' and so + se and w in (2, 64, None):
                    # run() with stdout / stderr redirected to targets that
                    # are written by a background task, slower than the
                    # channel (ExitAfterOutput)
                    for tk in ('afile', 'stream', 'afile+stream'):
                        out.append(dict(window=w, writes=writes, how='status',
                                        status=(so + se) % 7,
                                        mode='run_' + tk, so=so, se=se))
    return out


class _PacedFile(_AsyncFile):
    """async file whose writes take a few loop iterations each"""

    async def write(self, data):
        for _ in range(3):
            await asyncio.sleep(0)
        if self.closed:
            self.after_close = True
        self.data += bytes(data)


class _PacedTransport(_MemWriterTransport):
    """StreamWriter target that pauses writing after every write for a few
    loop iterations (drain() has to wait)"""

    def write(self, data):
        if self.eof:
            self.after_eof = True
        self.data += bytes(data)
        self.proto.pause_writing()
        self._n = getattr(self, '_n', 0) + 1
        n = self._n
        loop = self.proto._loop

        def later(k=3):
            if k:
                loop.call_soon(later, k - 1)
            elif n == self._n:
                self.proto.resume_writing()
        loop.call_soon(later)


def replay_exit(h, sc):
    import json
    conn = _exit_conn(h)
    loop = h.loop
    cmd = json.dumps({'writes': sc['writes'], 'how': sc['how'],
                      'status': sc['status']})
    kw = {} if sc['window'] is None else {'window': sc['window']}
    pre = {'out': b'', 'err': b''}

    slow = {}
    if sc['mode'].startswith('run_'):
        kinds = sc['mode'][4:].split('+')
        for dt, kind in zip(('stdout', 'stderr') if len(kinds) > 1
                            else ('stdout',), kinds):
            slow[dt] = _PacedFile(loop) if kind == 'afile' \
                else _PacedTransport(loop)
    snap = {}

    async def go():
        if slow:
            r = await conn.run(cmd, encoding=None, **kw, **{
                dt: (t if isinstance(t, _PacedFile) else t.writer)
                for dt, t in slow.items()})
            for dt, t in slow.items():
                snap[dt] = (bytes(t.data), t.closed if isinstance(
                    t, _PacedFile) else t.eof)
            return r
        if sc['mode'] == 'run':
            return await conn.run(cmd, encoding=None, **kw)
        proc = await conn.create_process(cmd, encoding=None, **kw)
        if sc['mode'] == 'read':
            # read a little from the stream the server writes first
            first = [dt for dt, n in sc['writes'] if n]
            if first and first[0] == 'out':
                pre['out'] = await proc.stdout.read(2)
            elif first:
                pre['err'] = await proc.stderr.read(2)
        else:
            for _ in range(20):
                await asyncio.sleep(0)
        return await proc.wait()
    viol = []
    try:
        res = loop.run_until_complete(go())
    except Deadlock:
        return [('hung-wait', sc['mode'],
                 'run()/wait() never returned although the server exited')]
    loop.run_until_idle()
    reported = res.exit_status is not None or res.exit_signal is not None
    for dt, (data, done) in snap.items():
        want = (b'o' * sc['so']) if dt == 'stdout' else (b'e' * sc['se'])
        if data != want or not done:
            viol.append(('exit-after-output', sc['mode'],
                         f'run() returned exit status {res.exit_status} '
                         f'while the {dt} target held {len(data)}/'
                         f'{len(want)} bytes, EOF/close given: {bool(done)}'))
    so = pre['out'] + (res.stdout or b'')
    se = pre['err'] + (res.stderr or b'')
    if 'stdout' in slow:
        so = b'o' * sc['so']
    if 'stderr' in slow:
        se = b'e' * sc['se']
    if reported and (so != b'o' * sc['so'] or se != b'e' * sc['se']):
        viol.append(('exit-implies-all-output', sc['mode'],
                     f'exit status {res.exit_status} signal '
                     f'{res.exit_signal} reported with stdout {len(so)}/'
                     f'{sc["so"]} and stderr {len(se)}/{sc["se"]} bytes'))
    if not reported and (so != b'o' * sc['so'] or se != b'e' * sc['se']):
        viol.append(('nothing-lost', sc['mode'],
                     f'channel closed cleanly, stdout {len(so)}/{sc["so"]} '
                     f'stderr {len(se)}/{sc["se"]} bytes'))
    if sc['how'] == 'status' and res.exit_status != sc['status'] or \
            sc['how'] == 'signal' and (res.exit_signal or [None])[0] != 'KILL' \
            or sc['how'] == 'none' and reported:
        viol.append(('exit-report', sc['mode'],
                     f'server ended with {sc["how"]}, client reports status '
                     f'{res.exit_status} signal {res.exit_signal}'))
    return viol


# ---------------------------------------------------------------------------
# AllDataThenEOF for stdin redirections: the source is copied to the remote
# process' stdin completely, then EOF.  The remote side has a small window
# and the write buffer limits are small, so feeding is paused and resumed.

def stdin_scenarios(tier):
    out = []
    sizes = [0, 1, 5, 16, 17, 40] if tier == 'quick' else \
        [0, 1, 2, 5, 8, 16, 17, 33, 40, 64, 100, 257]
    for kind in ('file', 'name', 'process', 'stream', 'devnull'):
        for size in sizes:
            for win in (3, 16):
                for bufsize in (4, 16):
                    if kind == 'devnull' and (size or bufsize != 4):
                        continue
                    out.append(dict(kind=kind, size=size, window=win,
                                    bufsize=bufsize))
    return out


def replay_stdin(h, sc):
    loop = h.loop
    if not hasattr(h, 'transports'):
        h.transports = {}
    conn, _ = _drain_conn(h, sc['window'])
    payload = bytes((i * 7 + 3) % 251 for i in range(sc['size']))
    n0 = len(h.emit_sessions)

    async def op():
        return await conn.create_process(command='sink', encoding=None)
    proc = loop.run_until_complete(op())
    loop.run_until_idle()
    assert len(h.emit_sessions) == n0 + 1
    sink = h.emit_sessions.pop()
    proc.channel.set_write_buffer_limits(high=8, low=2)
    tmp = None
    src_proc = src_emit = None
    kind = sc['kind']
    if kind in ('file', 'name'):
        tmp = tempfile.mkdtemp(prefix='c19_stdin_', dir=h.workdir)
        path = os.path.join(tmp, 'source')
        with open(path, 'wb') as f:
            f.write(payload)
        source = open(path, 'rb') if kind == 'file' else path
    elif kind == 'devnull':
        source = asyncssh.DEVNULL
    elif kind == 'stream':
        source = asyncio.StreamReader(loop=loop)
    else:
        # stdout of another remote process
        cconn = h.client_reader_conn()
        m0 = len(h.emit_sessions)

        async def op2():
            return await cconn.create_process(command='src', encoding=None)
        src_proc = loop.run_until_complete(op2())
        loop.run_until_idle()
        assert len(h.emit_sessions) == m0 + 1
        src_emit = h.emit_sessions.pop()
        source = src_proc.stdout

    async def redir():
        await proc.redirect_stdin(source, bufsize=sc['bufsize'])
    viol = []
    try:
        loop.run_until_complete(redir())
        loop.run_until_idle()
        if kind == 'stream':
            for i in range(0, len(payload), 5):
                source.feed_data(payload[i:i + 5])
                loop.run_until_idle()
            source.feed_eof()
        elif kind == 'process':
            for i in range(0, len(payload), 5):
                src_emit.chan.write(payload[i:i + 5])
                loop.run_until_idle()
            src_emit.chan.write_eof()
        loop.run_until_idle()
        got = b''.join(sink.got)
        if got != payload:
            viol.append(('all-data-then-eof', kind,
                         f'stdin <- {kind}: remote process received '
                         f'{len(got)} bytes (first difference at '
                         f'{_first_diff(got, payload)}), source has '
                         f'{len(payload)}'))
        if not sink.got_eof:
            viol.append(('all-data-then-eof', kind,
                         f'stdin <- {kind}: no EOF at the remote process '
                         f'after {len(got)}/{len(payload)} bytes'))
    finally:
        try:
            proc.close()
            sink.chan.close()
            if src_proc is not None:
                src_proc.close()
                src_emit.chan.close()
            loop.run_until_idle()
        except Exception:               # pylint: disable=broad-except
            pass
        if tmp:
            shutil.rmtree(tmp, ignore_errors=True)
    return viol


def _first_diff(a, b):
    for i, (x, y) in enumerate(zip(a, b)):
        if x != y:
            return i
    return min(len(a), len(b))


# ---------------------------------------------------------------------------
# Full duplex, end to end: the local side queues input (and its EOF) behind
# the peer's small window while a cat-like peer answers every chunk as it
# arrives.  Whatever the local sending state (nothing sent, data queued
# beyond the window, EOF queued behind data, EOF sent), what read*() /
# communicate() / wait() / run() return is exactly what the peer wrote.

def _cat_conn(h, swin):
    async def handler(process):
        # cat: stdout gets a copy, stderr one 'e' per chunk
        wrote = h.cat_wrote = [b'', 0]
        try:
            while True:
                data = await process.stdin.read(2)
                if not data:
                    break
                process.stdout.write(data)
                process.stderr.write(b'e')
                wrote[0] += data
                wrote[1] += 1
        except Exception:               # pylint: disable=broad-except
            pass
        process.exit(len(process.command) % 5)
    return h._conn(('cat', swin), process_factory=handler, encoding=None,
                   window=swin)


def duplex_scenarios(tier):
    out = []
    sizes = [0, 1, 2, 3, 4, 7, 16] if tier == 'quick' else \
        [0, 1, 2, 3, 4, 5, 7, 9, 16, 33, 100]
    for swin in (1, 2, 3, 64):
        for cwin in (1, 3, None):
            for size in sizes:
                for form in ('run_input', 'communicate', 'stdin_file',
                             'write_then_read', 'read_lines'):
                    if size == 0 and form in ('run_input', 'communicate'):
                        continue        # no input: no EOF is sent either
                    out.append(dict(swin=swin, cwin=cwin, size=size,
                                    form=form))
    return out


def replay_duplex(h, sc):
    conn = _cat_conn(h, sc['swin'])
    loop = h.loop
    payload = bytes(97 + (i * 5) % 23 if i % 4 != 3 else 10
                    for i in range(sc['size']))
    kw = {} if sc['cwin'] is None else {'window': sc['cwin']}
    cmd = 'cat' + 'x' * (sc['size'] % 3)
    want_status = len(cmd) % 5
    tmp = None
    form = sc['form']

    async def go():
        if form == 'run_input':
            r = await conn.run(cmd, input=payload, encoding=None, **kw)
            return r.stdout, r.stderr, r.exit_status
        if form == 'stdin_file':
            with open(os.path.join(tmp, 'in'), 'wb') as f:
                f.write(payload)
            proc = await conn.create_process(
                cmd, stdin=os.path.join(tmp, 'in'), encoding=None, **kw)
            # both streams are read while the file is still being fed
            out, err = await asyncio.gather(proc.stdout.read(),
                                            proc.stderr.read())
            r = await proc.wait()
            return out + r.stdout, err + r.stderr, r.exit_status
        proc = await conn.create_process(cmd, encoding=None, **kw)
        if form == 'communicate':
            o, e = await proc.communicate(payload)
            return o, e, proc.exit_status
        proc.stdin.write(payload)
        proc.stdin.write_eof()          # EOF queued behind the data
        if form == 'write_then_read':
            out, err = await asyncio.gather(proc.stdout.read(),
                                            proc.stderr.read())
        else:
            async def lines():
                got = b''
                while True:
                    line = await proc.stdout.readline()
                    if not line:
                        return got
                    got += line
            out, err = await asyncio.gather(lines(), proc.stderr.read())
        r = await proc.wait()
        return out + r.stdout, err + r.stderr, r.exit_status
    if form == 'stdin_file':
        tmp = tempfile.mkdtemp(prefix='c19_duplex_', dir=h.workdir)
    viol = []
    try:
        try:
            out, err, status = loop.run_until_complete(go())
        except Deadlock:
            return [('hung-duplex', form,
                     f'{form} never returned ({sc})')]
        loop.run_until_idle()
        wrote = getattr(h, 'cat_wrote', [b'', 0])
        nchunks = wrote[1]
        if wrote[0] != payload:
            viol.append(('stdin-copy', form,
                         f'{form}: the peer received {len(wrote[0])} of '
                         f'{len(payload)} input bytes'))
        if out != wrote[0] or err != b'e' * nchunks:
            viol.append(('duplex-output', form,
                         f'{form}: the peer wrote {len(wrote[0])} bytes to '
                         f'stdout and {nchunks} to stderr, the application '
                         f'got {len(out)} (first difference at '
                         f'{_first_diff(out, wrote[0])}) and {len(err)}, '
                         f'exit status {status}'))
        elif status != want_status:
            viol.append(('exit-report', form,
                         f'{form}: exit status {status}, peer sent '
                         f'{want_status}'))
    finally:
        if tmp:
            shutil.rmtree(tmp, ignore_errors=True)
    return viol


# ---------------------------------------------------------------------------
# Exported for checks/c08.py (flow control seen from a stream reader): a
# stream-session reader that keeps reading - readline(), readuntil(), "async
# for" - over newline-free runs longer than the receive window gets every
# byte the peer wrote, in order, and the channel is resumed whenever the
# buffer drains (the peer's send buffer empties, nothing hangs).

def stream_reader_flow(ctx, quick=True, harness=None):
    """Runs the scenarios and reports through ctx.violation / ctx.count.
    Returns the number of scenarios executed."""
    h = harness or Harness()
    loop = h.loop
    n = 0
    try:
        conn = h.client_reader_conn()
        for win in (1, 64, 1000):
            runs = [win * 3 + 5, win, win + 1, 2 * win + 1] if quick else \
                [win * 3 + 5, win - 1 or 1, win, win + 1, 2 * win,
                 2 * win + 1, 5 * win + 3]
            for run in runs:
                if run > 6000:
                    continue
                payload = (b'x' * run + b'\n' + b'tail\n' +
                           b'y' * (run // 2 + 1) + b'\n' + b'z' * run)
                for method in ('readline', 'readuntil', 'aiter'):
                    for chunk in (0, 1 if run <= 80 else 7, win):
                        n += 1
                        sig = {'module': 'StreamFlow', 'window': win,
                               'method': method}
                        res = _reader_flow_case(h, conn, win, payload,
                                                method, chunk)
                        ctx.count(f'flow:{win}:{run}:{method}:{chunk}')
                        for clause, detail in res:
                            ctx.violation(
                                dict(sig, clause=clause),
                                f'window {win}, {method}, peer writes in '
                                f'chunks of {chunk or "all"}, run of {run} '
                                f'bytes without newline: {detail}',
                                replay={'kind': 'flow', 'window': win,
                                        'run': run, 'method': method,
                                        'chunk': chunk})
    finally:
        if harness is None:
            h.close()
    return n


def _reader_flow_case(h, conn, win, payload, method, chunk):
    loop = h.loop
    n0 = len(h.emit_sessions)

    async def op():
        return await conn.create_process(command='flow', encoding=None,
                                         window=win)
    proc = loop.run_until_complete(op())
    loop.run_until_idle()
    peer = h.emit_sessions.pop()
    assert len(h.emit_sessions) == n0
    pieces = []
    cap = 4 * len(payload) + 50

    async def reader():
        rd = proc.stdout
        if method == 'aiter':
            async for line in rd:
                pieces.append(line)
                if len(pieces) > cap:
                    break
            return
        while len(pieces) <= cap:
            if method == 'readline':
                line = await rd.readline()
            else:
                try:
                    line = await rd.readuntil(b'\n')
                except asyncio.IncompleteReadError as exc:
                    line = exc.partial
            if not line and rd.at_eof():
                return
            pieces.append(line)
    task = loop.create_task(reader())
    loop.run_until_idle()
    # the peer writes (its channel queues what the window does not allow)
    if chunk:
        for i in range(0, len(payload), chunk):
            peer.chan.write(payload[i:i + chunk])
            loop.run_until_idle()
    else:
        peer.chan.write(payload)
        loop.run_until_idle()
    stuck = peer.chan.get_write_buffer_size()
    peer.chan.write_eof()
    loop.run_until_idle()
    viol = []
    got = b''.join(pieces)
    if not task.done():
        viol.append(('reader-hung',
                     f'the reader is still waiting after the peer sent '
                     f'everything and EOF; it got {len(got)} of '
                     f'{len(payload)} bytes, {stuck} bytes are stuck in the '
                     f'peer\'s send buffer (channel not resumed)'))
        task.cancel()
    elif task.exception() is not None:
        viol.append(('reader-failed', repr(task.exception())[:160]))
    elif len(pieces) > cap:
        viol.append(('reader-spins', f'more than {cap} results, '
                     f'{pieces.count(b"")} of them empty'))
    if task.done() and got != payload:
        viol.append(('bytes-lost',
                     f'the reader got {len(got)} of {len(payload)} bytes '
                     f'(first difference at {_first_diff(got, payload)})'))
    if stuck and task.done():
        viol.append(('not-resumed',
                     f'{stuck} bytes were still stuck in the peer\'s send '
                     f'buffer although the reader kept reading'))
    try:
        proc.close()
        peer.chan.close()
        loop.run_until_idle()
    except Exception:                   # pylint: disable=broad-except
        pass
    return viol
