"""X01 driver: binds specs/Scp/Scp.tla to asyncssh/scp.py.

Two kinds of replay, both on the deterministic loop with real directories
under /verif/.work/X01_w<pid>/:

(a) tree cases (model: code source <-> code sink, optionally the copier):
    asyncssh.scp() against real asyncssh servers started with allow_scp=True
    and an SFTPServer subclass confined by chroot= to a temp dir, in the three
    modes upload / download / remote-to-remote.  The TLC terminal state of
    the case (destination tree, refused items, what the caller is told) is
    the prediction; refusals are materialised through conflicting entries,
    special files, truncation in flight and the SFTPServer subclass raising
    errors for chosen names.

(b) scripts (model: code on one side, a FREE peer on the other): the log of
    a TLC behaviour is split into what the free peer writes (played by a
    hand-written peer over an exec channel) and what the code writes
    (compared byte-kind by byte-kind with what the real side sends).  The
    real side is the server's scp handler (scripted client) or
    asyncssh.scp() itself (scripted server process).

Monitors (-> violations) look only at what the caller / the peer / the file
system saw: the copy hangs, an exception reaches the event loop or a non-SCP
exception reaches the caller, the tree differs although nothing was refused
or cut, a refused item is not reported, an item that was not refused does not
arrive, the real side sends bytes nobody asked for.  Every other disagreement
with the model is a divergence.
"""

import asyncio
import hashlib
import json
import os
import re
import shutil
import stat as statmod

import asyncssh

from harness import tlc
from harness.vloop import new_loop, close_loop, Deadlock

DST, CONN, CRASH = 900, 901, 902
SRV_BLOCK = 256 * 1024          # _SCP_BLOCK_SIZE used by the server side
LOCAL_BIG = 16384               # larger than the read-ahead buffer of a local file
FMODES = [0o640, 0o604, 0o660, 0o600, 0o664]
DMODES = [0o750, 0o705, 0o770, 0o700, 0o775]
DEF_MODES = {'f': 0o644, 'd': 0o755}
NOW_FLOOR = 1_500_000_000

_hostkey = None


def hostkey():
    global _hostkey
    if _hostkey is None:
        _hostkey = asyncssh.generate_private_key('ssh-ed25519')
    return _hostkey


def name_of(i):
    return f'zq{i}'


def mtime_of(tag):
    return 1_000_000_000 + 1000 * tag


def atime_of(tag):
    return 1_200_000_000 + 1000 * tag


def mode_of(i, kind):
    return (FMODES if kind == 'f' else DMODES)[i % 5]


def content(i, nbytes):
    seed = hashlib.sha256(f'x01-{i}'.encode()).digest()
    return (seed * (nbytes // len(seed) + 1))[:nbytes]


class _NoAuth(asyncssh.SSHServer):
    def begin_auth(self, username):
        return False


def make_fs(world, root):
    class RefusingFS(asyncssh.SFTPServer):
        """The stock SFTPServer confined to `root`; refuses chosen names."""

        def __init__(self, chan):
            super().__init__(chan, chroot=root.encode())

        def _hit(self, kind, path):
            base = os.path.basename(os.fsdecode(path).rstrip('/'))
            return base if base in world.refuse.get(kind, ()) else None

        def open(self, path, pflags, attrs):
            writing = bool(pflags & asyncssh.FXF_WRITE)
            base = self._hit('kcreate' if writing else 'sopen', path)
            if base:
                raise asyncssh.SFTPPermissionDenied(f'open refused: {base}')
            return super().open(path, pflags, attrs)

        def mkdir(self, path, attrs):
            base = self._hit('kcreate', path)
            if base:
                raise asyncssh.SFTPPermissionDenied(f'mkdir refused: {base}')
            return super().mkdir(path, attrs)

        def read(self, file_obj, offset, size):
            base = os.path.basename(os.fsdecode(file_obj.name))
            lim = world.refuse.get('sread', {}).get(base)
            if lim is not None and offset + size > lim:
                raise asyncssh.SFTPFailure(f'read refused: {base}')
            return super().read(file_obj, offset, size)

        def write(self, file_obj, offset, data):
            base = os.path.basename(os.fsdecode(file_obj.name))
            if base in world.refuse.get('kwrite', ()):
                raise asyncssh.SFTPFailure(f'write refused: {base}')
            return super().write(file_obj, offset, data)

        def setstat(self, path, attrs):
            base = self._hit('kstat', path)
            if base:
                raise asyncssh.SFTPPermissionDenied(f'setstat refused: {base}')
            return super().setstat(path, attrs)
    return RefusingFS


class World:
    """Servers A and B (real scp handler), server S (scripted peer) and one
    client connection to each, all on one deterministic loop."""

    PORTS = {'A': 2301, 'B': 2302, 'S': 2303}

    def __init__(self):
        os.umask(0o022)
        self.loop = new_loop()
        self.top = os.path.join(tlc.WORK, f'X01_w{os.getpid()}')
        shutil.rmtree(self.top, ignore_errors=True)
        for d in 'ABL':
            os.makedirs(os.path.join(self.top, d))
        self.refuse = {}
        self.job = None             # coroutine function run by server S
        self.job_result = None
        self.job_fut = None
        self.conn = {}
        self.listeners = {}
        world = self

        async def scripted(process):
            job = world.job
            world.job = None
            fut = world.job_fut
            try:
                if job is None:
                    process.exit(1)
                    return
                world.job_result = await job(process.stdin, process.stdout,
                                             process)
            except (asyncssh.Error, OSError) as exc:
                world.job_result = {'peer_exc': repr(exc)}
            finally:
                if fut is not None and not fut.done():
                    fut.set_result(None)

        async def start():
            for name in 'AB':
                self.listeners[name] = await asyncssh.listen(
                    '127.0.0.1', self.PORTS[name], server_factory=_NoAuth,
                    server_host_keys=[hostkey()], allow_scp=True,
                    sftp_factory=make_fs(world, os.path.join(self.top, name)))
            self.listeners['S'] = await asyncssh.listen(
                '127.0.0.1', self.PORTS['S'], server_factory=_NoAuth,
                server_host_keys=[hostkey()], process_factory=scripted,
                encoding=None)
            for name in 'ABS':
                await self._connect(name)
        self.loop.run_until_complete(start())

    async def _connect(self, name):
        self.conn[name] = await asyncssh.connect(
            '127.0.0.1', self.PORTS[name], known_hosts=None, config=None,
            client_keys=None, username='u',
            encryption_algs=['aes128-gcm@openssh.com'],
            compression_algs=['none'])

    def heal(self):
        """After a cut / hang: drop tasks, reconnect what is closed."""
        for t in asyncio.all_tasks(self.loop):
            t.cancel()
        try:
            self.loop.run_until_idle()
        except BaseException:           # pylint: disable=broad-except
            pass
        self.loop.exceptions.clear()
        for name in 'ABS':
            c = self.conn.get(name)
            if c is None or c.is_closed() or c._transport is None or \
                    c._transport.closed:
                try:
                    if c is not None:
                        c.abort()
                except Exception:       # pylint: disable=broad-except
                    pass
                self.loop.run_until_complete(self._connect(name))

    def ensure(self):
        """Reconnect whatever a previous case left closed."""
        for name in 'ABS':
            c = self.conn.get(name)
            if c is None or c.is_closed() or c._transport is None or \
                    c._transport.closed:
                self.heal()
                return

    def area(self, which):
        return os.path.join(self.top, which)

    def reset(self):
        self.ensure()
        self.refuse = {}
        for d in 'ABL':
            p = self.area(d)
            for e in os.listdir(p):
                q = os.path.join(p, e)
                if os.path.isdir(q) and not os.path.islink(q):
                    shutil.rmtree(q)
                else:
                    os.remove(q)

    def close(self):
        try:
            for c in self.conn.values():
                c.close()
            for l in self.listeners.values():
                l.close()
            self.loop.run_until_idle()
        except BaseException:           # pylint: disable=broad-except
            pass
        close_loop(self.loop)
        shutil.rmtree(self.top, ignore_errors=True)


_world = None


def world():
    global _world
    if _world is None:
        _world = World()
    return _world


def drop_world():
    global _world
    if _world is not None:
        _world.close()
        _world = None


# --------------------------------------------------------------------------
# model values
# --------------------------------------------------------------------------

def as_set(v):
    if isinstance(v, dict) and '$set' in v:
        return set(v['$set'])
    return set(v or ())


def model_fs(fs):
    """parsed TLA+ function path -> entry  =>  {tuple(path): entry}"""
    out = {}
    if not fs or isinstance(fs, list):
        # << >> is the empty function; a function with domain {<<>>} cannot
        # print as a list
        return out
    for key, ent in fs.items():
        path = tuple(json.loads(key)) if isinstance(key, str) else tuple(key)
        out[path] = ent
    return out


def tree_nodes(cfg):
    """[{par, kd, size}] 1-based dict"""
    return {i + 1: nd for i, nd in enumerate(cfg['tree'])}


def ancestors(nodes, n):
    out = []
    while nodes[n]['par'] != 0:
        n = nodes[n]['par']
        out.append(n)
    return out


def chain(nodes, n):
    return tuple(reversed(ancestors(nodes, n))) + (n,)


def exp_path(cfg, nodes, n):
    c = chain(nodes, n)
    return c if cfg['dst'] == 'dir' else c[1:]


def ref_of(cfg, n):
    r = cfg['ref']
    if isinstance(r, list):
        return r[n - 1] if 1 <= n <= len(r) else 'none'
    return 'none'


# --------------------------------------------------------------------------
# file system helpers
# --------------------------------------------------------------------------

def snapshot(root):
    """{relpath ('' = root itself): (kind, bytes|None, mode, mtime, atime)}"""
    out = {}
    if not os.path.lexists(root):
        return out

    def one(p, rel):
        st = os.lstat(p)
        if statmod.S_ISDIR(st.st_mode):
            out[rel] = ('d', None, st.st_mode & 0o7777, int(st.st_mtime),
                        int(st.st_atime))
            for e in sorted(os.listdir(p)):
                one(os.path.join(p, e), f'{rel}/{e}' if rel else e)
        elif statmod.S_ISREG(st.st_mode):
            with open(p, 'rb') as f:
                data = f.read()
            out[rel] = ('f', data, st.st_mode & 0o7777, int(st.st_mtime),
                        int(st.st_atime))
        else:
            out[rel] = ('o', None, st.st_mode & 0o7777, 0, 0)
    one(root, '')
    return out


def ordered_names(dirpath, ids):
    """Names for the children `ids` (ascending = the order in which the model
    walks them) such that the directory listing yields them in that order:
    the listing order of this file system depends on the set of names only."""
    names = [name_of(i) for i in ids]
    if len(ids) <= 1:
        return dict(zip(ids, names))
    for nm in names:
        open(os.path.join(dirpath, nm), 'w').close()
    order = [e for e in os.listdir(dirpath) if e in names]
    for nm in names:
        os.remove(os.path.join(dirpath, nm))
    return dict(zip(ids, order))


class Deco:
    """Concrete choices the model leaves open (JSON-able, for --replay)."""

    def __init__(self, d=None):
        self.d = d or {}

    @staticmethod
    def pick(rnd, cfg, mode, src_unit, n_names):
        d = {'unit': src_unit, 'delta': {}, 'conflict': rnd.random() < 0.5,
             'pre': {}, 'glob': rnd.random() < 0.3}
        for i in range(1, n_names + 1):
            d['delta'][str(i)] = rnd.choice([0, 0, -1, 1])
            d['pre'][str(i)] = rnd.random() < 0.25
        return Deco(d)

    def nbytes(self, i, size):
        if size == 0:
            return 0
        return size * self.d['unit'] + self.d['delta'].get(str(i), 0)

    def block(self, i, size, j):
        """byte range of model block j (1-based) of file i"""
        u = self.d['unit']
        lo = (j - 1) * u
        hi = self.nbytes(i, size) if j == size else j * u
        return lo, hi


# --------------------------------------------------------------------------
# expectations
# --------------------------------------------------------------------------

def expected_tree(fs, names, deco):
    """model fs -> {relpath: dict(kind, data|None, perm, tm, old)}

    names: id -> real name.  Block <<i, j>> of a file announced with sz blocks
    is bytes (j-1)*unit .. j*unit of the byte stream of name i, the last block
    reaching up to the announced size."""
    out = {}
    u = deco.d['unit']
    for path, ent in model_fs(fs).items():
        rel = '/'.join(names[i] for i in path)
        e = {'kind': ent['kd'], 'perm': ent['perm'], 'tm': ent['tm'],
             'data': None, 'old': False}
        if ent['kd'] == 'f':
            blocks = [tuple(b) for b in ent['data']]
            if blocks == [(0, 0)]:
                e['old'] = True
            else:
                buf = b''
                exact = True
                sz = ent['sz']
                for (i, j) in blocks:
                    if j == 0:
                        exact = False
                        continue
                    lo, hi = deco.block(i, sz, j)
                    buf += content(i, hi)[lo:hi]
                e['data'] = buf if exact else None
        out[rel] = e
    return out


def compare_tree(exp, real, extras, src_attr):
    """-> list of (relpath, what) differences.  exp: expected_tree();
    real: snapshot(); extras: {relpath: (kind, data)} harness-made entries the
    transfer must leave alone unless the model overwrites them; src_attr:
    tag -> (mode_f, mode_d)... resolved through callbacks below."""
    diffs = []
    paths = set(exp) | set(extras)
    for rel in sorted(set(real) - paths):
        diffs.append((rel, f'unexpected {real[rel][0]}'))
    for rel in sorted(paths):
        if rel not in real:
            diffs.append((rel, 'missing'))
            continue
        kind, data, mode, mtime, _atime = real[rel]
        if rel not in exp:
            ek, ed = extras[rel]
            if kind != ek or (ek == 'f' and data != ed):
                diffs.append((rel, 'harness-made entry was modified'))
            continue
        e = exp[rel]
        if kind != e['kind']:
            diffs.append((rel, f'kind {kind} expected {e["kind"]}'))
            continue
        if e['kind'] == 'f' and not e['old']:
            if e['data'] is not None and data != e['data']:
                diffs.append((rel, f'content differs (len {len(data)} '
                                   f'expected {len(e["data"])})'))
        elif e['kind'] == 'f' and e['old'] and rel in extras:
            if data != extras[rel][1]:
                diffs.append((rel, 'old content changed'))
        if e['perm']:
            want = src_attr['mode'](e['perm'], e['kind'])
            if mode != want:
                diffs.append((rel, f'mode {mode:o} expected {want:o}'))
        elif rel not in extras and mode != DEF_MODES[e['kind']]:
            diffs.append((rel, f'mode {mode:o} expected default'))
        if e['tm']:
            if mtime != mtime_of(e['tm']):
                diffs.append((rel, f'mtime {mtime} expected '
                                   f'{mtime_of(e["tm"])}'))
            if real[rel][4] != atime_of(e['tm']):
                diffs.append((rel, f'atime {real[rel][4]} expected '
                                   f'{atime_of(e["tm"])}'))
        elif mtime < NOW_FLOOR and rel not in extras:
            diffs.append((rel, f'mtime {mtime} was preserved unexpectedly'))
    return diffs


def classify_error(exc, node_by_name):
    """what an exception given to the caller is about: node id, DST, CONN,
    CRASH or '?'"""
    if isinstance(exc, asyncssh.SFTPConnectionLost):
        return CONN
    if isinstance(exc, (BrokenPipeError, asyncssh.DisconnectError,
                        asyncssh.ChannelOpenError, ConnectionError)):
        return CONN
    if not isinstance(exc, (asyncssh.SFTPError, OSError)):
        return CRASH
    if isinstance(exc, OSError) and not isinstance(exc, asyncssh.Error):
        fn = exc.filename
        if isinstance(fn, bytes):
            fn = fn.decode('utf-8', 'replace')
        msg = f'{exc.strerror}: {fn}'
    else:
        msg = str(exc)
        if isinstance(msg, bytes):
            msg = msg.decode('utf-8', 'replace')
    hits = re.findall(r'zq\d+|src#\d+', msg)
    if hits:
        return node_by_name.get(hits[-1], '?')
    if 'refused DST' in msg:
        return DST
    if 'refused: dst' in msg:
        return node_by_name.get('dst', '?')
    return '?'


def exc_text(exc):
    return None if exc is None else f'{type(exc).__name__}: {exc}'[:200]


# --------------------------------------------------------------------------
# (a) tree cases
# --------------------------------------------------------------------------

MODES = {
    # mode: (area of source tree, area of destination, party that is the caller)
    'upload': ('L', 'A', 'src'),
    'download': ('A', 'L', 'snk'),
    'r2r': ('A', 'B', 'cop'),
}


def materialisable(mode, cfg):
    """Can every refusal of this case be produced in this mode?"""
    nodes = tree_nodes(cfg)
    tops = [n for n in nodes if nodes[n]['par'] == 0]
    if cfg['mustdir'] and len(tops) < 2:
        return False            # scp() sets -d iff several source paths
    src_srv = mode != 'upload'
    snk_srv = mode != 'download'
    for n in nodes:
        r = ref_of(cfg, n)
        if r == 'sread' and not src_srv and nodes[n]['size'] < 2:
            return False        # local file: only truncation in flight
        if r in ('kwrite', 'kstat') and not snk_srv:
            return False
        if r == 'kcreate' and not snk_srv and cfg['dst'] != 'dir':
            return False        # only a conflicting entry can refuse locally
        if r in ('kcreate', 'kwrite', 'kstat') and cfg['dst'] != 'dir' and \
                len(tops) > 1 and nodes[n]['par'] == 0:
            return False        # refusal by name: the name would be the target's
    return True


def build_source(w, mode, cfg, deco):
    """Create the source tree; returns (names, srcpaths relative spec)"""
    nodes = tree_nodes(cfg)
    area = w.area(MODES[mode][0])
    src = os.path.join(area, 'src')
    os.makedirs(src)
    names = {}
    tops = [n for n in nodes if nodes[n]['par'] == 0]
    use_glob = (len(tops) > 1 and not cfg['mustdir']) or \
        (len(tops) == 1 and deco.d.get('glob'))
    if use_glob:
        names.update(ordered_names(src, tops))
    else:
        names.update({n: name_of(n) for n in tops})
    real = {}

    def make(n, parent_dir):
        nd = nodes[n]
        p = os.path.join(parent_dir, names[n])
        real[n] = p
        r = ref_of(cfg, n)
        if nd['kd'] == 'd':
            os.mkdir(p)
            kids = [m for m in nodes if nodes[m]['par'] == n]
            names.update(ordered_names(p, kids))
            for m in kids:
                make(m, p)
        elif r == 'sopen' and mode == 'upload':
            os.mkfifo(p)            # 'Not a regular file'
        else:
            with open(p, 'wb') as f:
                f.write(content(n, deco.nbytes(n, nd['size'])))
    for n in tops:
        make(n, src)
    # check the listing order really is the walk order
    for n in nodes:
        if nodes[n]['kd'] == 'd':
            kids = [names[m] for m in nodes if nodes[m]['par'] == n]
            if [e for e in os.listdir(real[n])] != kids:
                raise RuntimeError(f'listing order {os.listdir(real[n])} is '
                                   f'not {kids}')
    if use_glob and [e for e in os.listdir(src)] != [names[n] for n in tops]:
        raise RuntimeError('listing order of src differs')
    # attributes last (children first so that directory times stay)
    for n in sorted(nodes, reverse=True):
        p = real[n]
        if not statmod.S_ISFIFO(os.lstat(p).st_mode):
            os.chmod(p, mode_of(n, nodes[n]['kd']))
        os.utime(p, (atime_of(n), mtime_of(n)))
    return names, real, tops, use_glob


def build_dest(w, mode, cfg, deco, names):
    """Create the destination and the conflicting / pre-existing entries.
    returns (dst real path, extras {relpath: (kind, data)})"""
    nodes = tree_nodes(cfg)
    area = w.area(MODES[mode][1])
    dst = os.path.join(area, 'dst')
    extras = {}
    if cfg['dst'] == 'dir':
        os.mkdir(dst)
    elif cfg['dst'] == 'file':
        with open(dst, 'wb') as f:
            f.write(b'old target content, longer than any file ' * 40)
        extras[''] = ('f', open(dst, 'rb').read())
    snk_srv = mode != 'download'

    def relpath(n):
        return '/'.join(names[i] for i in exp_path(cfg, nodes, n))

    def ensure_parents(rel):
        parts = rel.split('/')[:-1]
        cur = dst
        acc = []
        for part in parts:
            cur = os.path.join(cur, part)
            acc.append(part)
            if not os.path.isdir(cur):
                os.mkdir(cur)
                extras['/'.join(acc)] = ('d', None)

    for n in nodes:
        r = ref_of(cfg, n)
        if r != 'kcreate':
            continue
        if any(ref_of(cfg, a) == 'kcreate' for a in ancestors(nodes, n)):
            continue            # never attempted: its directory is refused
        can_conflict = cfg['dst'] == 'dir'
        if can_conflict and (not snk_srv or deco.d.get('conflict')):
            rel = relpath(n)
            ensure_parents(rel)
            p = os.path.join(dst, rel)
            if nodes[n]['kd'] == 'f':
                os.mkdir(p)
                extras[rel] = ('d', None)
            else:
                with open(p, 'wb') as f:
                    f.write(b'in the way')
                extras[rel] = ('f', b'in the way')
        elif snk_srv:
            w.refuse.setdefault('kcreate', set()).add(
                names[n] if exp_path(cfg, nodes, n) else 'dst')
        else:
            return None, None
    # decoration: entries of the right kind that are already there
    if cfg['dst'] == 'dir':
        for n in nodes:
            if not deco.d['pre'].get(str(n)) or ref_of(cfg, n) == 'kcreate':
                continue
            rel = relpath(n)
            p = os.path.join(dst, rel)
            if os.path.lexists(p) or \
                    not os.path.isdir(os.path.dirname(p)):
                continue
            if any(ref_of(cfg, a) == 'kcreate' for a in ancestors(nodes, n)):
                continue
            if nodes[n]['kd'] == 'f':
                old = b'stale ' * min(
                    900, 20 + deco.nbytes(n, nodes[n]['size']) // 6)
                with open(p, 'wb') as f:
                    f.write(old)
                extras[rel] = ('f', old)
            else:
                os.mkdir(p)
                extras[rel] = ('d', None)
    return dst, extras


def run_tree_case(mode, final, deco, label=''):
    """Run one code<->code case.  final: the TLC terminal state (Final)."""
    w = world()
    cfg = final['cfg']
    nodes = tree_nodes(cfg)
    res = {'mode': mode, 'cfg': cfg, 'deco': deco.d, 'violations': [],
           'divergences': [], 'skipped': None}
    w.reset()
    try:
        names, real, tops, use_glob = build_source(w, mode, cfg, deco)
    except RuntimeError as exc:
        res['skipped'] = str(exc)
        return res
    dst, extras = build_dest(w, mode, cfg, deco, names)
    if dst is None:
        res['skipped'] = 'refusal cannot be materialised'
        return res
    node_by_name = {v: k for k, v in names.items()}
    if cfg['dst'] != 'dir' and len(tops) == 1:
        node_by_name['dst'] = tops[0]
    src_srv, snk_srv = mode != 'upload', mode != 'download'
    trunc = {}
    for n in nodes:
        r = ref_of(cfg, n)
        nd = nodes[n]
        if r == 'sopen' and src_srv:
            w.refuse.setdefault('sopen', set()).add(names[n])
        elif r == 'sread':
            lim = deco.block(n, nd['size'], nd['size'])[0]
            if src_srv:
                w.refuse.setdefault('sread', {})[names[n]] = lim
            else:
                trunc[real[n].encode()] = lim
        elif r in ('kwrite', 'kstat'):
            w.refuse.setdefault(r, set()).add(
                names[n] if exp_path(cfg, nodes, n) else 'dst')

    def progress(srcpath, dstpath, offset, size):
        lim = trunc.get(srcpath)
        if lim is not None and lim <= offset < size:
            os.truncate(srcpath, lim)

    errs = []
    handler = errs.append if cfg['handler'] else None
    sarea, darea, _caller = MODES[mode]
    sconn = None if sarea == 'L' else w.conn[sarea]
    dconn = None if darea == 'L' else w.conn[darea]

    def spath(p):
        if sconn is None:
            return p
        return (sconn, os.path.relpath(p, w.area(sarea)))
    if use_glob:
        srcs = spath(os.path.join(w.area(sarea), 'src', '*'))
    elif len(tops) > 1:
        srcs = [spath(real[n]) for n in tops]
    else:
        srcs = spath(real[tops[0]])
    dest = dst if dconn is None else (dconn, 'dst')
    unit = deco.d['unit']
    kw = {}
    if trunc:
        kw['progress_handler'] = progress
    coro = asyncssh.scp(srcs, dest, preserve=cfg['pres'], recurse=cfg['rec'],
                        block_size=unit, error_handler=handler, **kw)
    raised = None
    hang = False
    try:
        w.loop.run_until_complete(coro)
    except Deadlock:
        hang = True
    except Exception as exc:            # pylint: disable=broad-except
        raised = exc
    try:
        w.loop.run_until_idle()
    except BaseException:               # pylint: disable=broad-except
        pass
    loop_exc = [str(c.get('exception') or c.get('message'))[:200]
                for c in w.loop.exceptions]
    w.loop.exceptions.clear()
    if hang or loop_exc:
        w.heal()
    res.update(raised=exc_text(raised), errors=[exc_text(e) for e in errs],
               hang=hang, loop_exceptions=loop_exc)

    # ---- what the model says ----
    party = {'upload': 's', 'download': 'k', 'r2r': 'c'}[mode]
    m_rep = as_set(final[party + 'rep'])
    m_raised = final[party + 'raised']
    refused = as_set(final['refused'])
    exp = expected_tree(final['fs'], names, deco)
    snap = snapshot(dst)
    src_attr = {'mode': lambda tag, kind: mode_of(tag, kind)}
    diffs = compare_tree(exp, snap, extras, src_attr)
    res['diffs'] = diffs[:6]
    res['refused'] = sorted(refused)

    V, Dv = res['violations'], res['divergences']
    if hang:
        V.append(('Terminates', 'the copy never ends (event loop idle)'))
        return res
    for e in loop_exc:
        V.append(('LoopException', f'exception reached the event loop: {e}'))
    r_rep = [classify_error(e, node_by_name) for e in errs]
    r_raised = None if raised is None else classify_error(raised,
                                                          node_by_name)
    res['reported'] = [r_rep, r_raised]
    if r_raised == CRASH:
        V.append(('RefusalsReported',
                  f'a non-SCP exception reached the caller: '
                  f'{exc_text(raised)}'))
        return res
    if r_raised == CONN:
        V.append(('RefusalsReported',
                  f'nothing cut the connection but the caller got '
                  f'{exc_text(raised)}'))
        return res
    wellformed = len(tops) == 1 or cfg['dst'] == 'dir'
    if not refused:
        # TreeReproduced
        if raised is not None or errs:
            V.append(('TreeReproduced',
                      f'nothing was refused but the caller got '
                      f'{exc_text(raised) or res["errors"]}'))
        elif diffs and wellformed:
            V.append(('TreeReproduced', f'destination differs from the '
                                        f'source: {diffs[:4]}'))
        elif diffs:
            Dv.append(f'tree differs from the model: {diffs[:4]}')
        return res
    # RefusalsReported
    if raised is None and not errs:
        V.append(('RefusalsReported',
                  f'items {sorted(refused)} were refused but the caller was '
                  f'told nothing'))
    elif not cfg['handler'] and raised is not None and m_raised != 0 and \
            r_raised not in ('?', m_raised) and m_raised in refused:
        V.append(('RefusalsReported',
                  f'item {m_raised} was refused first but the caller was '
                  f'only told {exc_text(raised)}'))
    elif cfg['handler'] and raised is not None and r_raised != CONN and \
            m_raised == 0:
        V.append(('RefusalsReported',
                  f'a warning ended a transfer that has an error_handler: '
                  f'{exc_text(raised)}'))
    elif cfg['handler'] and raised is None:
        known = {r for r in r_rep if r != '?'}
        wild = sum(1 for r in r_rep if r == '?')
        missing = refused - known
        if m_raised == 0 and len(missing) > wild:
            V.append(('RefusalsReported',
                      f'refused {sorted(refused)} but reported only '
                      f'{r_rep}'))
    # arrival of what was not refused
    if wellformed and m_raised == 0 and raised is None and \
            DST not in refused:
        bad = []
        for n in nodes:
            if n in refused or set(ancestors(nodes, n)) & refused:
                continue
            rel = '/'.join(names[i] for i in exp_path(cfg, nodes, n))
            bad += [d for d in diffs if d[0] == rel]
        if bad:
            V.append(('RefusalsReported',
                      f'items that were not refused did not arrive intact: '
                      f'{bad[:4]} (refused: {sorted(refused)})'))
    if V:
        return res
    # ---- conformance with the model (divergences) ----
    if diffs:
        Dv.append(f'tree differs from the model: {diffs[:4]}')
    if m_raised == 0:
        if raised is not None:
            Dv.append(f'model: no exception; real: {exc_text(raised)}')
        else:
            known = {r for r in r_rep if r != '?'}
            if not known <= m_rep or \
                    len(m_rep - known) > sum(1 for r in r_rep if r == '?'):
                Dv.append(f'reported {r_rep}, model {sorted(m_rep)}')
    else:
        if raised is None:
            Dv.append(f'model raises about {m_raised}; real returned, '
                      f'errors {res["errors"]}')
        elif r_raised not in ('?', m_raised):
            Dv.append(f'model raises about {m_raised}; real: '
                      f'{exc_text(raised)}')
    return res


# --------------------------------------------------------------------------
# (b) scripts: one side is the hand-written peer
# --------------------------------------------------------------------------

SETUPS = {
    # name: (free party, real side is server?, real side role)
    'srv_sink': ('src', True),       # scripted client source -> real server sink
    'srv_source': ('snk', True),     # real server source -> scripted client sink
    'cli_sink': ('src', False),      # scripted server source -> asyncssh.scp() sink
    'cli_source': ('snk', False),    # asyncssh.scp() source -> scripted server sink
}


def _enc_free(tok, free, deco, sizes, cur):
    """bytes the free peer writes for token tok"""
    t, n, z = tok['t'], tok['n'], tok['z']
    if t == 'ok':
        return b'\0'
    if t == 'warn':
        what = 'DST' if n == DST else name_of(n)
        return f'\x01scp: refused {what}\n'.encode()
    if t == 'fatal':
        what = 'DST' if n == DST else name_of(n)
        return f'\x02scp: refused {what}\n'.encode()
    if t == 'T':
        return f'T{mtime_of(n)} 0 {atime_of(n)} 0\n'.encode()
    if t == 'C':
        sizes[n] = z
        cur['n'], cur['size'] = n, z
        return (f'C{mode_of(n, "f"):04o} {deco.nbytes(n, z)} '
                f'{name_of(n)}\n').encode()
    if t == 'D':
        return f'D{mode_of(n, "d"):04o} 0 {name_of(n)}\n'.encode()
    if t == 'E':
        return b'E\n'
    if t == 'W':
        return f'\x01scp: trouble with src#{n}\n'.encode()
    if t == 'F':
        return f'\x02scp: trouble with src#{n}\n'.encode()
    if t == 'data':
        lo, hi = deco.block(n, cur['size'], z)
        return content(n, deco.nbytes(n, cur['size']))[lo:hi]
    if t == 'st':
        return b'\0' if z == 1 else \
            f'\x01scp: trouble with src#{n}\n'.encode()
    raise ValueError(t)


async def _quiesce():
    # virtual time: the clock only moves when nothing else can run
    await asyncio.sleep(0.001)


def _pending(rd):
    try:
        buf = rd._session._recv_buf[rd._datatype]
        return sum(len(x) for x in buf if isinstance(x, (bytes, str)))
    except Exception:                   # pylint: disable=broad-except
        return 0


async def _read_exact(rd, n):
    buf = b''
    while len(buf) < n:
        d = await rd.read(n - len(buf))
        if not d:
            break
        buf += d
    return buf


async def play(rd, wr, log, free, deco, cfg, closer, cutter, obs):
    """Play the free party's part of `log`; record in obs what the real side
    sent where the model says the code side writes."""
    sizes = {}
    cur = {'n': 0, 'size': 0}
    code_cur = {'n': 0, 'size': 0}
    nodes = tree_nodes(cfg) if cfg['tree'] else {}
    i = 0
    n_log = len(log)
    obs['wire'] = []
    obs['early'] = None
    obs['ended'] = 'script done'
    while i < n_log:
        who, chan, tok = log[i]
        i += 1
        if who == 'env':                # the connection is lost
            await _quiesce()
            cutter()
            obs['ended'] = 'cut'
            return
        if who == free:
            await _quiesce()
            # a peer that is about to answer (or to send the next request)
            # must find nothing it did not ask for; a peer that just leaves
            # may leave unread bytes behind
            if obs['early'] is None and chan != 'quit' and _pending(rd):
                obs['early'] = (i, _pending(rd))
            if chan == 'quit':
                closer()
                obs['ended'] = 'quit'
                return
            try:
                wr.write(_enc_free(tok, free, deco, sizes, cur))
            except (BrokenPipeError, OSError):
                obs['ended'] = 'write failed'
                return
            continue
        # the code side writes: read what the real side really sends
        t = tok['t']
        if t in ('ok', 'warn', 'fatal', 'st'):
            b = await rd.read(1)
            if not b:
                obs['wire'].append((i, t, 'EOF'))
                obs['ended'] = 'eof'
                return
            if b == b'\0':
                got = 'ok'
            else:
                line = await rd.readline()
                got = {b'\x01': 'warn', b'\x02': 'fatal'}.get(b, 'junk')
                obs.setdefault('texts', []).append(
                    (b + line)[:120].decode('utf-8', 'replace'))
            want = t if t != 'st' else ('ok' if tok['z'] == 1 else 'warn')
            obs['wire'].append((i, want, got))
            if got != want:
                obs['ended'] = 'mismatch'
                return
        elif t == 'data':
            n = tok['n']
            nd = nodes.get(n, {'size': code_cur['size']})
            if tok['z'] == 0:
                # junk block: length of the block that could not be read
                j = code_cur.get('blk', 0) + 1
            else:
                j = tok['z']
            code_cur['blk'] = j
            lo, hi = deco.block(n, nd['size'], j)
            data = await _read_exact(rd, hi - lo)
            if len(data) < hi - lo:
                obs['wire'].append((i, 'data', f'EOF after {len(data)}'))
                obs['ended'] = 'eof'
                return
            ok = tok['z'] == 0 or \
                data == content(n, deco.nbytes(n, nd['size']))[lo:hi]
            obs['wire'].append((i, 'data', 'data' if ok else 'wrong bytes'))
            if not ok:
                obs['ended'] = 'mismatch'
                return
        else:
            line = await rd.readline()
            if not line:
                obs['wire'].append((i, t, 'EOF'))
                obs['ended'] = 'eof'
                return
            got = _parse_record(line)
            want = _want_record(tok, nodes, deco, obs)
            if tok['t'] == 'C':
                code_cur.update(n=tok['n'], size=tok['z'], blk=0)
            # (the source repeats an error record once per enclosing level
            # when the exception travels up: exact duplicates are skipped)
            while line and got[0] in 'WF' and got == obs.get('last_rec'):
                line = await rd.readline()
                got = _parse_record(line) if line else got
            obs['last_rec'] = got
            if not line:
                obs['wire'].append((i, t, 'EOF'))
                obs['ended'] = 'eof'
                return
            obs['wire'].append((i, want, got))
            if not _rec_eq(want, got):
                obs['ended'] = 'mismatch'
                return
    # script over: whatever else the real side sends
    await _quiesce()
    obs['ended'] = 'script done'


def _parse_record(line):
    a = line[:1]
    body = line[1:].rstrip(b'\n').decode('utf-8', 'replace')
    if a == b'\x01':
        return ('W', body)
    if a == b'\x02':
        return ('F', body)
    if a in (b'C', b'D'):
        parts = body.split(' ', 2)
        if len(parts) == 3:
            return (a.decode(), parts[0], parts[1], parts[2])
    if a == b'T':
        return ('T', body)
    if a == b'E':
        return ('E', body)
    return ('?', line[:40].decode('latin-1'))


def _want_record(tok, nodes, deco, obs):
    t, n, z = tok['t'], tok['n'], tok['z']
    names = obs['names']
    if t == 'C':
        return ('C', f'{mode_of(n, "f"):04o}', str(deco.nbytes(n, z)),
                names[n])
    if t == 'D':
        return ('D', f'{mode_of(n, "d"):04o}', '0', names[n])
    if t == 'T':
        return ('T', f'{mtime_of(n)} 0 {atime_of(n)} 0')
    if t == 'E':
        return ('E', '')
    return (t, names.get(n, ''))


def _rec_eq(want, got):
    if want[0] != got[0]:
        return False
    if want[0] in 'WF':
        return want[1] in got[1] if want[1] else True
    return tuple(want) == tuple(got)


def run_script(setup, log, final, deco, label=''):
    """Replay one behaviour with a free peer."""
    w = world()
    cfg = final['cfg']
    free, real_is_server = SETUPS[setup]
    real_role = 'snk' if free == 'src' else 'src'
    res = {'setup': setup, 'cfg': cfg, 'deco': deco.d, 'violations': [],
           'divergences': [], 'skipped': None}
    w.reset()
    nodes = tree_nodes(cfg) if cfg['tree'] else {}
    obs = {'names': {}}
    extras = {}
    flags = ('-d ' if cfg['mustdir'] else '') + \
        ('-p ' if cfg['pres'] else '') + ('-r ' if cfg['rec'] else '')
    real_area = 'A' if real_is_server else 'L'
    # ---- file system of the real side ----
    if real_role == 'src':
        mode = 'download' if real_is_server else 'upload'
        names, real, tops, use_glob = build_source(w, mode, cfg, deco)
        obs['names'] = names
        for n in nodes:
            r = ref_of(cfg, n)
            if r == 'sopen' and real_is_server:
                w.refuse.setdefault('sopen', set()).add(names[n])
            elif r == 'sread':
                nd = nodes[n]
                lim = deco.block(n, nd['size'], nd['size'])[0]
                if real_is_server:
                    w.refuse.setdefault('sread', {})[names[n]] = lim
                elif nd['size'] < 2:
                    res['skipped'] = 'sread on a local one-block file'
                    return res
        node_by_name = {v: k for k, v in names.items()}
        dst = None
    else:
        names = {i: name_of(i) for i in range(1, 10)}
        obs['names'] = names
        node_by_name = {v: k for k, v in names.items()}
        node_by_name.update({f'src#{i}': i for i in range(800, 830)})
        dst = os.path.join(w.area(real_area), 'dst')
        if cfg['dst'] == 'dir':
            os.mkdir(dst)
        elif cfg['dst'] == 'file':
            with open(dst, 'wb') as f:
                f.write(b'old target content, longer than any file ' * 40)
            extras[''] = ('f', open(dst, 'rb').read())
        for i, r in enumerate(cfg['ref'] if isinstance(cfg['ref'], list)
                              else [], 1):
            if r == 'none':
                continue
            if not real_is_server:
                res['skipped'] = f'{r} on the local file system'
                return res
            if cfg['dst'] != 'dir':
                res['skipped'] = 'refusal by name: the item may be the target'
                return res
            w.refuse.setdefault(r, set()).add(names[i])

    cut_done = []

    def cutter():
        cut_done.append(1)
        tr = w.conn['A' if real_is_server else 'S']._transport
        if tr is not None:
            tr.cut()

    errs = []
    raised = None
    hang = False
    handler = errs.append if cfg['handler'] else None
    unit = deco.d['unit']

    if real_is_server:
        # scripted client; the real side is the server's scp handler
        if real_role == 'src':
            tops_ = [n for n in nodes if nodes[n]['par'] == 0]
            if use_glob:
                arg = 'src/*'
            elif len(tops_) == 1:
                arg = 'src/' + names[tops_[0]]
            else:
                res['skipped'] = 'several exact source paths: one session each'
                return res
            command = f'scp -f {flags}{arg}'
        else:
            command = f'scp -t {flags}dst'

        async def client():
            conn = w.conn['A']
            wr, rd, _ = await conn.open_session(command, encoding=None)

            def closer():
                wr.channel.close()
            await play(rd, wr, log, free, deco, cfg, closer, cutter, obs)
            if obs['ended'] in ('script done', 'mismatch', 'eof'):
                await _quiesce()
                obs['leftover'] = _pending(rd)
                wr.channel.close()
            try:
                await asyncio.wait_for(wr.channel.wait_closed(), 5)
            except (asyncio.TimeoutError, asyncssh.Error, OSError):
                obs['close_timeout'] = True
        try:
            w.loop.run_until_complete(client())
        except Deadlock:
            hang = True
        except (asyncssh.Error, OSError) as exc:
            obs['peer_exc'] = repr(exc)
    else:
        # scripted server process; the real side is asyncssh.scp()
        async def job(rd, wr, process):
            def closer():
                process.exit(0)
            await play(rd, wr, log, free, deco, cfg, closer, cutter, obs)
            if obs['ended'] in ('script done', 'mismatch', 'eof'):
                await _quiesce()
                obs['leftover'] = _pending(rd)
                process.exit(0)
            return obs
        w.job = job
        w.job_fut = w.loop.create_future()
        conn = w.conn['S']
        if real_role == 'src':
            tops_ = [n for n in nodes if nodes[n]['par'] == 0]
            if use_glob:
                srcs = os.path.join(w.area('L'), 'src', '*')
            elif len(tops_) == 1:
                srcs = real[tops_[0]]
            else:
                res['skipped'] = 'several exact source paths: one session each'
                return res
            trunc = {}
            for n in nodes:
                if ref_of(cfg, n) == 'sread':
                    nd = nodes[n]
                    trunc[real[n].encode()] = \
                        deco.block(n, nd['size'], nd['size'])[0]

            def progress(srcpath, dstpath, offset, size):
                lim = trunc.get(srcpath)
                if lim is not None and lim <= offset < size:
                    os.truncate(srcpath, lim)
            kw = {'progress_handler': progress} if trunc else {}
            coro = asyncssh.scp(srcs, (conn, 'dst'), preserve=cfg['pres'],
                                recurse=cfg['rec'], block_size=unit,
                                error_handler=handler, **kw)
        else:
            coro = asyncssh.scp((conn, 'src/x'), dst, preserve=cfg['pres'],
                                recurse=cfg['rec'], block_size=unit,
                                error_handler=handler)
        try:
            w.loop.run_until_complete(coro)
        except Deadlock:
            hang = True
        except Exception as exc:        # pylint: disable=broad-except
            raised = exc
        # let the scripted peer finish its part (virtual time must advance)
        if w.job is None and not hang and not w.job_fut.done():
            try:
                w.loop.run_until_complete(asyncio.wait_for(w.job_fut, 5))
            except (Deadlock, asyncio.TimeoutError):
                obs['peer_stuck'] = True
                for t in asyncio.all_tasks(w.loop):
                    t.cancel()
        w.job = None
    try:
        w.loop.run_until_idle()
    except BaseException:               # pylint: disable=broad-except
        pass
    loop_exc = [str(c.get('exception') or c.get('message'))[:200]
                for c in w.loop.exceptions]
    w.loop.exceptions.clear()
    torn = [name for name, c in w.conn.items() if c.is_closed()]
    if hang or loop_exc or cut_done or torn:
        w.heal()
    res.update(raised=exc_text(raised), errors=[exc_text(e) for e in errs],
               hang=hang, loop_exceptions=loop_exc, ended=obs.get('ended'),
               wire=[x for x in obs.get('wire', [])
                     if x[1] != x[2]][:3], early=obs.get('early'),
               leftover=obs.get('leftover'), texts=obs.get('texts', [])[:4])

    V, Dv = res['violations'], res['divergences']
    if hang:
        V.append(('Terminates', 'the real side never ends (event loop idle)'))
        return res
    for e in loop_exc:
        V.append(('LoopException', f'exception reached the event loop: {e}'))
    if torn and not cut_done:
        V.append(('Crash', f'nothing cut the connection but the SSH '
                           f'connection to {torn} was torn down (internal '
                           f'error in a handler task)'))
        return res
    junk = [x for x in obs.get('wire', []) if x[2] == 'junk']
    if junk:
        V.append(('NoDesync', f'the real side sent a byte that is no status '
                              f'where a status is due: {junk[:1]} '
                              f'{obs.get("texts", [])[-1:]}'))
        return res
    disturbed = bool(final['cut'] or final['quit'])
    refused = as_set(final['refused'])
    party = 's' if real_role == 'src' else 'k'
    m_rep = as_set(final[party + 'rep'])
    m_raised = final[party + 'raised']
    r_rep = [classify_error(e, node_by_name) for e in errs]
    r_raised = None if raised is None else classify_error(raised,
                                                          node_by_name)
    res['reported'] = [r_rep, r_raised]
    if r_raised == CRASH:
        V.append(('RefusalsReported', f'a non-SCP exception reached the '
                                      f'caller: {exc_text(raised)}'))
        return res
    aborted = raised is not None
    if obs.get('early') and not aborted:
        V.append(('NoDesync',
                  f'the real {real_role} sent {obs["early"][1]} bytes before '
                  f'the response it has to await (log position '
                  f'{obs["early"][0]})'))
    if obs.get('leftover') and not aborted and \
            obs.get('ended') in ('script done', 'mismatch'):
        V.append(('NoDesync',
                  f'the real {real_role} sent {obs["leftover"]} bytes that '
                  f'answer nothing'))
    mism = [x for x in obs.get('wire', []) if x[1] != x[2] and
            not (isinstance(x[1], tuple) and _rec_eq(x[1], x[2]))]
    # ---- the real sink's tree ----
    diffs = []
    if real_role == 'snk':
        exp = expected_tree(final['fs'], names, deco)
        snap = snapshot(dst)
        src_attr = {'mode': lambda tag, kind: mode_of(tag, kind)}
        diffs = compare_tree(exp, snap, extras, src_attr)
        res['diffs'] = diffs[:6]
        if diffs and not refused and not disturbed and not mism:
            V.append(('TreeReproduced',
                      f'nothing was refused or cut but the destination is '
                      f'not what was sent: {diffs[:4]}'))
    # ---- what the caller is told ----
    if not real_is_server and not disturbed:
        if refused and raised is None and not errs:
            V.append(('RefusalsReported',
                      f'items {sorted(refused)} were refused but the caller '
                      f'was told nothing'))
        elif not refused and (raised is not None or errs):
            if not mism:
                V.append(('RefusalsReported',
                          f'nothing was refused but the caller got '
                          f'{exc_text(raised) or res["errors"]}'))
    if not real_is_server and final.get('fatal') and m_raised != 0 and \
            raised is None:
        V.append(('FatalRaised',
                  f'the peer reported a fatal error but asyncssh.scp() '
                  f'returned normally (error_handler got {res["errors"]})'))
    if not real_is_server and disturbed and m_raised == CONN and \
            raised is None and not errs:
        V.append(('RefusalsReported',
                  'the peer went away in the middle of the transfer but the '
                  'caller was told nothing'))
    if V:
        return res
    # ---- conformance ----
    if mism:
        Dv.append(f'wire: model/real differ at {mism[:2]} '
                  f'(texts {obs.get("texts", [])[:2]})')
    elif obs.get('ended') == 'script done' or real_role == 'snk':
        if diffs:
            Dv.append(f'tree differs from the model: {diffs[:4]}')
    if not real_is_server and not mism:
        if m_raised == 0 and raised is not None:
            Dv.append(f'model: no exception; real: {exc_text(raised)}')
        elif m_raised != 0 and raised is None:
            Dv.append(f'model raises about {m_raised}; real returned '
                      f'(errors {res["errors"]})')
        elif m_raised != 0 and r_raised not in ('?', m_raised):
            Dv.append(f'model raises about {m_raised}; real: '
                      f'{exc_text(raised)}')
        elif m_raised == 0:
            known = {r for r in r_rep if r != '?'}
            wild = sum(1 for r in r_rep if r == '?')
            if not known <= m_rep or len(m_rep - known) > wild:
                Dv.append(f'reported {r_rep}, model {sorted(m_rep)}')
    return res
