"""Driver for specs/TrustFiles: turns the case lines printed by TLC into real
known_hosts / authorized_keys data (real ed25519 keys, real HMAC-SHA1 hashed
names, really damaged key blobs), runs them through the public asyncssh API
and reports what the API returned in the vocabulary of the specification.

Nothing here decides a verdict: checks/c17.py compares `observed` with the
specification's prediction.
"""

import base64
import hashlib
import hmac
import json
import os
import re
import subprocess

import asyncssh
from asyncssh.packet import MPInt, String

# --------------------------------------------------------------------------
# TLC output -> Python values
# --------------------------------------------------------------------------

def records(output):
    """PrintT values in a TLC log.  A value starts on a line beginning with
    '<<' and (when TLC wraps it) continues on indented lines.  Only tuples,
    strings and integers are emitted by the spec, so after replacing the
    tuple brackets the text is JSON."""
    out = []
    cur = None
    for line in output.splitlines():
        if line.startswith('<<'):
            if cur is not None:
                out.append(cur)
            cur = [line]
        elif cur is not None and line[:1] in (' ', '\t'):
            cur.append(line.strip())
        else:
            if cur is not None:
                out.append(cur)
            cur = None
    if cur is not None:
        out.append(cur)
    vals = []
    for parts in out:
        text = ' '.join(parts).replace('<<', '[').replace('>>', ']')
        try:
            vals.append(json.loads(text))
        except ValueError:
            pass
    return vals


def S(chars):
    return ''.join(chars)


def put(path, text):
    """Overwrite in place (O_TRUNC on a non-empty ext4 file is slow here)."""
    data = text.encode()
    fd = os.open(path, os.O_WRONLY | os.O_CREAT, 0o600)
    try:
        os.pwrite(fd, data, 0)
        os.ftruncate(fd, len(data))
    finally:
        os.close(fd)


# --------------------------------------------------------------------------
# keys
# --------------------------------------------------------------------------

_k = {}

# real ed25519 public keys standing for the key ids (generated once, fixed so
# that replay files stay meaningful)
_PUB = {
    'k1': 'ssh-ed25519 AAAAC3NzaC1lZDI1NTE5AAAAIHRetSVTYTVVaOmnDzz5kSn9yZiUxCqpVr2ahfupM6Ay',
    'k2': 'ssh-ed25519 AAAAC3NzaC1lZDI1NTE5AAAAIIoJ7ftdUYkpTTM2aqsSzSynQiBMFjUVy3D2XPra08K4',
    'k3': 'ssh-ed25519 AAAAC3NzaC1lZDI1NTE5AAAAIDlj5l7LQMzH7xjecffStZVUEhY+Wux97Qa+wecf0NBB',
}


def keys():
    """Real keys standing for the key ids of the specification."""
    if not _k:
        for kid, text in _PUB.items():
            _k[kid] = (asyncssh.import_public_key(text), text)
        _k['by_data'] = {v[0].public_data: k for k, v in _k.items()}
    return _k


def key_text(kid):
    return keys()[kid][1]


def key_id(key):
    return keys()['by_data'].get(key.public_data, '?')


def _line(alg, blob):
    return alg + ' ' + base64.b64encode(blob).decode()


def damaged_keys():
    """class -> text of a key field that cannot be a key."""
    ed = key_text('k3').split()
    blob = base64.b64decode(ed[1])
    p256 = 'ecdsa-sha2-nistp256'
    big = (1 << 2047) + 12345
    d = {
        'bad_base64':        'ssh-ed25519 AAAA!!!*',
        'bad_base64_pad':    'ssh-ed25519 ' + ed[1][:-1],
        'truncated_blob':    _line('ssh-ed25519', blob[:-5]),
        'unknown_algorithm': 'ssh-foo ' + ed[1],
        'inner_unknown_alg': _line('ssh-ed25519', String('ssh-foo') +
                                   String(b'x' * 32)),
        'algorithm_mismatch': _line('ssh-rsa', blob),
        'trailing_bytes':    _line('ssh-ed25519', blob + b'\0\0'),
        'ed25519_wrong_len': _line('ssh-ed25519', String('ssh-ed25519') +
                                   String(b'x' * 31)),
        'ed448_wrong_len':   _line('ssh-ed448', String('ssh-ed448') +
                                   String(b'x' * 10)),
        'rsa_n_zero':        _line('ssh-rsa', String('ssh-rsa') +
                                   MPInt(65537) + MPInt(0)),
        'rsa_n_negative':    _line('ssh-rsa', String('ssh-rsa') +
                                   MPInt(65537) + MPInt(-big)),
        'rsa_e_zero':        _line('ssh-rsa', String('ssh-rsa') + MPInt(0) +
                                   MPInt(big)),
        'ec_point_off_curve': _line(p256, String(p256) + String('nistp256') +
                                    String(b'\x04' + b'\x01' * 64)),
        'ec_point_empty':    _line(p256, String(p256) + String('nistp256') +
                                   String(b'')),
        'ec_curve_mismatch': _line(p256, String(p256) + String('nistp384') +
                                   String(b'\x04' + b'\x01' * 64)),
        'dsa_wrong_sizes':   _line('ssh-dss', String('ssh-dss') + MPInt(23) +
                                   MPInt(11) + MPInt(2) + MPInt(4)),
        'dsa_zero':          _line('ssh-dss', String('ssh-dss') + MPInt(0) +
                                   MPInt(0) + MPInt(0) + MPInt(0)),
        'sk_ed25519_wrong_len': _line(
            'sk-ssh-ed25519@openssh.com',
            String('sk-ssh-ed25519@openssh.com') + String(b'x' * 31) +
            String('ssh:')),
        'sk_ecdsa_point_off_curve': _line(
            'sk-ecdsa-sha2-nistp256@openssh.com',
            String('sk-ecdsa-sha2-nistp256@openssh.com') +
            String('nistp256') + String(b'\x04' + b'\x01' * 64) +
            String('ssh:')),
    }
    return d


DAMAGE = None


def damage_classes():
    global DAMAGE
    if DAMAGE is None:
        DAMAGE = damaged_keys()
    return DAMAGE


# --------------------------------------------------------------------------
# menus (printed by the specification)
# --------------------------------------------------------------------------

class Menu:
    def __init__(self, rec):
        assert rec[0] == 'menu'
        self.hf = rec[1]
        self.markers = rec[2]
        self.keys = rec[3]
        self.queries = rec[4]
        self.opts = [S(x) for x in rec[5]]
        self.akkeys = rec[6]
        self.princ = rec[7]

    def hostfield(self, i, salt_variant=0):
        h = self.hf[i - 1]
        if h[0] == 'l':
            return S(h[1])
        name = S(h[1])
        salt = hashlib.sha1(f'salt{h[2]}/{salt_variant}'.encode()).digest()
        mac = hmac.new(salt, name.encode(), hashlib.sha1).digest()
        return '|1|%s|%s' % (base64.b64encode(salt).decode(),
                             base64.b64encode(mac).decode())

    def hf_has_address(self, i):
        h = self.hf[i - 1]
        return '10.0.0.' in S(h[1])

    def query(self, qi):
        host, addr, port, _kind = self.queries[qi - 1]
        return (S(host), S(addr), None if port == 0 else port)

    def host_kind(self, qi):
        """'n' name, 'ip' literal, 'br' bracketed literal"""
        return self.queries[qi - 1][3]


# --------------------------------------------------------------------------
# known_hosts
# --------------------------------------------------------------------------

def kh_text(menu, file, dmg_class=None, salt_variant=0):
    lines = []
    for hfi, mi, ki in file:
        marker = menu.markers[mi - 1]
        kid = menu.keys[ki - 1]
        kt = damage_classes()[dmg_class] if kid == 'D' else key_text(kid)
        lines.append((('@' + marker + ' ') if marker else '') +
                     menu.hostfield(hfi, salt_variant) + ' ' + kt)
    return '\n'.join(lines) + '\n'


def kh_run(text, query, api, workdir=None):
    """-> ('ok', (host ids, ca ids, revoked ids), extra lists non-empty?) or
    ('exc', exception type name, message)."""
    host, addr, port = query
    try:
        if api == 'bytes':
            r = asyncssh.match_known_hosts(text.encode(), host, addr, port)
        elif api == 'object':
            r = asyncssh.import_known_hosts(text).match(host, addr, port)
        elif api == 'file':
            path = os.path.join(workdir, 'known_hosts')
            put(path, text)
            r = asyncssh.match_known_hosts(path, host, addr, port)
        else:
            path = os.path.join(workdir, 'known_hosts')
            put(path, text)
            r = asyncssh.read_known_hosts([path]).match(host, addr, port)
    except Exception as exc:            # pylint: disable=broad-except
        return ('exc', type(exc).__name__, str(exc)[:120])
    ids = tuple([key_id(k) for k in lst] for lst in r[:3])
    extra = any(len(x) for x in r[3:])
    return ('ok', ids, extra)


_RE_FOUND = re.compile(r'^# Host \S+ found: line (\d+)', re.M)


def ssh_keygen_lines(text, name, workdir, tag):
    """Line numbers `ssh-keygen -F name` selects (None if it failed)."""
    path = os.path.join(workdir, f'kh_{tag}')
    with open(path, 'w') as f:
        f.write(text)
    try:
        p = subprocess.run(['ssh-keygen', '-F', name, '-f', path],
                           stdout=subprocess.PIPE, stderr=subprocess.PIPE,
                           timeout=20)
    except (OSError, subprocess.TimeoutExpired):
        return None
    finally:
        try:
            os.remove(path)
        except OSError:
            pass
    if p.returncode not in (0, 1):
        return None
    return sorted(int(x) for x in _RE_FOUND.findall(p.stdout.decode()))


# --------------------------------------------------------------------------
# authorized_keys
# --------------------------------------------------------------------------

def tok_text(s):
    """Option string under test in front of k1, plus an independent k2 line
    so that the file always has a valid entry."""
    return S(s) + ' ' + key_text('k1') + '\n' + key_text('k2') + '\n'


def tok_run(text, api='object', workdir=None):
    try:
        if api == 'object':
            ak = asyncssh.import_authorized_keys(text)
        else:
            path = os.path.join(workdir, 'authorized_keys')
            put(path, text)
            ak = asyncssh.read_authorized_keys(path)
    except Exception as exc:            # pylint: disable=broad-except
        return ('err', type(exc).__name__, str(exc)[:120])
    k = keys()
    other = ak.validate(k['k2'][0], 'a', '10.0.0.4')
    r = ak.validate(k['k1'][0], 'a', '10.0.0.4')
    if r is None:
        return ('skip', other is not None, None)
    return ('ok', other is not None, dict(r))


def ak_text(menu, file, dmg_at=None, dmg_class=None):
    lines = []
    for n, (ki, opts) in enumerate(file):
        o = ','.join(menu.opts[i - 1] for i in opts)
        kt = key_text(menu.akkeys[ki - 1])
        lines.append((o + ' ' if o else '') + kt)
    if dmg_at is not None:
        lines.insert(dmg_at, damage_classes()[dmg_class])
    return '\n'.join(lines) + '\n'


def ak_run(menu, text, q, api='object', workdir=None):
    key, host, addr, princ, ca = q
    try:
        if api == 'object':
            ak = asyncssh.import_authorized_keys(text)
        else:
            path = os.path.join(workdir, 'authorized_keys')
            put(path, text)
            ak = asyncssh.read_authorized_keys([path])
        p = menu.princ[princ - 1]
        principals = None if p == 'none' else [S(x) for x in p]
        r = ak.validate(keys()[menu.akkeys[key - 1]][0],
                        'a' if host == 1 else 'b', f'10.0.0.{addr}',
                        principals, bool(ca))
    except Exception as exc:            # pylint: disable=broad-except
        return ('exc', type(exc).__name__, str(exc)[:120])
    if r is None:
        return ('none',)
    return ('opts', ak_normal(r))


FLAGS = ('no-pty', 'cert-authority', 'no-port-forwarding')


def ak_normal(r):
    """Returned option mapping in the normal form the specification prints."""
    cmd = r.get('command')
    env = r.get('environment', {})
    perm = r.get('permitopen', set())
    return {
        'command': None if cmd is None else cmd,
        'environment': dict(env),
        'permitopen': sorted((h, '*' if p is None else str(p))
                             for h, p in perm),
        'flags': sorted(k for k in r if r[k] is True),
        'nfrom': len(r.get('from', [])),
        'nprinc': len(r.get('principals', [])),
        'other': sorted(k for k in r if k not in
                        ('command', 'environment', 'permitopen', 'from',
                         'principals') and r[k] is not True),
    }


def ak_predicted(pred):
    cmd, env, perm, flags, nfrom, nprinc = pred
    e = {}
    for n, v in env:
        e[S(n)] = S(v)
    return {
        'command': None if cmd[0] == '-' else S(cmd[1:]),
        'environment': e,
        'permitopen': sorted(set((S(h), S(p)) for h, p in perm)),
        'flags': sorted(set(flags)),
        'nfrom': nfrom,
        'nprinc': nprinc,
        'other': [],
    }
