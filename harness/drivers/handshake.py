"""Driver for the Handshake specification (C03).

* an independent codec for the cleartext part of the SSH transport
  (version lines, binary packet framing, KEXINIT, the key exchange messages
  of the DH / ECDH / hybrid / group-exchange / RSA families) -- nothing here
  uses asyncssh.packet;
* a parsing man-in-the-middle for the in-memory network of harness.vloop:
  every write of either end passes through `Mitm.filter`, which names the
  message, applies the edits asked for (keeping the packet well formed:
  lengths and padding are repaired) and records what was sent and what the
  receiver got;
* `run_handshake(...)`: one real client <-> server connection attempt with
  given algorithm lists and edits, and the observable outcome on both sides;
* the mapping from the abstract edits of specs/Handshake to concrete bytes.
"""

import os
import struct

import asyncssh
import asyncssh.connection as _aconn

from harness.vloop import new_loop, close_loop, Deadlock

PORT = 2222

# ---------------------------------------------------------------------------
# wire codec
# ---------------------------------------------------------------------------


class Malformed(Exception):
    pass


def u32(n):
    return struct.pack('>I', n)


def sstr(b):
    return u32(len(b)) + bytes(b)


def mpint(n):
    if n == 0:
        return u32(0)
    ln = (n.bit_length() // 8) + 1 if n > 0 else ((n + 1).bit_length() // 8) + 1
    return sstr(n.to_bytes(ln, 'big', signed=True))


def namelist(names):
    return sstr(b','.join(names))


class Rd:
    def __init__(self, data):
        self.d = bytes(data)
        self.i = 0

    def take(self, n):
        if n < 0 or self.i + n > len(self.d):
            raise Malformed('short')
        v = self.d[self.i:self.i + n]
        self.i += n
        return v

    def byte(self):
        return self.take(1)[0]

    def u32(self):
        return struct.unpack('>I', self.take(4))[0]

    def str(self):
        return self.take(self.u32())

    def mpint(self):
        return int.from_bytes(self.str(), 'big', signed=True)

    def namelist(self):
        s = self.str()
        return s.split(b',') if s else []

    def end(self):
        if self.i != len(self.d):
            raise Malformed('trailing bytes')


def frame(payload, pad=None, block=8):
    """Cleartext binary packet: uint32 len, byte padlen, payload, padding."""
    if pad is None:
        padlen = -(5 + len(payload)) % block
        if padlen < 4:
            padlen += block
        pad = os.urandom(padlen)
    return u32(1 + len(payload) + len(pad)) + bytes([len(pad)]) + payload + pad


def unframe(data):
    """-> (payload, padding); Malformed if `data` is not exactly one packet."""
    if len(data) < 5:
        raise Malformed('short packet')
    pktlen = struct.unpack('>I', data[:4])[0]
    if pktlen + 4 != len(data):
        raise Malformed('length does not delimit this write')
    padlen = data[4]
    if padlen + 1 > pktlen:
        raise Malformed('padding longer than packet')
    return data[5:4 + pktlen - padlen], data[4 + pktlen - padlen:]


def family(kex):
    """Message format family of a key exchange method name."""
    if kex.startswith('diffie-hellman-group-exchange'):
        return 'gex'
    if kex.startswith('diffie-hellman-group'):
        return 'dh'
    if kex.startswith('rsa'):
        return 'rsa'
    return 'ecdh'               # curve25519/448, ecdh-sha2-*, mlkem*, sntrup*


def spec_kextype(kex):
    f = family(kex)
    return 'dh' if f in ('dh', 'ecdh') else f


KEXINIT_FIELDS = [('cookie', 'raw16'), ('kex', 'nl'), ('hostkey', 'nl'),
                  ('enc_cs', 'nl'), ('enc_sc', 'nl'), ('mac_cs', 'nl'),
                  ('mac_sc', 'nl'), ('cmp_cs', 'nl'), ('cmp_sc', 'nl'),
                  ('lang_cs', 'nl'), ('lang_sc', 'nl'), ('ff', 'bool'),
                  ('reserved', 'u32')]

SCHEMA = {
    'KEXINIT': KEXINIT_FIELDS,
    ('dh', 'INIT'): [('e', 'mpint')],
    ('dh', 'REPLY'): [('ks', 'str'), ('f', 'mpint'), ('sig', 'str')],
    ('ecdh', 'INIT'): [('e', 'str')],
    ('ecdh', 'REPLY'): [('ks', 'str'), ('f', 'str'), ('sig', 'str')],
    ('gex', 'GREQ'): [('min', 'u32'), ('n', 'u32'), ('max', 'u32')],
    ('gex', 'GGRP'): [('p', 'mpint'), ('g', 'mpint')],
    ('gex', 'INIT'): [('e', 'mpint')],
    ('gex', 'REPLY'): [('ks', 'str'), ('f', 'mpint'), ('sig', 'str')],
    ('rsa', 'PUBKEY'): [('ks', 'str'), ('kt', 'str')],
    ('rsa', 'SECRET'): [('enc', 'str')],
    ('rsa', 'DONE'): [('sig', 'str')],
    'NEWKEYS': [],
}

# (family, direction, packet type) -> message name
TYPES = {
    ('dh', 'c2s', 30): 'INIT', ('dh', 's2c', 31): 'REPLY',
    ('ecdh', 'c2s', 30): 'INIT', ('ecdh', 's2c', 31): 'REPLY',
    ('gex', 'c2s', 34): 'GREQ', ('gex', 's2c', 31): 'GGRP',
    ('gex', 'c2s', 32): 'INIT', ('gex', 's2c', 33): 'REPLY',
    ('rsa', 's2c', 30): 'PUBKEY', ('rsa', 'c2s', 31): 'SECRET',
    ('rsa', 's2c', 32): 'DONE',
}

_GET = {'raw16': lambda r: r.take(16), 'nl': Rd.namelist, 'bool':
        lambda r: r.byte() != 0, 'u32': Rd.u32, 'str': Rd.str,
        'mpint': Rd.mpint}
class Raw(bytes):
    """A field given as the exact bytes to put on the wire (length prefix
    included): non-canonical encodings."""


def _put(fn):
    return lambda v: bytes(v) if isinstance(v, Raw) else fn(v)


_PUT = {'raw16': _put(bytes), 'nl': _put(namelist),
        'bool': _put(lambda b: bytes([1 if b else 0])),
        'u32': _put(u32), 'str': _put(sstr), 'mpint': _put(mpint)}


def schema_for(fam, name):
    if name in ('IC', 'IS'):
        return SCHEMA['KEXINIT']
    if name in ('NKC', 'NKS'):
        return SCHEMA['NEWKEYS']
    return SCHEMA.get((fam, name))


def parse_fields(schema, payload):
    r = Rd(payload[1:])
    out = {}
    for fname, kind in schema:
        out[fname] = _GET[kind](r)
    r.end()
    return out


def build_payload(ptype, schema, fields):
    return bytes([ptype]) + b''.join(_PUT[kind](fields[fname])
                                     for fname, kind in schema)


def field_spans(schema, payload):
    """[(field name, start, end)] offsets into payload (for byte classes)."""
    r = Rd(payload[1:])
    spans = [('type', 0, 1)]
    for fname, kind in schema:
        a = r.i
        _GET[kind](r)
        spans.append((fname, a + 1, r.i + 1))
    return spans


def recv_version(data, receiver):
    """(version string the receiving side takes from these bytes, unconsumed
    rest), following RFC 4253 4.2: lines end in LF, an optional CR before it
    is dropped; a client skips lines not starting with 'SSH-'.
    (None, rest) = no acceptable version line in these bytes."""
    rest = data
    while True:
        idx = rest.find(b'\n')
        if idx < 0:
            return None, rest
        line, rest = rest[:idx], rest[idx + 1:]
        if line.endswith(b'\r'):
            line = line[:-1]
        if line.startswith(b'SSH-2.0-') or line.startswith(b'SSH-1.99-'):
            return line, rest
        if receiver == 'c' and not line.startswith(b'SSH-'):
            continue
        return None, rest


# ---------------------------------------------------------------------------
# MITM
# ---------------------------------------------------------------------------

FIELDWISE_MSGS = {'INIT', 'REPLY', 'GGRP'}
BOUND_MSGS = {'VC', 'VS', 'IC', 'IS', 'INIT', 'REPLY', 'GREQ', 'GGRP',
              'PUBKEY', 'SECRET', 'DONE'}


class Msg:
    """One cleartext handshake message seen by the MITM."""

    def __init__(self, direction, idx, name, data, fam):
        self.dir = direction
        self.idx = idx
        self.name = name
        self.orig = data
        self.sent = data            # after edits
        self.fam = fam
        self.ptype = None
        self.payload = None
        self.pad = None
        self.fields = None
        self.schema = None
        self.effect = 'none'        # none | harmless | bound | framing
        self.applied = []
        if name not in ('VC', 'VS'):
            self.payload, self.pad = unframe(data)
            self.ptype = self.payload[0]
            self.schema = schema_for(fam, name)
            if self.schema is not None:
                try:
                    self.fields = parse_fields(self.schema, self.payload)
                except Malformed:
                    self.fields = None

    def rebuild(self, fields=None, pad=None):
        f = self.fields if fields is None else fields
        return frame(build_payload(self.ptype, self.schema, f), pad)


def classify(msg):
    """Effect of the edit on what the receiver takes from the message,
    computed with this module's own parser."""
    if msg.sent == msg.orig:
        return 'none'
    if msg.name in ('VC', 'VS'):
        receiver = 's' if msg.name == 'VC' else 'c'
        want, _ = recv_version(msg.orig, receiver)
        got, rest = recv_version(msg.sent, receiver)
        if got is None or got != want:
            return 'bound'          # another / no version string arrives
        # same version: left-over bytes would desynchronise the packets
        return 'harmless' if not rest else 'framing'
    try:
        payload, _ = unframe(msg.sent)
        extra = False
    except Malformed:
        # several packets in place of one (a guessed packet following)?
        try:
            pktlen = struct.unpack('>I', msg.sent[:4])[0]
            payload, _ = unframe(msg.sent[:4 + pktlen])
            rest = msg.sent[4 + pktlen:]
            while rest:
                n = struct.unpack('>I', rest[:4])[0]
                unframe(rest[:4 + n])
                rest = rest[4 + n:]
            extra = True
        except (Malformed, struct.error):
            return 'framing'
    if payload == msg.payload:
        # only the random padding differs / an extra packet was inserted
        return 'framing' if extra else 'harmless'
    if msg.name not in BOUND_MSGS:
        return 'framing'
    if msg.name in ('REPLY', 'DONE') and msg.fields is not None and \
            not extra and payload[:1] == msg.payload[:1]:
        # only the signature differs: it is verified, not hashed
        try:
            got = parse_fields(msg.schema, payload)
            if got['sig'] != msg.fields['sig'] and \
                    all(got[k] == v for k, v in msg.fields.items()
                        if k != 'sig'):
                return 'sig'
        except Malformed:
            pass
    if msg.name in FIELDWISE_MSGS and msg.fields is not None and not extra:
        # RFC 4253 8: the hash covers the VALUES e, f, p, g (as mpint);
        # another encoding of the same values alters nothing that is hashed
        try:
            if payload[:1] == msg.payload[:1] and \
                    parse_fields(msg.schema, payload) == msg.fields:
                return 'recoded'
        except Malformed:
            pass
    return 'bound'


class Mitm:
    """edits: list of dicts {msg: name, fn: callable(Msg, Mitm) -> bytes|[bytes]}"""

    def __init__(self, fam, edits=()):
        self.fam = fam
        self.edits = list(edits)
        self.msgs = []              # Msg objects in wire order
        self.by_name = {}
        self.encrypted = {'c2s': False, 's2c': False}
        self.ctr = None
        self.str_ = None
        self.errors = []

    # -- installation --------------------------------------------------
    def install(self, loop):
        mitm = self
        if hasattr(loop.net, 'on_connect'):
            # called before either connection_made: nothing written yet
            def on_connect(ctr, str_):
                if mitm.ctr is None:
                    mitm.ctr, mitm.str_ = ctr, str_
                    ctr.filter = mitm.filter
                    str_.filter = mitm.filter
            loop.net.on_connect = on_connect
            return
        orig = loop.create_connection

        async def create_connection(factory, host=None, port=None, **kw):
            tr, proto = await orig(factory, host, port, **kw)
            if mitm.ctr is None:
                mitm.attach(tr, tr.peer)
            return tr, proto
        loop.create_connection = create_connection

    def attach(self, ctr, str_):
        """Called right after the transports exist: the client has already
        written its version line (from connection_made); take it back from
        the server's queue and pass it through the filter."""
        self.ctr, self.str_ = ctr, str_
        queued = list(str_.inq)
        str_.inq.clear()
        str_.in_bytes = 0
        ctr.filter = self.filter
        str_.filter = self.filter
        assert queued == ctr.writes, 'unexpected early traffic'
        for idx, data in enumerate(ctr.writes):
            for o in self.filter(ctr, idx, data):
                ctr._send(o)

    # -- the filter ----------------------------------------------------
    def filter(self, transport, idx, data):
        d = 'c2s' if transport is self.ctr else 's2c'
        if self.encrypted[d]:
            return [data]
        try:
            msg = self._name(d, idx, data)
        except Malformed as exc:
            self.errors.append(f'{d}#{idx}: {exc}')
            return [data]
        self.msgs.append(msg)
        self.by_name.setdefault(msg.name, msg)
        if msg.name in ('NKC', 'NKS'):
            self.encrypted[d] = True
        out = [msg.orig]
        for ed in self.edits:
            if ed['msg'] == msg.name and not ed.get('done'):
                ed['done'] = True
                try:
                    # edits of the same message compose: a later one works
                    # on the bytes the earlier one produced
                    view = msg if msg.sent == msg.orig else \
                        Msg(d, idx, msg.name, msg.sent, self.fam)
                    res = ed['fn'](view, self)
                except Malformed as exc:
                    self.errors.append(f'edit {ed.get("label")}: {exc}')
                    continue
                msg.applied.append(ed.get('label'))
                if isinstance(res, (bytes, bytearray)):
                    res = [bytes(res)]
                msg.sent = b''.join(res)
                out = res
        msg.effect = classify(msg)
        return out

    def _name(self, d, idx, data):
        if idx == 0:
            return Msg(d, idx, 'VC' if d == 'c2s' else 'VS', data, self.fam)
        payload, _ = unframe(data)
        t = payload[0]
        if t == 20:
            name = 'IC' if d == 'c2s' else 'IS'
        elif t == 21:
            name = 'NKC' if d == 'c2s' else 'NKS'
        elif t == 1:
            name = 'DISC'
        else:
            name = TYPES.get((self.fam, d, t), f'T{t}')
        return Msg(d, idx, name, data, self.fam)

    def effects(self):
        return [m.effect for m in self.msgs if m.effect != 'none']

    def client_cleartext_types(self):
        return [m.ptype for m in self.msgs if m.dir == 'c2s' and
                m.ptype is not None]


# ---------------------------------------------------------------------------
# concrete edits
# ---------------------------------------------------------------------------

MARKERS = (b'ext-info-c', b'ext-info-s', b'kex-strict-c-v00@openssh.com',
           b'kex-strict-s-v00@openssh.com')

_alt_keys = {}


def adversary_key():
    if 'adv' not in _alt_keys:
        _alt_keys['adv'] = asyncssh.generate_private_key('ssh-ed25519')
    return _alt_keys['adv']


def _flip(b, off, mask=0x01):
    b = bytearray(b)
    b[off % len(b)] ^= mask
    return bytes(b)


def e_flip(offset, mask):
    """Raw byte edit of the message as written."""
    def fn(msg, _):
        return _flip(msg.orig, offset, mask)
    return fn


def e_version(variant):
    def fn(msg, _):
        line = msg.orig[:msg.orig.index(b'\r\n')]
        tail = msg.orig[len(line) + 2:]
        v = variant % 8
        if v == 6:
            line = line[:8] + line[8:].swapcase()
        elif v == 7:
            line = line[:8] + line[8:].upper()
        elif v == 0:
            line = line + b'x'
        elif v == 1:
            line = line[:-1] + bytes([line[-1] ^ 1])
        elif v == 2:
            line = line.replace(b'SSH-2.0-', b'SSH-1.99-', 1)
        elif v == 3:
            line = line + b' '
        elif v == 4:
            line = line[:8] + b'OpenSSH_9.2'
        else:
            line = line[:-1]
        return line + b'\r\n' + tail
    return fn


def e_version_bad(variant):
    def fn(msg, _):
        v = variant % 3
        if v == 0:
            return b'SSH-1.5-' + msg.orig[8:]
        if v == 1:
            return b'ssh-2.0-' + msg.orig[8:]      # prefix is case sensitive
        return b'SSX' + msg.orig[3:]
    return fn


def e_eol(msg, _):
    return msg.orig.replace(b'\r\n', b'\n', 1)


def e_banner(variant):
    """Whole lines inserted before the identification string."""
    lines = [b'Welcome to this host\r\nmaintenance at noon\r\n',
             b'hello\n', b'\r\n', b'x' * 200 + b'\r\n',
             b'ssh-2.0-lowercase is not an identification\r\n',
             b'one\ntwo\nthree\nfour\n'][variant % 6]

    def fn(msg, _):
        return lines + msg.orig
    return fn


def e_tail(variant):
    """Bytes inserted behind the identification line, where the first
    binary packet has to start."""
    extra = [b'\n', b'extra\r\n', b'\0', b'SSH-2.0-again\r\n'][variant % 4]

    def fn(msg, _):
        return msg.orig + extra
    return fn


def e_split(variant):
    """The identification line delivered in pieces (content unchanged)."""
    def fn(msg, _):
        cut = [1, 4, 8, len(msg.orig) - 1, len(msg.orig) - 2][variant % 5]
        return [msg.orig[:cut], msg.orig[cut:]]
    return fn


def e_pad(msg, _):
    padlen = len(msg.pad) + 8 if len(msg.pad) < 200 else len(msg.pad)
    return frame(msg.payload, os.urandom(padlen))


def e_field(name, valfn):
    """Replace one parsed field, rebuild the packet (lengths, padding)."""
    def fn(msg, mitm):
        if msg.fields is None:
            raise Malformed(f'{msg.name} not parsed')
        f = dict(msg.fields)
        f[name] = valfn(f[name], msg, mitm)
        return msg.rebuild(f)
    return fn


def e_list(field, names):
    """Replace the algorithm names of a KEXINIT name-list (the extension
    markers of the kex list stay unless removed by e_strict)."""
    def val(cur, msg, _):
        keep = [n for n in cur if n in MARKERS] if field == 'kex' else []
        return [n.encode() for n in names] + keep
    return e_field(field, val)


def e_strict(variant):
    def val(cur, msg, _):
        drop = MARKERS[2:] if variant % 2 == 0 else MARKERS[:2]
        return [n for n in cur if n not in drop]
    return e_field('kex', val)


def e_rest(variant):
    v = variant % 3
    if v == 0:
        return e_field('reserved', lambda cur, m, _: 1)
    if v == 1:
        return e_field('lang_cs', lambda cur, m, _: [b'en'])
    return e_field('lang_sc', lambda cur, m, _: [b'en'])


def _ec_junk(cur, variant):
    """A different but well-formed public value of the same length."""
    n = len(cur)
    if n == 32 or n == 56:                    # X25519 / X448: any string
        return os.urandom(n)
    if n in (65, 97, 133) and cur[0] == 4:    # uncompressed NIST point
        from cryptography.hazmat.primitives.asymmetric import ec
        from cryptography.hazmat.primitives import serialization as ser
        curve = {65: ec.SECP256R1(), 97: ec.SECP384R1(), 133: ec.SECP521R1()}[n]
        pub = ec.generate_private_key(curve).public_key()
        return pub.public_bytes(ser.Encoding.X962,
                                ser.PublicFormat.UncompressedPoint)
    # hybrids (PQ part || EC part) and anything else: change the classical
    # tail, which stays a valid X25519 value; for NIST tails flip in the PQ
    # part instead (an ML-KEM ciphertext/public key stays decodable)
    if variant % 2 == 0:
        return _flip(cur, 7 + variant, 0x01)
    return cur[:-32] + os.urandom(32)


def _ec_invalid(cur, variant):
    v = variant % 4
    if v == 0:
        return cur[:-1]                       # wrong length
    if v == 1:
        return b''
    if v == 2:
        return cur + b'\0'
    if len(cur) in (65, 97, 133) and cur[0] == 4:
        return cur[:-1] + bytes([cur[-1] ^ 1])    # not on the curve
    return bytes(len(cur) + 3)


def e_pub(field, kind, variant):
    """kind: 'junk' (another value the peer does not hold the secret for) |
    'invalid' (must be refused by the range / point checks)."""
    def val(cur, msg, mitm):
        if isinstance(cur, int):
            p = mitm.group_p(msg)
            if kind == 'junk':
                return [cur ^ 1 if cur ^ 1 not in (0, 1) else cur + 2,
                        (cur + 12345) % (p - 2) + 1, 2, p - 2, 1,
                        p - 1][variant % 6]
            return [0, p, p + 1, -cur, 2 * p + 2][variant % 5]
        return _ec_junk(cur, variant) if kind == 'junk' else \
            _ec_invalid(cur, variant)
    return e_field(field, val)


def e_hostkey(variant):
    def val(cur, msg, _):
        if variant % 3 == 0:
            return adversary_key().public_data
        if variant % 3 == 1:
            return _flip(cur, len(cur) - 3)       # another key, same type
        return _flip(cur, 6)                      # algorithm name damaged
    return e_field('ks', val)


def e_sig(kind, variant):
    def val(cur, msg, _):
        if kind == 'adv':
            return adversary_key().sign(os.urandom(32))
        return [_flip(cur, len(cur) - 1), _flip(cur, len(cur) // 2, 0x80),
                cur[:-1], _flip(cur, 5)][variant % 4]
    return e_field('sig', val)


def e_gexreq(variant):
    v = variant % 3
    if v == 0:
        return e_field('n', lambda cur, m, _: 1024)
    if v == 1:
        return e_field('min', lambda cur, m, _: cur + 1)
    return e_field('max', lambda cur, m, _: 2048)


def e_group(kind, variant):
    from asyncssh import kex_dh
    alt = [kex_dh._group1_p, kex_dh._group15_p, kex_dh._group16_p]

    def pval(cur, msg, _):
        if kind == 'alt':
            return [a for a in alt if a != cur][variant % 2]
        return [cur ^ (1 << 70), cur + 2, 0, 1][variant % 4]   # mangled prime

    if kind == 'alt' and variant % 3 == 2:
        return e_field('g', lambda cur, m, _: cur + 1 if cur != 5 else 2)
    return e_field('p', pval)


def e_transkey(kind, variant):
    def val(cur, msg, _):
        if kind == 'alt':
            if 'rsa' not in _alt_keys:
                _alt_keys['rsa'] = asyncssh.generate_private_key(
                    'ssh-rsa', key_size=2048)
            return _alt_keys['rsa'].public_data
        return [cur[:-2], _flip(cur, 6), b''][variant % 3]
    return e_field('kt', val)


def e_secret(kind, variant):
    def val(cur, msg, mitm):
        if kind == 'adv':
            # the adversary encrypts a secret of its own under the server's
            # (public) transient key
            kt = mitm.by_name['PUBKEY'].fields['kt']
            from asyncssh.public_key import decode_ssh_public_key
            key = decode_ssh_public_key(kt)
            return key.encrypt(mpint(0x1234567890abcdef),
                               mitm.kex_name.encode())
        return [_flip(cur, len(cur) - 1), _flip(cur, 0, 0x80),
                cur[:-1]][variant % 3]
    return e_field('enc', val)


# ---- structured strings: key blobs, certificates, signature blobs --------

def _key_fields(r, base):
    if base in ('ssh-rsa', 'rsa-sha2-256', 'rsa-sha2-512'):
        return [['mpint', r.mpint(), None], ['mpint', r.mpint(), None]]
    if base == 'ssh-dss':
        return [['mpint', r.mpint(), None] for _ in range(4)]
    if base.startswith('ecdsa-sha2-'):
        return [['str', r.str(), None], ['str', r.str(), None]]
    if base in ('ssh-ed25519', 'ssh-ed448'):
        return [['str', r.str(), None]]
    raise Malformed(f'unknown key type {base}')


def blob_elements(blob, what):
    """Elements of a public key / certificate ('key'), signature ('sig') or
    ECDSA r,s ('rs') blob: [[kind, value, nested-kind or None], ...]."""
    r = Rd(blob)
    if what == 'rs':
        out = [['mpint', r.mpint(), None], ['mpint', r.mpint(), None]]
        r.end()
        return out
    t = r.str()
    try:
        name = t.decode('ascii')
    except UnicodeDecodeError:
        raise Malformed('type name') from None
    out = [['str', t, None]]
    if what == 'sig':
        out.append(['str', r.str(),
                    'rs' if name.startswith('ecdsa-sha2-') else None])
        r.end()
        return out
    cert = name.endswith(CERT_SUFFIX)
    if cert:
        out.append(['str', r.str(), None])            # nonce
        out += _key_fields(r, name[:-len(CERT_SUFFIX)])
        out += [['u64', r.take(8), None], ['u32', r.take(4), None],
                ['str', r.str(), None], ['str', r.str(), None],
                ['u64', r.take(8), None], ['u64', r.take(8), None],
                ['str', r.str(), None], ['str', r.str(), None],
                ['str', r.str(), None], ['str', r.str(), 'key'],
                ['str', r.str(), 'sig']]
    else:
        out += _key_fields(r, name)
    r.end()
    return out


def _blob_build(elems):
    out = b''
    for kind, val, _ in elems:
        if isinstance(val, Raw):
            out += bytes(val)
        elif kind == 'mpint':
            out += mpint(val)
        elif kind == 'str':
            out += sstr(val)
        else:
            out += bytes(val)
    return out


def structured_variants(blob, what):
    """Other spellings of the same structured string: an inner mpint with a
    superfluous leading zero / sign extension, a byte appended inside, the
    same recursively for nested blobs (a certificate's signature key and
    signature, the r,s of an ECDSA signature).  -> [(label, bytes)]"""
    try:
        elems = blob_elements(blob, what)
    except Malformed:
        return []
    out = []
    for i, (kind, val, sub) in enumerate(elems):
        def with_(v, i=i):
            e = [list(x) for x in elems]
            e[i][1] = v
            return _blob_build(e)
        if kind == 'mpint':
            out.append((f'{what}[{i}]:lead_zero',
                        with_(_raw_lp(b'\0' + _mp_body(val)))))
            out.append((f'{what}[{i}]:neg', with_(mp_negative(val))))
        elif kind == 'str' and sub:
            for lbl, nb in structured_variants(val, sub):
                out.append((f'{what}[{i}].{lbl}', with_(nb)))
    out.append((f'{what}:append_byte', blob + b'\0'))
    return out


STRUCTURED_FIELDS = {('REPLY', 'ks'): 'key', ('REPLY', 'sig'): 'sig',
                     ('PUBKEY', 'ks'): 'key', ('PUBKEY', 'kt'): 'key',
                     ('DONE', 'sig'): 'sig'}


def structured_edits(base_msgs):
    """MITM edits re-spelling the structured strings of the messages of a
    baseline handshake (labels from the baseline, applied to the blob that
    travels then)."""
    out = []
    for m in base_msgs:
        for (name, field), what in STRUCTURED_FIELDS.items():
            if m.name != name or not m.fields:
                continue
            for k, (lbl, _) in enumerate(
                    structured_variants(m.fields[field], what)):
                def val(cur, msg, _, k=k, what=what):
                    v = structured_variants(cur, what)
                    if k >= len(v):
                        raise Malformed('blob changed shape')
                    return v[k][1]
                out.append({'msg': name, 'fn': e_field(field, val),
                            'label': f'{name}.{field}:{lbl}'})
    return out


class NotApplicable(Exception):
    """The abstract edit has no counterpart in this key exchange family
    (e.g. mpint encodings in a family whose values travel as strings)."""


# ---- re-encodings ------------------------------------------------------

def _mp_body(n):
    return mpint(n)[4:]


def _raw_lp(body):
    return Raw(u32(len(body)) + body)


def mp_negative(n):
    """The bytes of n without the sign octet (or sign-extended with 0xff if
    it has none): per RFC 4251 they denote a negative number."""
    b = _mp_body(n)
    return _raw_lp(b[1:]) if b[:1] == b'\0' and len(b) > 1 else \
        _raw_lp(b'\xff' + b)


MP_OPS = [
    ('neg', mp_negative),
    ('lead_zero', lambda n: _raw_lp(b'\0' + _mp_body(n))),
    ('lead_zero2', lambda n: _raw_lp(b'\0\0' + _mp_body(n))),
    ('sign_ext_ff', lambda n: _raw_lp(b'\xff' + _mp_body(n))),
    ('empty', lambda n: _raw_lp(b'')),
    ('len_plus1', lambda n: _raw_lp(_mp_body(n) + b'\x01')),
    ('len_minus1', lambda n: _raw_lp(_mp_body(n)[:-1])),
]
STR_OPS = [
    ('empty', lambda b: b''),
    ('len_plus1', lambda b: b + b'\0'),
    ('len_minus1', lambda b: b[:-1]),
]


def _upper(names):
    for i, n in enumerate(names):
        if n.upper() != n:
            return names[:i] + [n.upper()] + names[i + 1:]
    return names + [b'X']


NL_OPS = [
    ('trailing_comma', lambda l: _raw_lp(b','.join(l) + b',')),
    ('leading_comma', lambda l: _raw_lp(b',' + b','.join(l))),
    ('duplicate', lambda l: l + l[:1] if l else [b'en', b'en']),
    ('upper', _upper),
    ('nul', lambda l: [l[0][:1] + b'\0' + l[0][1:]] + l[1:] if l
     else [b'\0']),
    ('empty_list' , lambda l: [] if l else [b'en']),
]


def _guess_packet(fam, right):
    """A key exchange packet as it would follow first_kex_packet_follows."""
    if (fam in ('dh', 'gex')) == right:
        body = mpint(int.from_bytes(os.urandom(200), 'big') + 2)
    else:
        body = sstr(os.urandom(32))
    return frame(bytes([34 if fam == 'gex' and right else 30]) + body)


def reencoding_edits(name, fam):
    """Every re-encoding / boundary edit of every field of message `name`:
    list of MITM edits (label, fn built on the value travelling then)."""
    schema = schema_for(fam, name)
    out = []
    if schema is None:
        return out                  # no such message in this family

    def add(field, op, valfn):
        out.append({'msg': name, 'label': f'{name}.{field}:{op}',
                    'fn': e_field(field, lambda cur, m, _, f=valfn: f(cur))})
    for field, kind in schema or []:
        if kind == 'mpint':
            for op, f in MP_OPS:
                add(field, op, f)
        elif kind == 'str':
            for op, f in STR_OPS:
                add(field, op, f)
        elif kind == 'nl':
            for op, f in NL_OPS:
                add(field, op, f)
        elif kind == 'bool':
            add(field, 'true', lambda cur: True)
            add(field, '0xff', lambda cur: Raw(b'\xff'))
            for right in (True, False):
                def fn(msg, mitm, right=right):
                    f = dict(msg.fields)
                    f[field] = True
                    return [msg.rebuild(f), _guess_packet(mitm.fam, right)]
                out.append({'msg': name, 'fn': fn, 'label':
                            f'{name}.{field}:true+'
                            f'{"right" if right else "wrong"}_guess_packet'})
        elif kind == 'u32' and name != 'GREQ':
            add(field, 'one', lambda cur: cur + 1)
    if name == 'GREQ':
        def req(op, fn):
            def ed(msg, _):
                f = dict(msg.fields)
                fn(f)
                return msg.rebuild(f)
            out.append({'msg': name, 'fn': ed, 'label': f'GREQ:{op}'})
        req('min>n', lambda f: f.update(min=f['n'] + 1))
        req('n>max', lambda f: f.update(n=f['max'] + 1))
        req('n<min', lambda f: f.update(n=512))
        req('max<min', lambda f: f.update(max=f['min'] - 1))
        req('all_zero', lambda f: f.update(min=0, n=0, max=0))
        req('huge', lambda f: f.update(n=0xffffffff, max=0xffffffff))
    if name == 'GGRP':
        def grp(op, fn):
            def ed(msg, _):
                f = dict(msg.fields)
                fn(f)
                return msg.rebuild(f)
            out.append({'msg': name, 'fn': ed, 'label': f'GGRP:{op}'})
        grp('g=0', lambda f: f.update(g=0))
        grp('g=1', lambda f: f.update(g=1))
        grp('g=p-1', lambda f: f.update(g=f['p'] - 1))
        grp('p_even', lambda f: f.update(p=f['p'] - 1))
        grp('p_times_3', lambda f: f.update(p=f['p'] * 3))
        grp('p_below_minimum', lambda f: f.update(p=2 ** 255 - 19))
        grp('p=g', lambda f: f.update(p=f['g']))
    return out


def concretise(ed, names, variant=0, fam=None):
    """Abstract edit of specs/Handshake (dict msg, field, val as printed by
    TLC) -> MITM edit.  names: category -> {abstract name: real name}."""
    m, f, v = ed['msg'], ed['field'], ed['val']
    label = f'{m}.{f}={v}#{variant}'
    if f == 'v':
        fn = e_version(variant) if 'vX' in v else e_version_bad(variant)
    elif f == 'eol':
        fn = e_eol
    elif f == 'banner':
        fn = e_banner(variant)
    elif f == 'tail':
        fn = e_tail(variant)
    elif f == 'split':
        fn = e_split(variant)
    elif f == 'pad':
        fn = e_pad
    elif f == 'cookie':
        fn = e_field('cookie', lambda cur, msg, _: _flip(cur, variant))
    elif f in ('kex', 'hostkey', 'enc_cs', 'enc_sc', 'mac_cs', 'mac_sc',
               'cmp_cs', 'cmp_sc'):
        cat = f.split('_')[0]
        absn = [x.strip().strip('"') for x in v.strip('<>').split(',')]
        fn = e_list(f, [names[cat][a] for a in absn])
    elif f == 'ff':
        fn = e_field('ff', lambda cur, msg, _: True)
    elif f == 'strict':
        fn = e_strict(variant)
    elif f == 'rest':
        fn = e_rest(variant)
    elif f == 'req':
        fn = e_gexreq(variant)
    elif f == 'grp' and 'gNeg' in v:
        fn = e_field('p', lambda cur, msg, _: mp_negative(cur))
    elif f == 'grp':
        fn = e_group('alt' if 'gAlt' in v else 'bad', variant)
    elif f == 'menc':
        if fam not in ('dh', 'gex'):
            raise NotApplicable(label)
        fld = {'INIT': 'e', 'REPLY': 'f',
               'GGRP': ['p', 'g'][variant % 2]}[m]
        op = MP_OPS[1 + variant % 2][1]
        fn = e_field(fld, lambda cur, msg, _: op(cur))
    elif f in ('e', 'f') and '"neg"' in v:
        if fam not in ('dh', 'gex'):
            raise NotApplicable(label)
        fn = e_field(f, lambda cur, msg, _: mp_negative(cur))
    elif f in ('e', 'f'):
        fn = e_pub(f, 'invalid' if 'invalid' in v else 'junk', variant)
    elif f == 'ks':
        fn = e_hostkey(variant)
    elif f == 'sig':
        fn = e_sig('adv' if 'hkX' in v else 'garbage', variant)
    elif f == 'kt':
        fn = e_transkey('alt' if 'ktX' in v else 'bad', variant)
    elif f == 'enc':
        fn = e_secret('adv' if '"adv"' in v else 'bad', variant)
    else:
        raise ValueError(f'no concretisation for {ed}')
    return {'msg': m, 'fn': fn, 'label': label}


# ---------------------------------------------------------------------------
# one real handshake
# ---------------------------------------------------------------------------

_host_keys = {}
HOSTKEY_TYPES = {'ssh-ed25519': ('ssh-ed25519', {}),
                 'ecdsa-sha2-nistp256': ('ecdsa-sha2-nistp256', {}),
                 'ecdsa-sha2-nistp384': ('ecdsa-sha2-nistp384', {}),
                 'rsa-sha2-256': ('ssh-rsa', {'key_size': 2048})}


def host_key(alg):
    if alg not in _host_keys:
        typ, kw = HOSTKEY_TYPES[alg]
        _host_keys[alg] = asyncssh.generate_private_key(typ, **kw)
    return _host_keys[alg]


_kex_log = []
_orig_get_kex = _aconn.get_kex
_rsa_cache = {}


def _get_kex(conn, alg):
    _kex_log.append((conn, alg.decode()))
    return _orig_get_kex(conn, alg)


_aconn.get_kex = _get_kex


def cache_rsa_transient(enable=True):
    """rsa*-sha* generates a fresh RSA key per exchange (70 ms .. 1 s); bulk
    replays reuse one transient key per size.  The binding of the exchange
    hash, which is what is judged, does not depend on the key being fresh."""
    import asyncssh.kex_rsa as kr
    if not hasattr(kr, '_verif_orig_gen'):
        kr._verif_orig_gen = kr.generate_private_key

    def gen(alg, **kw):
        k = (alg, tuple(sorted(kw.items())))
        if k not in _rsa_cache:
            _rsa_cache[k] = kr._verif_orig_gen(alg, **kw)
        return _rsa_cache[k]
    kr.generate_private_key = gen if enable else kr._verif_orig_gen


class Outcome:
    pass


def run_handshake(kex, client=None, server=None, edits=(), trust='known',
                  server_hostkeys=('ssh-ed25519',), client_hostkey_algs=None,
                  run_command=True, mitm_family=None, entry='connect'):
    """One connection attempt.

    client/server: dict with optional kex_algs, encryption_algs, mac_algs,
    compression_algs (lists of real names); kex is the method expected to be
    negotiated without edits (decides how the MITM names messages).
    """
    client = dict(client or {})
    server = dict(server or {})
    client.setdefault('kex_algs', [kex])
    server.setdefault('kex_algs', [kex])
    fam = mitm_family or family(kex)
    mitm = Mitm(fam, edits)
    mitm.kex_name = kex

    def group_p(msg):
        from asyncssh import kex_dh
        if fam == 'gex':
            return mitm.by_name['GGRP'].fields['p']
        import re
        n = re.search(r'group(\d+)', kex).group(1)
        return getattr(kex_dh, f'_group{n}_p')
    mitm.group_p = group_p

    o = Outcome()
    o.server_conn = None
    o.server_lost = None            # None = never; else ('exc', repr) / ('clean',)
    o.server_auth_begun = False
    o.client_exc = None
    o.client_ok = False
    o.echo = None
    o.ran_command = run_command
    o.entry = entry
    o.reported = False
    o.reported_key = None
    o.hung = False
    del _kex_log[:]

    class Server(asyncssh.SSHServer):
        def connection_made(self, conn):
            o.server_conn = conn

        def connection_lost(self, exc):
            o.server_lost = ('clean',) if exc is None else \
                ('exc', type(exc).__name__, str(exc))

        def begin_auth(self, username):
            o.server_auth_begun = True
            return False

    async def handler(process):
        process.stdout.write('pong:' + (process.command or ''))
        process.exit(0)

    keys = []
    khl = []
    for a in server_hostkeys:
        if a.endswith(CERT_SUFFIX):
            # an RSA / ed25519 host certificate signed by the harness CA
            k = 'rsacert' if 'rsa' in a else 'edcert'
            keys += listener_keypairs({k})
            khl.append(b'@cert-authority [127.0.0.1]:%d ' % PORT +
                       _hk('ca').export_public_key('openssh'))
        else:
            keys.append(host_key(a))
            khl.append(b'[127.0.0.1]:%d ' % PORT +
                       keys[-1].export_public_key('openssh'))
    kh = b''.join(khl) if trust == 'known' else None
    ckw = {}
    if client_hostkey_algs is not None:
        ckw['server_host_key_algs'] = list(client_hostkey_algs)

    loop = new_loop()
    mitm.install(loop)
    state = {}

    async def go():
        state['acc'] = await asyncssh.listen(
            '127.0.0.1', PORT, server_factory=Server, server_host_keys=keys,
            process_factory=handler, **server)
        if entry == 'hostkey':
            # the other API entry point that reports something about the
            # server: asyncssh.get_server_host_key()
            opts = asyncssh.SSHClientConnectionOptions(
                config=None, **{k: v for k, v in client.items()
                                if k != 'kex_algs'})
            key = await asyncssh.get_server_host_key(
                '127.0.0.1', PORT, kex_algs=client['kex_algs'],
                config=None, options=opts, **ckw)
            o.reported = True
            o.reported_key = key.public_data if key is not None else None
            return None
        conn = await asyncssh.connect(
            '127.0.0.1', PORT, known_hosts=kh, config=None, client_keys=None,
            username='u', **client, **ckw)
        state['conn'] = conn
        o.client_ok = True
        if run_command:
            res = await conn.run('ping')
            o.echo = res.stdout
        return conn

    try:
        try:
            loop.run_until_complete(go())
        except Deadlock:
            o.hung = True
        except Exception as exc:            # pylint: disable=broad-except
            o.client_exc = exc
        conn = state.get('conn')
        o.client_conn = conn
        sc = o.server_conn
        gi = lambda c, n: c.get_extra_info(n) if c is not None else None
        o.sid_c = getattr(conn, '_session_id', None) if conn else None
        o.sid_s = getattr(sc, '_session_id', None) if sc else None
        o.algs_c = {k: gi(conn, k) for k in
                    ('send_cipher', 'recv_cipher', 'send_mac', 'recv_mac',
                     'send_compression', 'recv_compression')}
        o.algs_s = {k: gi(sc, k) for k in o.algs_c}
        o.kex_c = [a for c, a in _kex_log if c is conn] if conn else \
            [a for c, a in _kex_log if not c.is_server()]
        o.kex_s = [a for c, a in _kex_log if c.is_server()]
        o.versions = (gi(conn, 'client_version'), gi(conn, 'server_version'),
                      gi(sc, 'client_version'), gi(sc, 'server_version'))
        # host key type / signature algorithm actually used, from the wire
        o.hostkey_wire = None
        rep = mitm.by_name.get('REPLY') or mitm.by_name.get('PUBKEY')
        done = mitm.by_name.get('REPLY') or mitm.by_name.get('DONE')
        try:
            if rep is not None and rep.fields:
                o.hostkey_wire = Rd(rep.fields['ks']).str().decode()
            if done is not None and done.fields:
                o.sigalg_wire = Rd(done.fields['sig']).str().decode()
        except (Malformed, UnicodeDecodeError):
            pass
        if conn is not None:
            conn.abort()
        state['acc'].close() if 'acc' in state else None
        try:
            loop.max_time = loop.time() + 1000
            loop.run_until_idle(advance_time=True)
        except BaseException:               # pylint: disable=broad-except
            pass
        o.loop_exceptions = [str(c.get('exception') or c.get('message'))
                             for c in loop.exceptions]
    finally:
        close_loop(loop)
    o.mitm = mitm
    o.effects = mitm.effects()
    o.applied = [lbl for m in mitm.msgs for lbl in m.applied]
    o.completed = bool(o.client_ok)
    return o


def negotiated(o):
    """Names both sides report, or None if they disagree (then a dict of the
    disagreement is returned under key 'mismatch')."""
    c, s = o.algs_c, o.algs_s
    pairs = {'enc_cs': (c['send_cipher'], s['recv_cipher']),
             'enc_sc': (c['recv_cipher'], s['send_cipher']),
             'mac_cs': (c['send_mac'], s['recv_mac']),
             'mac_sc': (c['recv_mac'], s['send_mac']),
             'cmp_cs': (c['send_compression'], s['recv_compression']),
             'cmp_sc': (c['recv_compression'], s['send_compression']),
             'kex': (o.kex_c[-1] if o.kex_c else None,
                     o.kex_s[-1] if o.kex_s else None)}
    res = {}
    mism = {}
    for k, (a, b) in pairs.items():
        res[k] = a
        if a != b:
            mism[k] = (a, b)
    res['hostkey'] = o.hostkey_wire
    return res, mism


def first_common(cl, sl):
    for a in cl:
        if a in sl:
            return a
    return None


AEAD_CIPHERS = ('chacha20-poly1305@openssh.com', 'aes128-gcm@openssh.com',
                'aes256-gcm@openssh.com')


def expected_names(client, server, client_hostkeys, server_hostkeys):
    """The statement of the property: each negotiated algorithm is the first
    one on the client's list that the server also supports."""
    exp = {'kex': first_common(client['kex_algs'], server['kex_algs'])}
    e = first_common(client['encryption_algs'], server['encryption_algs'])
    exp['enc_cs'] = exp['enc_sc'] = e
    if e in AEAD_CIPHERS:
        m = e
    else:
        m = first_common(client['mac_algs'], server['mac_algs'])
    exp['mac_cs'] = exp['mac_sc'] = m
    c = first_common(client['compression_algs'], server['compression_algs'])
    exp['cmp_cs'] = exp['cmp_sc'] = c
    exp['hostkey'] = first_common(client_hostkeys, server_hostkeys)
    return exp


def printed_cases(output, head='case'):
    """Values printed by TLC's PrintT as <<"case", ...>>, also when TLC
    pretty-prints them over several lines."""
    import re
    from harness import tlc
    out = []
    for m in re.finditer(r'^<<\s*"%s"' % head, output, re.M):
        p = tlc._P(output)
        p.i = m.start()
        try:
            out.append(p.value())
        except (ValueError, IndexError):
            pass
    return out


def available_kex():
    from asyncssh.kex import get_kex_algs
    return [a.decode() for a in get_kex_algs() if not a.startswith(b'gss-')]


# ---------------------------------------------------------------------------
# host key / signature algorithm: wire observation, independent verifier,
# histories of connections to one listener (specs/Handshake/HostKeyAlg.tla)
# ---------------------------------------------------------------------------

CERT_SUFFIX = '-cert-v01@openssh.com'
HK_REAL = {'ed': 'ssh-ed25519', 'ec': 'ecdsa-sha2-nistp256',
           'rsa1': 'ssh-rsa', 'rsa256': 'rsa-sha2-256',
           'rsa512': 'rsa-sha2-512', 'c1': 'ssh-rsa' + CERT_SUFFIX,
           'c256': 'rsa-sha2-256' + CERT_SUFFIX,
           'c512': 'rsa-sha2-512' + CERT_SUFFIX,
           'ced': 'ssh-ed25519' + CERT_SUFFIX}
HK_ABS = {v: k for k, v in HK_REAL.items()}


def sig_alg_of(hostkey_alg):
    """Signature algorithm that goes with a negotiated host key algorithm
    name (RFC 8332 / PROTOCOL.certkeys)."""
    if hostkey_alg.endswith(CERT_SUFFIX):
        return hostkey_alg[:-len(CERT_SUFFIX)]
    return hostkey_alg


def key_blob_type_of(hostkey_alg):
    """Type string at the head of K_S for a negotiated algorithm name."""
    base = sig_alg_of(hostkey_alg)
    if base.startswith('rsa-sha2-'):
        base = 'ssh-rsa'
    return base + CERT_SUFFIX if hostkey_alg.endswith(CERT_SUFFIX) else base


def received_signature_ok(mitm, session_id):
    """Does the signature AS RECEIVED by the client verify over the session
    id under the host key AS RECEIVED (independent verifier)?"""
    rep = mitm.by_name.get('REPLY') or mitm.by_name.get('PUBKEY')
    done = mitm.by_name.get('REPLY') or mitm.by_name.get('DONE')
    try:
        ks = parse_fields(rep.schema, unframe(rep.sent)[0])['ks']
        sig = parse_fields(done.schema, unframe(done.sent)[0])['sig']
    except (Malformed, AttributeError, KeyError):
        return False
    return verify_independent(ks, sig, session_id)


def wire_hostkey_choice(mitm):
    """(negotiated name per RFC 4253 7.1 from the two KEXINITs as they
    travelled, type of K_S, algorithm named in the signature blob)."""
    ic, isv = mitm.by_name.get('IC'), mitm.by_name.get('IS')
    if ic is None or isv is None or ic.fields is None or isv.fields is None:
        return None, None, None
    srv = isv.fields['hostkey']
    neg = next((a.decode() for a in ic.fields['hostkey'] if a in srv), None)
    rep = mitm.by_name.get('REPLY') or mitm.by_name.get('PUBKEY')
    done = mitm.by_name.get('REPLY') or mitm.by_name.get('DONE')
    kst = sga = None
    try:
        if rep is not None and rep.fields:
            kst = Rd(rep.fields['ks']).str().decode()
        if done is not None and done.fields:
            sga = Rd(done.fields['sig']).str().decode()
    except (Malformed, UnicodeDecodeError):
        pass
    return neg, kst, sga


def verify_independent(ks, sig, data):
    """Verify an SSH signature blob over `data` under the public key in the
    key / certificate blob `ks`, with the algorithm NAMED in the signature
    blob, using the cryptography package directly (no asyncssh code)."""
    from cryptography.exceptions import InvalidSignature
    from cryptography.hazmat.primitives import hashes
    from cryptography.hazmat.primitives.asymmetric import (
        ec, ed25519, padding, rsa, utils)
    r = Rd(ks)
    ktype = r.str().decode()
    if ktype.endswith(CERT_SUFFIX):
        r.str()                                   # nonce
        ktype = ktype[:-len(CERT_SUFFIX)]
    s = Rd(sig)
    alg = s.str().decode()
    blob = s.str()
    try:
        if ktype == 'ssh-rsa':
            e, n = r.mpint(), r.mpint()
            h = {'ssh-rsa': hashes.SHA1, 'rsa-sha2-256': hashes.SHA256,
                 'rsa-sha2-512': hashes.SHA512}.get(alg)
            if h is None:
                return False
            rsa.RSAPublicNumbers(e, n).public_key().verify(
                blob, data, padding.PKCS1v15(), h())
        elif ktype == 'ssh-ed25519':
            if alg != 'ssh-ed25519':
                return False
            ed25519.Ed25519PublicKey.from_public_bytes(r.str()).verify(
                blob, data)
        elif ktype.startswith('ecdsa-sha2-nistp'):
            if alg != ktype:
                return False
            curve, h = {'256': (ec.SECP256R1(), hashes.SHA256()),
                        '384': (ec.SECP384R1(), hashes.SHA384()),
                        '521': (ec.SECP521R1(), hashes.SHA512())}[ktype[-3:]]
            r.str()
            pub = ec.EllipticCurvePublicKey.from_encoded_point(curve, r.str())
            b = Rd(blob)
            pub.verify(utils.encode_dss_signature(b.mpint(), b.mpint()),
                       data, ec.ECDSA(h))
        else:
            return False
    except (InvalidSignature, Malformed, ValueError):
        return False
    return True


_hist_keys = {}


def _hk(name):
    if not _hist_keys:
        g = asyncssh.generate_private_key
        _hist_keys.update(ed=g('ssh-ed25519'), ed2=g('ssh-ed25519'),
                          ec=g('ecdsa-sha2-nistp256'),
                          rsa=g('ssh-rsa', key_size=2048),
                          rsa2=g('ssh-rsa', key_size=2048),
                          ca=g('ssh-ed25519'))
        ca = _hist_keys['ca']
        _hist_keys['rsacert'] = ca.generate_host_certificate(
            _hist_keys['rsa2'], 'rsa-host')
        _hist_keys['edcert'] = ca.generate_host_certificate(
            _hist_keys['ed2'], 'ed-host')
    return _hist_keys[name]


def listener_keypairs(keyset):
    """Fresh SSHKeyPair objects (as a listener gets them when it starts)."""
    kps = []
    for k in ('ed', 'ec', 'rsa', 'rsacert', 'edcert'):
        if k not in keyset:
            continue
        if k == 'rsacert':
            kps += [p for p in asyncssh.load_keypairs(
                [(_hk('rsa2'), _hk('rsacert'))]) if p.has_cert]
        elif k == 'edcert':
            kps += [p for p in asyncssh.load_keypairs(
                [(_hk('ed2'), _hk('edcert'))]) if p.has_cert]
        else:
            kps += asyncssh.load_keypairs([_hk(k)])
    return kps


def history_known_hosts():
    lines = [b'[127.0.0.1]:%d ' % PORT + _hk(k).export_public_key('openssh')
             for k in ('ed', 'ec', 'rsa')]
    lines.append(b'@cert-authority [127.0.0.1]:%d ' % PORT +
                 _hk('ca').export_public_key('openssh'))
    return b''.join(lines)


class ConnObs:
    pass


def run_history(keyset, lists, schedule=None, force_sig=None):
    """Several connections to ONE listener (shared host key pairs).

    lists: per connection the client's server_host_key_algs (real names).
    schedule: None = one connection after the other; else a list of
    ('open'|'choose'|'sign', i): when the server processes connection i's
    KEXINIT (choose) and its KEX INIT (sign), by manual delivery.
    force_sig: a hostile server that signs with this algorithm whatever
    was negotiated (client-side observation).
    -> list of ConnObs (in order of opening)."""
    kps = listener_keypairs(keyset)
    if force_sig:
        for kp in kps:
            kp.set_sig_algorithm = lambda alg: None
            kp.sig_algorithm = force_sig.encode()
    kh = history_known_hosts()
    loop = new_loop()
    obs = []
    transports = []

    def on_connect(ct, st):
        m = Mitm('ecdh', ())
        m.ctr, m.str_ = ct, st
        ct.filter = m.filter
        st.filter = m.filter
        if schedule is not None:
            st.auto = False
        o = ConnObs()
        o.mitm = m
        o.exc = None
        o.completed = False
        o.sid = None
        obs.append(o)
        transports.append((ct, st))
    loop.net.on_connect = on_connect

    class Server(asyncssh.SSHServer):
        def begin_auth(self, username):
            return False

    async def one(i):
        try:
            conn = await asyncssh.connect(
                '127.0.0.1', PORT, known_hosts=kh, config=None,
                client_keys=None, username='u',
                kex_algs=['curve25519-sha256'],
                server_host_key_algs=list(lists[i]))
        except Exception as exc:            # pylint: disable=broad-except
            return exc
        sid = conn._session_id
        conn.abort()
        return sid

    def step(st):
        if st.inq:
            first = st.inq[0]
            if isinstance(first, (bytes, bytearray)):
                loop.run_callback(st.deliver, len(first))
            else:
                loop.run_callback(st.deliver)

    try:
        acc = loop.run_until_complete(asyncssh.listen(
            '127.0.0.1', PORT, server_factory=Server, server_host_keys=kps,
            kex_algs=['curve25519-sha256']))
        results = [None] * len(lists)
        if schedule is None:
            for i in range(len(lists)):
                results[i] = loop.run_until_complete(one(i))
        else:
            tasks = {}
            order = []
            for what, i in schedule:
                if what == 'open':
                    tasks[i] = loop.create_task(one(i))
                    order.append(i)
                    loop.run_until_idle()
                    continue
                st = transports[order.index(i)][1]
                if what == 'choose':
                    step(st)                # version line
                    loop.run_until_idle()
                    step(st)                # KEXINIT -> choose_server_host_key
                else:
                    step(st)                # KEX INIT -> signature
                loop.run_until_idle()
            for _, st in transports:
                st.auto = True
            for i in order:
                results[i] = loop.run_until_complete(tasks[i])
            # observations are stored in order of opening
            obs[:] = [obs[order.index(i)] for i in range(len(lists))]
        acc.close()
        try:
            loop.max_time = loop.time() + 1000
            loop.run_until_idle(advance_time=True)
        except BaseException:               # pylint: disable=broad-except
            pass
        for i, o in enumerate(obs):
            r = results[i]
            if isinstance(r, (bytes, bytearray)):
                o.completed, o.sid = True, bytes(r)
            else:
                o.exc = r
            o.neg, o.ks_type, o.sig_alg = wire_hostkey_choice(o.mitm)
            o.verified = None
            rep = o.mitm.by_name.get('REPLY')
            if o.completed and rep is not None and rep.fields:
                o.verified = verify_independent(rep.fields['ks'],
                                                rep.fields['sig'], o.sid)
        loop_exc = [str(c.get('exception') or c.get('message'))
                    for c in loop.exceptions]
    finally:
        close_loop(loop)
    for o in obs:
        o.loop_exceptions = loop_exc
    return obs


def interleavings(n, limit=None, rnd=None):
    """Schedules for n connections opened up front: every order of the
    choose/sign steps with choose(i) before sign(i)."""
    out = []

    def rec(prefix, chosen, signed):
        if len(signed) == n:
            out.append(list(prefix))
            return
        for i in range(n):
            if i not in chosen:
                rec(prefix + [('choose', i)], chosen | {i}, signed)
            elif i not in signed:
                rec(prefix + [('sign', i)], chosen, signed | {i})
    rec([], frozenset(), frozenset())
    opens = [('open', i) for i in range(n)]
    # drop the fully sequential ones (covered by schedule=None)
    out = [opens + s for s in out]
    if rnd is not None:
        rnd.shuffle(out)
    return out[:limit] if limit else out
