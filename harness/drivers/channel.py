"""Driver for specs/Channel: replays behaviours into a real client/server
pair.  Writer = the server's session channels, reader = the client's session
channels (window / max packet size are the client's create_session
arguments).  Every step's observable effect is compared with the model, and
the C07/C08 monitors are evaluated on observations only (bytes the sessions
received, packets seen on the wire)."""

import asyncssh
from asyncssh.constants import (MSG_CHANNEL_DATA, MSG_CHANNEL_EXTENDED_DATA,
                                MSG_CHANNEL_EOF, MSG_CHANNEL_WINDOW_ADJUST,
                                EXTENDED_DATA_STDERR)
from asyncssh.packet import String, UInt32

from harness.sshpair import Pair, NoAuthServer


def unit_byte(ch, dt, k):
    return (k + 100 * dt + 7 * ch) % 256


class World:
    def __init__(self, chans, initwin, pktsize, scale=1, high=None, low=None,
                 text=False):
        # text: the reading sessions are text-mode sessions (utf-16-le with
        # surrogatepass, so that every even-length byte string is text and
        # comes back unchanged when encoded again); use with scale=2: one
        # model unit = one character = two bytes, windows count BYTES
        self.text = text
        self.chans = list(chans)
        self.high = None if high is None else high * scale
        self.low = None if low is None else low * scale
        self.pause_calls = {c: [] for c in chans}   # session callbacks
        self.initwin = initwin * scale
        self.pktsize = pktsize * scale
        self.scale = scale
        world = self

        class Srv(NoAuthServer):
            def session_requested(self):
                return world._server_session()

        self.pair = Pair(server_cls=Srv, server_kw=dict(encoding=None))
        self.cchan = {}
        self.schan = {}
        self.rx = {c: {0: bytearray(), 1: bytearray()} for c in self.chans}
        self.order = {c: [] for c in self.chans}
        self.written = {c: {0: bytearray(), 1: bytearray()}
                        for c in self.chans}
        self.eof_sent = {c: False for c in self.chans}
        self.wire = {'s': [], 'c': []}   # channel packets put on the wire
        self.adj_delivered = {c: 0 for c in self.chans}
        self.adj_sent = {c: 0 for c in self.chans}
        self.sent_tot = {c: 0 for c in self.chans}
        self.rogue = 0
        self.pause_after = {c: None for c in self.chans}
        self.acc_tot = {c: 0 for c in self.chans}
        self.excess = []
        self._pending_sessions = []
        self._seen_events = 0

    # server side sessions (writers)
    def _server_session(self):
        w = self

        class SS(asyncssh.SSHServerSession):
            def connection_made(self, chan):
                self.chan = chan
                w._pending_sessions.append(chan)

            def shell_requested(self):
                return True

            def exec_requested(self, command):
                return True

            def pause_writing(self):
                w._on_pause(self.chan, 'pause')

            def resume_writing(self):
                w._on_pause(self.chan, 'resume')

        return SS()

    resume_hook = None      # fn(ch): called from inside resume_writing()

    def _on_pause(self, chan, what):
        for ch, c in self.schan.items():
            if c is chan:
                self.pause_calls[ch].append(what)
                if what == 'resume' and self.resume_hook is not None:
                    self.resume_hook(ch)

    def start(self):
        w = self
        p = self.pair.start()

        def mk(ch):
            class CS(asyncssh.SSHClientSession):
                def data_received(self, data, datatype):
                    dt = 1 if datatype == EXTENDED_DATA_STDERR else 0
                    if w.text:
                        data = data.encode('utf-16-le', 'surrogatepass')
                    w.rx[ch][dt] += data
                    w.order[ch] += [(dt, b) for b in data]
                    if w.pause_after[ch] is not None:
                        w.pause_after[ch] -= 1
                        if w.pause_after[ch] <= 0:
                            w.pause_after[ch] = None
                            w.cchan[ch].pause_reading()

                def eof_received(self):
                    w.order[ch].append('EOF')
                    return True         # keep our sending side open

            return CS

        async def open_all():
            for ch in self.chans:
                chan, _ = await p.conn.create_session(
                    mk(ch), command='x',
                    **(dict(encoding='utf-16-le', errors='surrogatepass')
                       if self.text else dict(encoding=None)),
                    window=self.initwin, max_pktsize=self.pktsize)
                self.cchan[ch] = chan
                self.schan[ch] = self._pending_sessions.pop(0)
                if self.high is not None:
                    self.schan[ch].set_write_buffer_limits(self.high,
                                                           self.low)

        p.run(open_all())
        p.manual()
        self._seen_events = len(p.events)
        return self

    def stop(self):
        self.pair.stop()

    # ---- wire bookkeeping from hook events ----
    def _scan(self):
        p = self.pair
        new = p.events[self._seen_events:]
        self._seen_events = len(p.events)
        out = []
        for side, name, f in new:
            if name != 'pkt_out' or f['pkttype'] < 90:
                continue
            t = f['pkttype']
            pl = f['payload']
            rchan = int.from_bytes(pl[1:5], 'big')
            ch = self._chan_of(side, rchan)
            if t == MSG_CHANNEL_DATA:
                n = int.from_bytes(pl[5:9], 'big')
                rec = ('data', ch, 0, n)
            elif t == MSG_CHANNEL_EXTENDED_DATA:
                n = int.from_bytes(pl[9:13], 'big')
                rec = ('data', ch, 1, n)
            elif t == MSG_CHANNEL_EOF:
                rec = ('eof', ch, 0, 0)
            elif t == MSG_CHANNEL_WINDOW_ADJUST:
                rec = ('adjust', ch, 0, int.from_bytes(pl[5:9], 'big'))
            else:
                rec = (f't{t}', ch, 0, 0)
            self.wire[side].append(rec)
            out.append((side, rec))
            if side == 's' and rec[0] == 'data':
                self.sent_tot[ch] += rec[3]
            if side == 'c' and rec[0] == 'adjust':
                self.adj_sent[ch] += rec[3]
        return out

    def _chan_of(self, side, rchan):
        for ch in self.chans:
            c = self.schan[ch] if side == 's' else self.cchan[ch]
            if c._send_chan == rchan:
                return ch
        # channel already detached: fall back on the peer's numbering
        for ch in self.chans:
            c = self.cchan[ch] if side == 's' else self.schan[ch]
            if c._recv_chan == rchan:
                return ch
        return None

    # ---- actions ----
    def do(self, lbl):
        p = self.pair
        kind = lbl[0]
        if kind == 'write':
            _, ch, dt, n = lbl
            k0 = len(self.written[ch][dt]) // self.scale
            data = bytes(unit_byte(ch, dt, k0 + i // self.scale + 1)
                         for i in range(n * self.scale))
            self.written[ch][dt] += data
            if dt == 0:
                p.call(self.schan[ch].write, data)
            else:
                p.call(self.schan[ch].write_stderr, data)
        elif kind == 'eof':
            self.eof_sent[lbl[1]] = True
            p.call(self.schan[lbl[1]].write_eof)
        elif kind == 'pause':
            p.call(self.cchan[lbl[1]].pause_reading)
        elif kind == 'resume':
            if len(lbl) > 3 and lbl[3]:
                self.pause_after[lbl[1]] = lbl[2]
            p.call(self.cchan[lbl[1]].resume_reading)
            self.pause_after[lbl[1]] = None
        elif kind == 'dfwd':
            if len(lbl) > 3 and lbl[3]:
                self.pause_after[lbl[2]] = 1
            self._dfwd()
            if len(lbl) > 3:
                self.pause_after[lbl[2]] = None
        elif kind == 'dbwd':
            took = p.deliver('c', lambda t: t == 93)
            for t, _, pl in took:
                if t == 93:
                    ch = self._chan_of('c', int.from_bytes(pl[1:5], 'big'))
                    self.adj_delivered[ch] += int.from_bytes(pl[5:9], 'big')
        elif kind == 'rogue':
            _, ch, n = lbl
            k0 = len(self.written[ch][0]) // self.scale
            data = bytes(unit_byte(ch, 0, k0 + i // self.scale + 1)
                         for i in range(n * self.scale))
            self.written[ch][0] += data
            self.rogue += 1
            p.call(self.schan[ch].send_packet, MSG_CHANNEL_DATA, String(data))
        else:
            raise ValueError(lbl)
        return self._scan()

    def _dfwd(self):
        p = self.pair
        took = p.deliver('s', lambda t: t in (94, 95, 96))
        self._scan()
        for t, _, pl in took:
            if t not in (94, 95) or 'c' in p.lost:
                continue
            ch = self._chan_of('s', int.from_bytes(pl[1:5], 'big'))
            n = int.from_bytes(pl[5:9] if t == 94 else pl[9:13], 'big')
            if ch is None:
                continue
            self.acc_tot[ch] += n
            if self.acc_tot[ch] > self.initwin + self.adj_sent[ch]:
                self.excess.append(
                    f'C08 RejectExcess: channel {ch} accepted '
                    f'{self.acc_tot[ch]} bytes although only '
                    f'{self.initwin + self.adj_sent[ch]} were ever '
                    f'advertised (reader paused: '
                    f'{bool(self.cchan[ch]._recv_paused)})')
        return took

    # ---- projections ----
    def observe(self):
        p = self.pair
        obs = {'err': 'c' in p.lost}
        obs['fwd'] = [(t, ch, dt, n // self.scale if t == 'data' else 0)
                      for (t, ch, dt, n) in self._undelivered('s')]
        obs['bwd'] = [(ch, n // self.scale)
                      for (t, ch, dt, n) in self._undelivered('c')
                      if t == 'adjust']
        obs['delivered'] = {ch: {dt: len(self.rx[ch][dt]) // self.scale
                                 for dt in (0, 1)} for ch in self.chans}
        obs['eofseen'] = {ch: 'EOF' in self.order[ch] for ch in self.chans}
        if not obs['err']:
            obs['swin'] = {ch: self.schan[ch]._send_window // self.scale
                           for ch in self.chans}
            if self.high is not None:
                obs['spaused'] = {ch: bool(self.schan[ch]._send_paused)
                                  for ch in self.chans}
            obs['rwin'] = {ch: self.cchan[ch]._recv_window // self.scale
                           for ch in self.chans}
            obs['buffered'] = {ch: sum(len(d) for d, _ in
                                       self.cchan[ch]._recv_buf) // self.scale
                               for ch in self.chans}
        return obs

    def _undelivered(self, side):
        n = len([q for q in self.pair.queue[side] if q[0] >= 90])
        return self.wire[side][len(self.wire[side]) - n:] if n else []

    # ---- L1 monitors on observations ----
    def l1(self):
        bad = list(self.excess)
        for ch in self.chans:
            for dt in (0, 1):
                got, want = bytes(self.rx[ch][dt]), bytes(self.written[ch][dt])
                if not want.startswith(got):
                    bad.append(f'C07 DeliveredIsPrefix: channel {ch} dt {dt} '
                               f'received {got.hex()} but {want.hex()} was '
                               f'written')
            if 'EOF' in self.order[ch]:
                if self.order[ch][-1] != 'EOF' or \
                        self.order[ch].count('EOF') > 1:
                    bad.append(f'C07 EOFLast: data after EOF on channel {ch}')
                if not self.eof_sent[ch]:
                    bad.append(f'C07 EOFLast: EOF seen but never sent on '
                               f'channel {ch}')
                for dt in (0, 1):
                    if bytes(self.rx[ch][dt]) != bytes(self.written[ch][dt]):
                        bad.append(f'C07 EOFLast: EOF before all data on '
                                   f'channel {ch} dt {dt}')
            if not self.rogue:
                if self.sent_tot[ch] > self.initwin + self.adj_delivered[ch]:
                    bad.append(f'C08 NeverExceedPeerWindow: channel {ch} sent '
                               f'{self.sent_tot[ch]} > granted '
                               f'{self.initwin + self.adj_delivered[ch]}')
            acc = len(self.rx[ch][0]) + len(self.rx[ch][1])
            if acc > self.initwin + self.adj_sent[ch]:
                bad.append(f'C08 NeverAcceptBeyondGrant: channel {ch} '
                           f'delivered {acc} > advertised '
                           f'{self.initwin + self.adj_sent[ch]}')
        if not self.rogue:
            for t, ch, dt, n in self.wire['s']:
                if t == 'data' and n > self.pktsize:
                    bad.append(f'C08 NeverExceedPktSize: packet of {n} > '
                               f'{self.pktsize}')
        return bad

    def writer_stuck(self, ch):
        """The writing session was told pause_writing() and, although its
        send buffer has drained to the low-water mark, never resume_writing():
        a writer waiting in drain() waits for ever."""
        c = self.schan[ch]
        calls = self.pause_calls[ch]
        if calls and calls[-1] == 'pause' and \
                c._send_buf_len <= c._send_low_water:
            return [f'C08 NoDeadlock: channel {ch}: the writing session was '
                    f'paused (pause_writing) and is not resumed although '
                    f'only {c._send_buf_len} bytes are buffered (low-water '
                    f'mark {c._send_low_water}, high {c._send_high_water})']
        return []

    def drain(self):
        """Resume every reader and deliver everything still in flight."""
        p = self.pair
        for ch in self.chans:
            if 'c' not in p.lost:
                p.call(self.cchan[ch].resume_reading)
        for _ in range(200):
            self._dfwd()
            for t, _, pl in p.deliver('c', lambda t: t == 93):
                if t == 93:
                    ch = self._chan_of('c', int.from_bytes(pl[1:5], 'big'))
                    if ch is not None:
                        self.adj_delivered[ch] += \
                            int.from_bytes(pl[5:9], 'big')
            self._scan()
            if not p.queue['s'] and not p.queue['c']:
                break


def model_obs(st, chans):
    def at(f, ch):
        return f[ch - 1] if isinstance(f, list) else f[ch]

    def dts(m, dt):
        return m.get(dt, m.get(str(dt), []))

    return {
        'err': st['err'],
        'fwd': [(m['t'], m['ch'], m['dt'], len(m['ids'])) for m in st['fwd']],
        'bwd': [(m['ch'], m['n']) for m in st['bwd']],
        'delivered': {ch: {dt: len(dts(at(st['delivered'], ch), dt))
                           for dt in (0, 1)} for ch in chans},
        'eofseen': {ch: ['EOF'] in at(st['dorder'], ch) for ch in chans},
        'swin': {ch: at(st['swin'], ch) for ch in chans},
        'spaused': {ch: at(st['spaused'], ch) for ch in chans},
        'rwin': {ch: at(st['rwin'], ch) for ch in chans},
        'buffered': {ch: sum(len(c['ids']) for c in at(st['rbuf'], ch))
                     for ch in chans},
    }


def replay(steps, chans, initwin, pktsize, scale=1, high=None, low=None,
           text=False):
    w = World(chans, initwin, pktsize, scale, high, low, text=text).start()
    res = {'diverged': None, 'l1': [], 'script': []}
    try:
        for i, (lbl, st) in enumerate(steps):
            w.do(lbl)
            res['script'].append(lbl)
            got = w.observe()
            want = model_obs(st, chans)
            for key in want:
                if key not in got:
                    continue
                if got[key] != want[key]:
                    res['diverged'] = (f'step {i} {lbl}: {key}: code='
                                       f'{got[key]!r} model={want[key]!r}')
                    break
            if got['err']:
                break
            if res['diverged']:
                # the rest of the schedule is carried out blindly: the
                # monitors judge a complete execution, model or no model
                for lbl2, _ in steps[i + 1:]:
                    if w.pair.lost:
                        break
                    try:
                        w.do(lbl2)
                    except Exception:       # pylint: disable=broad-except
                        break
                break
        mid = w.l1()
        w.drain()
        res['l1'] = sorted(set(mid + w.l1()))
        # after the drain every written byte must have arrived (C08 liveness)
        if not w.rogue and 'c' not in w.pair.lost:
            for ch in w.chans:
                for dt in (0, 1):
                    if bytes(w.rx[ch][dt]) != bytes(w.written[ch][dt]):
                        res['l1'].append(
                            f'C08 NoDeadlock: channel {ch} dt {dt}: reader '
                            f'kept reading but only {len(w.rx[ch][dt])} of '
                            f'{len(w.written[ch][dt])} bytes arrived')
                if w.eof_sent[ch] and 'EOF' not in w.order[ch]:
                    res['l1'].append(f'C07 EOF signalled on channel {ch} but '
                                     f'never delivered')
                res['l1'] += w.writer_stuck(ch)
        res['lost'] = {k: type(v).__name__ for k, v in w.pair.lost.items()}
        res['loop_exceptions'] = [str(c.get('exception') or c.get('message'))
                                  for c in w.pair.loop.exceptions]
        res['rogue'] = w.rogue
    finally:
        w.stop()
    return res


# ---------------------------------------------------------------------------
# code -> spec: record naturally scheduled executions for ChannelTrace.tla
# ---------------------------------------------------------------------------

_SSTATE = {'open': 'open', 'eof_pending': 'eof_pending', 'eof': 'eof'}


def record_natural(seed, chans, initwin, pktsize, nwrites=6, maxwrite=None,
                   mode='mixed', high=1, low=0):
    """One real connection with len(chans) session channels.  The server
    writes from one asyncio task per channel (random data type, size and
    virtual delay, then EOF), the client runs one reader task per channel
    that pauses / resumes at random, sessions pause themselves from inside
    data_received now and then, and both byte streams are segmented and
    stalled at random.  Returns dict(trace, l1, stats)."""
    import asyncio
    import random
    from asyncssh import _verif
    rng = random.Random(seed)
    maxwrite = maxwrite or 2 * initwin + 3
    w = World(chans, initwin, pktsize, high=high, low=low)
    selfpause = {c: 0 for c in chans}     # self-pauses inside callbacks
    want_selfpause = 'nopi' not in mode

    # sessions that pause themselves from inside data_received
    orig_start = w.start

    def patched_data_hook(ch):
        def hook():
            if want_selfpause and rng.random() < 0.25 and \
                    not w.cchan[ch]._recv_paused:
                w.cchan[ch].pause_reading()
                selfpause[ch] += 1
        return hook

    orig_start()
    p = w.pair
    p.auto()
    if 'rekey' in mode:
        # key re-exchanges all along (every few packets, started by either
        # side): packets held back while one runs go out afterwards, in order
        p.conn._rekey_bytes = rng.choice([1, 30, 90, 150 + rng.randrange(200)])
        p.sconn._rekey_bytes = rng.choice([1, 30, 90, 150 + rng.randrange(400)])
    # wrap the client sessions' data_received with the self-pause hook
    for ch in chans:
        sess = w.cchan[ch]._session
        hook = patched_data_hook(ch)
        orig = sess.data_received

        def data_received(data, datatype, _orig=orig, _hook=hook):
            _orig(data, datatype)
            _hook()
        sess.data_received = data_received
    log = []
    last_in = {'c': None, 's': None}
    conn_side = {id(p.conn): 'c', id(p.sconn): 's'}

    def chan_of_local(side, num):
        for ch in chans:
            c = w.cchan[ch] if side == 'c' else w.schan[ch]
            if c._recv_chan == num:
                return ch
        return None

    def wsnap(ch):
        c = w.schan[ch]
        return {'swin': c._send_window,
                'sbufN': sum(len(d) for d, _ in c._send_buf),
                'sstate': c._send_state, 'spaused': bool(c._send_paused)}

    def rsnap(ch):
        c = w.cchan[ch]
        return {'rwin': c._recv_window, 'rbufN': len(c._recv_buf),
                'paused': bool(c._recv_paused), 'rstate': c._recv_state,
                'dlen': [len(w.rx[ch][0]), len(w.rx[ch][1])],
                'err': 'c' in p.lost}

    def sink(name, f):
        side = conn_side.get(id(f.get('conn')))
        if side is None:
            return
        t = f.get('pkttype')
        if t is None or t < 90:
            return
        if name == 'pkt_out':
            pl = f['payload']
            if t == MSG_CHANNEL_DATA:
                rec = ['data', 0, int.from_bytes(pl[5:9], 'big')]
            elif t == MSG_CHANNEL_EXTENDED_DATA:
                rec = ['data', 1, int.from_bytes(pl[9:13], 'big')]
            elif t == MSG_CHANNEL_EOF:
                rec = ['eof', 0, 0]
            elif t == MSG_CHANNEL_WINDOW_ADJUST:
                rec = ['adjust', 0, int.from_bytes(pl[5:9], 'big')]
            else:
                rec = [f't{t}', 0, 0]
            log.append(('out', side, rec, None))
        elif name == 'pkt_in':
            pl = f['payload']
            ch = chan_of_local(side, int.from_bytes(pl[1:5], 'big'))
            n = int.from_bytes(pl[5:9], 'big') if t == 93 else 0
            last_in[side] = ch
            log.append(('in', side, (t, ch, n, selfpause.get(ch, 0)), None))
        elif name in ('pkt_done', 'pkt_handled'):
            ch = last_in[side]
            snap = {'sp': selfpause.get(ch, 0)}
            if ch is not None:
                snap['r' if side == 'c' else 'w'] = \
                    rsnap(ch) if side == 'c' else wsnap(ch)
            log.append(('done', side, t, snap))

    _verif.set_sink(sink)
    if 'whole' not in mode:
        for tr in (p.ct, p.st):
            tr.chunker = (lambda avail: rng.randint(1, max(1, avail))) \
                if 'tiny' not in mode else (lambda avail: rng.randint(1, 9))
    written = w.written
    done_writing = {c: False for c in chans}

    def app(kind, ch, fn, *args, extra=None):
        sp0 = selfpause[ch]
        rb0 = len(w.cchan[ch]._recv_buf)
        log.append(('app_begin', kind, ch, None))
        fn(*args)
        snap = wsnap(ch) if kind in ('write', 'eof') else rsnap(ch)
        log.append(('app_end', kind, ch,
                    dict(extra or {}, sp=selfpause[ch] - sp0, rb0=rb0,
                         snap=snap)))

    def on_resume(ch):
        # a session that acts from INSIDE resume_writing(): it writes the
        # next piece at once and, now and then, ends the stream right there
        if p.lost or w.eof_sent[ch]:
            return
        n = rng.randint(1, maxwrite)
        k0 = len(written[ch][0])
        data = bytes(unit_byte(ch, 0, k0 + i + 1) for i in range(n))
        written[ch][0] += data
        app('write', ch, w.schan[ch].write, data, extra={'dt': 0, 'n': n})
        if rng.random() < 0.5:
            w.eof_sent[ch] = True
            app('eof', ch, w.schan[ch].write_eof)

    if 'reent' in mode:
        w.resume_hook = on_resume

    async def writer(ch):
        for _ in range(nwrites):
            await asyncio.sleep(rng.choice([0, 0, 0.001, 0.003, 0.01]))
            if p.lost:
                return
            if w.eof_sent[ch]:
                done_writing[ch] = True
                return
            dt = rng.choice([0, 0, 1])
            n = rng.randint(1, maxwrite)
            k0 = len(written[ch][dt])
            data = bytes(unit_byte(ch, dt, k0 + i + 1) for i in range(n))
            written[ch][dt] += data
            fn = w.schan[ch].write if dt == 0 else w.schan[ch].write_stderr
            app('write', ch, fn, data, extra={'dt': dt, 'n': n})
        await asyncio.sleep(rng.choice([0, 0.002]))
        if not p.lost and not w.eof_sent[ch]:
            w.eof_sent[ch] = True
            app('eof', ch, w.schan[ch].write_eof)
        done_writing[ch] = True

    async def reader(ch):
        c = w.cchan[ch]
        for _ in range(400):
            await asyncio.sleep(rng.choice([0.0005, 0.001, 0.002, 0.006]))
            if p.lost:
                return
            if c._recv_paused:
                if rng.random() < 0.7:
                    app('resume', ch, c.resume_reading)
            elif c._recv_state == 'open' and rng.random() < 0.3 and \
                    'nopause' not in mode:
                app('pause', ch, c.pause_reading)
            if done_writing[ch] and 'EOF' in w.order[ch]:
                return
        # make sure everything is read in the end
        if c._recv_paused:
            app('resume', ch, c.resume_reading)

    async def staller():
        for _ in range(10):
            await asyncio.sleep(rng.choice([0.0005, 0.002, 0.004]))
            t = rng.choice([p.ct, p.st])
            t.auto = not t.auto
        p.ct.auto = p.st.auto = True

    async def go():
        tasks = [writer(ch) for ch in chans] + [reader(ch) for ch in chans]
        if 'stall' in mode or mode == 'mixed':
            tasks.append(staller())
        await asyncio.gather(*tasks)

    outcome = 'ok'
    try:
        p.run(go())
        p.ct.auto = p.st.auto = True
        p.loop.run_until_idle()
        for ch in chans:                   # final drain
            if w.cchan[ch]._recv_paused and 'c' not in p.lost:
                p.call(lambda ch=ch: app('resume', ch,
                                         w.cchan[ch].resume_reading))
        p.loop.run_until_idle()
    except Exception as exc:            # pylint: disable=broad-except
        outcome = f'{type(exc).__name__}: {exc}'
    _verif.set_sink(None)
    # ---- raw log -> events ----
    ev = []
    cur_app = None
    cur_in = {'c': None, 's': None}
    stray = []
    sent_tot = {c: 0 for c in chans}
    adj_got = {c: 0 for c in chans}
    win_bad = []
    for i, (kind, a, b, c) in enumerate(log):
        if kind == 'app_begin':
            cur_app = [a, b, []]
        elif kind == 'app_end':
            k, ch, outs = cur_app
            cur_app = None
            e = {'e': k, 'ch': ch, 'out': outs}
            e.update(c.pop('snap'))
            if k == 'write':
                e.update(dt=c['dt'], n=c['n'])
            elif k == 'resume':
                e.update(k=c['rb0'] - e['rbufN'], rp=bool(c['sp']))
            ev.append(e)
        elif kind == 'out':
            if cur_app is not None:
                cur_app[2].append(b)
            elif cur_in[a] is not None:
                cur_in[a][1].append(b)
            else:
                stray.append((a, b))
        elif kind == 'in':
            cur_in[a] = [b, []]
        elif kind == 'done':
            if cur_in[a] is None:
                continue
            (t, ch, n, sp0), outs = cur_in[a]
            cur_in[a] = None
            snap = c
            if a == 'c' and t in (94, 95, 96):
                e = {'e': 'dfwd', 't': 'eof' if t == 96 else 'data',
                     'ch': ch, 'pi': snap['sp'] > sp0, 'out': outs}
                e.update(snap['r'])
                ev.append(e)
            elif a == 's' and t == 93:
                adj_got[ch] += n
                e = {'e': 'dbwd', 'ch': ch, 'n': n, 'out': outs}
                e.update(snap['w'])
                ev.append(e)
            else:
                stray.append((a, t))
        # C08 on the wire, in the order things happened
        if kind in ('app_end', 'done') and ev:
            e = ev[-1]
            if e['e'] in ('write', 'eof', 'dbwd') and not e.get('_seen'):
                e['_seen'] = True
                for k_, _, n_ in e['out']:
                    if k_ == 'data':
                        sent_tot[e['ch']] += n_
                        if n_ > pktsize:
                            win_bad.append(f'C08 NeverExceedPktSize: packet '
                                           f'of {n_} > {pktsize}')
                if sent_tot[e['ch']] > initwin + adj_got[e['ch']]:
                    win_bad.append(
                        f'C08 NeverExceedPeerWindow: channel {e["ch"]} sent '
                        f'{sent_tot[e["ch"]]} > granted '
                        f'{initwin + adj_got[e["ch"]]}')
    for e in ev:
        e.pop('_seen', None)
    # (with sessions writing from inside resume_writing() the per-step
    # window bookkeeping above is not valid: a nested write is logged before
    # the adjust that made room for it)
    l1 = [] if 'reent' in mode else list(win_bad[:3])
    for ch in chans:
        for dt in (0, 1):
            got, want = bytes(w.rx[ch][dt]), bytes(written[ch][dt])
            if not want.startswith(got):
                l1.append(f'C07 DeliveredIsPrefix: channel {ch} dt {dt} '
                          f'received {got.hex()} but {want.hex()} was written')
        if 'EOF' in w.order[ch] and (w.order[ch][-1] != 'EOF' or
                                     w.order[ch].count('EOF') > 1):
            l1.append(f'C07 EOFLast: data after EOF on channel {ch}')
        if 's' not in p.lost:
            l1 += w.writer_stuck(ch)
    if p.lost:
        l1.append(f'HonestNoError: connection lost: {p.lost}')
    if outcome != 'ok':
        l1.append(f'session failed: {outcome}')
    for ch in chans:
        for dt in (0, 1):
            if bytes(w.rx[ch][dt]) != bytes(written[ch][dt]) and not l1:
                l1.append(f'C07 AllDelivered: channel {ch} dt {dt}: '
                          f'{len(w.rx[ch][dt])} of {len(written[ch][dt])} '
                          f'bytes arrived after everything was drained')
        if 'EOF' not in w.order[ch] and not l1:
            l1.append(f'C07 EOFLast: EOF never delivered on channel {ch}')
    exc = [str(c.get('exception') or c.get('message'))
           for c in p.loop.exceptions]
    w.stop()
    return {'trace': {'ev': ev, 'seed': seed, 'mode': mode,
                      'initwin': initwin, 'pktsize': pktsize,
                      'chans': list(chans)},
            'l1': l1, 'stray': stray, 'loop_exceptions': exc,
            'npause': sum(1 for e in ev if e['e'] == 'pause') +
            sum(selfpause.values()),
            'nadj': sum(1 for e in ev if e['e'] == 'dbwd')}
