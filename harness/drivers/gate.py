"""Driver for C06 (specs/Transport/Gate.tla): injects every message class at
every phase into a real endpoint, from a raw malicious peer (encrypted
phases) or through a MITM (cleartext phase), and compares what follows with
an untampered twin run."""

import asyncio

import asyncssh
from asyncssh.packet import Boolean, Byte, String, UInt32, NameList

from harness import rawpeer
from harness.sshpair import hostkey
from harness.vloop import new_loop, close_loop, Deadlock

# message class -> list of (type, body) variants: well-formed, truncated,
# with trailing bytes
def variants(cls, thorough=False):
    S, U, B = String, UInt32, Boolean
    w = {
        'DISCONNECT': (1, U(11) + S(b'bye') + S(b'')),
        'IGNORE': (2, S(b'x')),
        'UNIMPLEMENTED': (3, U(0)),
        'DEBUG': (4, B(False) + S(b'dbg') + S(b'')),
        'SERVICE_REQUEST': (5, S(b'ssh-userauth')),
        'SERVICE_ACCEPT': (6, S(b'ssh-userauth')),
        'EXT_INFO': (7, U(0)),
        'KEXINIT': (20, bytes(16) + b''.join(NameList([b'none'])
                                             for _ in range(10)) +
                    B(False) + U(0)),
        'NEWKEYS': (21, b''),
        'KEXMSG': (30, S(b'\x01' * 32)),
        'KEXOTHER': (41, S(b'q')),
        'USERAUTH_REQUEST': (50, S(b'u') + S(b'ssh-connection') + S(b'none')),
        'USERAUTH_FAILURE': (51, NameList([b'password']) + B(False)),
        'USERAUTH_SUCCESS': (52, b''),
        'USERAUTH_BANNER': (53, S(b'hi') + S(b'')),
        'AUTH60': (60, S(b'alg') + S(b'blob')),
        'GLOBAL_REQUEST': (80, S(b'keepalive@openssh.com') + B(True)),
        'REQUEST_REPLY': (81, b''),
        'CHANNEL_OPEN': (90, S(b'session') + U(3) + U(65536) + U(32768)),
        'CHANNEL_REPLY': (91, U(0) + U(0) + U(65536) + U(32768)),
        'CHANNEL_MSG': (94, U(0) + S(b'data')),
        'UNKNOWN_LOW': (9, b''),
        'UNKNOWN_MID': (55, b''),
        'UNKNOWN_HIGH': (85, b''),
    }
    t, body = w[cls]
    out = [('wellformed', t, body)]
    if body:
        out.append(('truncated', t, body[:max(0, len(body) // 2 - 1)]))
    out.append(('trailing', t, body + b'\xff\xfe'))
    if cls in ('DISCONNECT', 'USERAUTH_SUCCESS') or not thorough:
        return out[:1] + out[2:3] if cls != 'DISCONNECT' else out[:1]
    return out


ALL_TYPES = {c: variants(c)[0][1] for c in (
    'DISCONNECT', 'IGNORE', 'UNIMPLEMENTED', 'DEBUG', 'SERVICE_REQUEST',
    'SERVICE_ACCEPT', 'EXT_INFO', 'KEXINIT', 'NEWKEYS', 'KEXMSG', 'KEXOTHER',
    'USERAUTH_REQUEST', 'USERAUTH_FAILURE', 'USERAUTH_SUCCESS',
    'USERAUTH_BANNER', 'AUTH60', 'GLOBAL_REQUEST', 'REQUEST_REPLY',
    'CHANNEL_OPEN', 'CHANNEL_REPLY', 'CHANNEL_MSG', 'UNKNOWN_LOW',
    'UNKNOWN_MID', 'UNKNOWN_HIGH')}


def class_of(t):
    names = {1: 'DISCONNECT', 2: 'IGNORE', 3: 'UNIMPLEMENTED', 4: 'DEBUG',
             5: 'SERVICE_REQUEST', 6: 'SERVICE_ACCEPT', 7: 'EXT_INFO',
             20: 'KEXINIT', 21: 'NEWKEYS', 50: 'USERAUTH_REQUEST',
             51: 'USERAUTH_FAILURE', 52: 'USERAUTH_SUCCESS',
             53: 'USERAUTH_BANNER', 80: 'GLOBAL_REQUEST', 81: 'REQUEST_REPLY',
             82: 'REQUEST_REPLY', 90: 'CHANNEL_OPEN', 91: 'CHANNEL_REPLY',
             92: 'CHANNEL_REPLY'}
    if t in names:
        return names[t]
    if 30 <= t <= 49:
        return 'KEXOTHER'
    if 60 <= t <= 79:
        return 'AUTH60'
    if 93 <= t <= 127:
        return 'CHANNEL_MSG'
    return 'UNKNOWN_LOW' if t < 50 else 'UNKNOWN_MID' if t < 80 \
        else 'UNKNOWN_HIGH'


# ---------------------------------------------------------------------------
# A: real SERVER under test, raw malicious client
# ---------------------------------------------------------------------------

# P4r / P4s: authenticated, after a completed key RE-exchange started by the
# raw client / by the server under test (the gate must be the same as in P4)
SERVER_PHASES = ['P2', 'P3', 'P4', 'P4r', 'P4s']
# the model's P3 is "a method's exchange is outstanding"; before the first
# request and after a FAILURE no handler is installed (P3n)
MODEL_PHASE = {'P4r': 'P4n', 'P4s': 'P4n', 'P3': 'P3n', 'P3k': 'P3',
               'P3f': 'P3n', 'P3p': 'P3n', 'P3q': 'P3'}
# points of the dialogue with real authentication (run_server_auth_case):
#   P3k keyboard-interactive challenge outstanding, P3f after the FAILURE that
#   ended a keyboard-interactive attempt, P3p after a password FAILURE, P3q
#   after a public key query was answered (PK_OK: the handler stays
#   installed, but none of its messages is defined for the server side)
AUTH_PHASES = ['P3k', 'P3f', 'P3p', 'P3q']
# a keyboard-interactive response that would be accepted if it were looked at
GOOD_RESPONSE = (61, UInt32(1) + String(b'secret'))


def run_server_case(phase=None, pkttype=None, body=b'', second=None,
                    no_strict=False, cleartext=None, wrong_guess=False):
    """Standard dialogue (service request, none auth, session open, exec)
    with an optional injected packet (and optional second one) at `phase`.
    Returns dict(seen=[types], log=[...], closed=bool)."""
    loop = new_loop()
    log = []
    res = {}

    class SS(asyncssh.SSHServerSession):
        def connection_made(self, chan):
            log.append('session_made')

        def exec_requested(self, command):
            log.append(('exec', command))
            return True

    class Srv(asyncssh.SSHServer):
        def connection_made(self, conn):
            res['sconn'] = conn

        def connection_lost(self, exc):
            log.append(('server_lost', type(exc).__name__ if exc else None))
            res['closed'] = True

        def begin_auth(self, username):
            log.append(('begin_auth', username))
            return False

        def auth_completed(self):
            log.append(('auth_completed',
                        res['sconn'].get_extra_info('username')))

        def session_requested(self):
            log.append('session_requested')
            return SS()

    # every packet the server under test emits (types, IGNORE left out)
    from asyncssh import _verif
    emitted = []

    # what the server emits AFTER it has received a packet the raw client
    # injected in the cleartext phase: the k-th packet the client puts on the
    # wire is the k-th packet the server takes in (FIFO, nothing lost)
    marks = {'sent': 0, 'recv': 0, 'inj': set(), 'after': None}

    def after_inj():
        return None if marks['after'] is None else emitted[marks['after']:]

    def sink(name, f):
        conn = f.get('conn')
        if conn is None:
            return
        if name == 'pkt_out' and conn.is_server() and f['pkttype'] != 2:
            emitted.append(f['pkttype'])
        elif name == 'pkt_out' and conn.is_client():
            marks['sent'] += 1
            if getattr(conn, '_injecting', False):
                marks['inj'].add(marks['sent'])
        elif name == 'pkt_in' and conn.is_server():
            marks['recv'] += 1
            if marks['recv'] in marks['inj'] and marks['after'] is None:
                marks['after'] = len(emitted)

    _verif.set_sink(sink)

    async def go():
        res['acc'] = await asyncssh.listen(
            '127.0.0.1', 2222, server_factory=Srv,
            server_host_keys=[hostkey()], encoding=None)
        res['raw'] = await rawpeer.raw_connect(
            '127.0.0.1', 2222, hold_service=True, no_strict=no_strict,
            cleartext_inject=cleartext, wrong_guess=wrong_guess)

    try:
        loop.run_until_complete(go())
    except (asyncssh.Error, OSError, Deadlock) as exc:
        try:
            loop.run_until_idle()
        except BaseException:           # pylint: disable=broad-except
            pass
        _verif.set_sink(None)
        close_loop(loop)
        return {'seen': [], 'log': log, 'closed': True,
                'setup_error': repr(exc), 'loop_exceptions': [],
                'emitted': list(emitted), 'after_inj': after_inj()}
    raw = res['raw']
    loop.run_until_idle()
    raw.take()
    seen = []

    def send(t, b):
        loop.run_callback(raw.raw_send, t, b)
        for tt, _ in raw.take():
            if tt not in (2, 80):
                seen.append(tt)

    def inject():
        if pkttype is not None:
            send(pkttype, body)
            if second is not None:
                send(*second)

    if phase == 'P2':
        inject()
    send(5, String(b'ssh-userauth'))
    if phase == 'P3':
        inject()
    send(50, rawpeer.userauth_request('u', 'none'))
    if phase == 'P4':
        inject()
    if phase in ('P4r', 'P4s'):
        def rekey():
            c = raw if phase == 'P4r' else res['sconn']
            c._send_kexinit()
            c._kexinit_sent = True
        nk = [res['sconn']._recv_seq]
        loop.run_callback(rekey)
        loop.run_until_idle()
        if not (raw._kex_complete and res['sconn']._kex_complete):
            log.append('rekey-incomplete')
        inject()
    send(90, rawpeer.session_open(chan=5))
    conf = [p for t, p in raw.inbox if t == 91]
    send(98, UInt32(0) + String(b'exec') + Boolean(True) + String(b'cmd'))
    out = {'seen': seen, 'log': list(log), 'closed': bool(res.get('closed')),
           'emitted': list(emitted), 'after_inj': after_inj(),
           'loop_exceptions': [str(c.get('exception') or c.get('message'))
                               for c in loop.exceptions]}
    _verif.set_sink(None)
    try:
        raw.abort()
        res['acc'].close()
        loop.run_until_idle()
    except BaseException:               # pylint: disable=broad-except
        pass
    close_loop(loop)
    return out


def run_server_auth_case(phase=None, pkttype=None, body=b''):
    """Dialogue with real authentication: keyboard-interactive request ->
    challenge -> wrong response -> FAILURE -> password (wrong) -> FAILURE ->
    public key query -> PK_OK -> password (right) -> SUCCESS -> session
    open, exec; with an optional injected packet at `phase`."""
    loop = new_loop()
    log = []
    res = {}
    key = asyncssh.generate_private_key('ssh-ed25519')

    class SS(asyncssh.SSHServerSession):
        def connection_made(self, chan):
            log.append('session_made')

        def exec_requested(self, command):
            log.append(('exec', command))
            return True

    class Srv(asyncssh.SSHServer):
        def connection_made(self, conn):
            res['sconn'] = conn

        def connection_lost(self, exc):
            log.append(('server_lost', type(exc).__name__ if exc else None))
            res['closed'] = True

        def begin_auth(self, username):
            log.append(('begin_auth', username))
            return True

        def kbdint_auth_supported(self):
            return True

        def get_kbdint_challenge(self, username, lang, submethods):
            return '', '', '', [('Code:', False)]

        def validate_kbdint_response(self, username, responses):
            log.append(('kbdint', list(responses)))
            return list(responses) == ['secret']

        def password_auth_supported(self):
            return True

        def validate_password(self, username, password):
            log.append(('password', password))
            return password == 'pw'

        def public_key_auth_supported(self):
            return True

        def validate_public_key(self, username, k):
            return True

        def auth_completed(self):
            log.append(('auth_completed',
                        res['sconn'].get_extra_info('username')))

        def session_requested(self):
            log.append('session_requested')
            return SS()

    from asyncssh import _verif
    emitted = []

    def sink(name, f):
        conn = f.get('conn')
        if name == 'pkt_out' and conn is not None and conn.is_server() and \
                f['pkttype'] != 2:
            emitted.append(f['pkttype'])

    _verif.set_sink(sink)

    async def go():
        res['acc'] = await asyncssh.listen(
            '127.0.0.1', 2222, server_factory=Srv,
            server_host_keys=[hostkey()], encoding=None)
        res['raw'] = await rawpeer.raw_connect('127.0.0.1', 2222,
                                               hold_service=True)

    loop.run_until_complete(go())
    raw = res['raw']
    loop.run_until_idle()
    raw.take()
    seen = []

    def send(t, b):
        loop.run_callback(raw.raw_send, t, b)
        for tt, _ in raw.take():
            if tt not in (2, 80):
                seen.append(tt)

    def inject(ph):
        if phase == ph and pkttype is not None:
            send(pkttype, body)

    send(5, String(b'ssh-userauth'))
    send(50, rawpeer.userauth_request('u', 'keyboard-interactive',
                                      String(b''), String(b'')))
    inject('P3k')
    send(61, UInt32(1) + String(b'wrong'))
    inject('P3f')
    send(50, rawpeer.password_request('u', 'bad'))
    inject('P3p')
    send(50, rawpeer.userauth_request(
        'u', 'publickey', Boolean(False), String(key.algorithm),
        String(key.public_data)))
    inject('P3q')
    send(50, rawpeer.password_request('u', 'pw'))
    send(90, rawpeer.session_open(chan=5))
    send(98, UInt32(0) + String(b'exec') + Boolean(True) + String(b'cmd'))
    out = {'seen': seen, 'log': list(log), 'closed': bool(res.get('closed')),
           'emitted': list(emitted),
           'loop_exceptions': [str(c.get('exception') or c.get('message'))
                               for c in loop.exceptions]}
    _verif.set_sink(None)
    try:
        raw.abort()
        res['acc'].close()
        loop.run_until_idle()
    except BaseException:               # pylint: disable=broad-except
        pass
    close_loop(loop)
    return out


# ---------------------------------------------------------------------------
# B: real CLIENT under test, raw malicious server
# ---------------------------------------------------------------------------

CLIENT_POINTS = ['before_accept', 'after_accept', 'before_failure',
                 'after_failure', 'before_success', 'after_success',
                 'after_rekey']


def run_client_case(point=None, pkttype=None, body=b'', second=None,
                    fail_first=True):
    """A real client (password auth) against a scripted server: SERVICE
    ACCEPT, FAILURE(password) for the none request, SUCCESS for the password
    request.  An optional packet is injected at `point`."""
    loop = new_loop()
    log = []
    res = {'requests': 0, 'finals': 0, 'success_when_idle': False,
           'success_ok': 0}
    conns = []

    class Cli(asyncssh.SSHClient):
        def auth_completed(self):
            log.append('auth_completed')

        def auth_banner_received(self, msg, lang):
            log.append(('banner', msg))

        def connection_lost(self, exc):
            log.append(('client_lost', type(exc).__name__ if exc else None))

    def on_conn(conn):
        conns.append(conn)

        def inject():
            if pkttype is not None:
                _send(pkttype, body)
                if second is not None:
                    _send(*second)

        def _send(t, b):
            if t == 52:
                # judged at the end: the client's own requests may still be
                # in flight towards us when this is sent
                res.setdefault('succ', []).append(res['finals'])
            if t in (51, 52):
                res['finals'] += 1
            conn.raw_send(t, b)

        def on_packet(t, payload):
            if t == 5:
                if point == 'before_accept':
                    inject()
                conn.raw_send(6, String(b'ssh-userauth'))
                if point == 'after_accept':
                    inject()
            elif t == 50:
                res['requests'] += 1
                method = payload.split(b'ssh-connection')[1][4:8]
                if res['requests'] == 1 and fail_first:
                    if point == 'before_failure':
                        inject()
                    _send(51, NameList([b'password']) + Boolean(False))
                    if point == 'after_failure':
                        inject()
                else:
                    if point == 'before_success':
                        inject()
                    _send(52, b'')
                    if point == 'after_success':
                        inject()
                    if point == 'after_rekey':
                        # a complete re-exchange started by the server, then
                        # the injection
                        async def later():
                            conn._send_kexinit()
                            conn._kexinit_sent = True
                            for _ in range(200):
                                await asyncio.sleep(0)
                                if conn._kex_complete:
                                    break
                            else:
                                log.append('rekey-incomplete')
                            inject()
                        res['later'] = asyncio.ensure_future(later())

        conn.on_packet = on_packet

    from asyncssh import _verif
    cev = []

    def sink(name, f):
        conn = f.get('conn')
        if conn is None or not conn.is_client():
            return
        if name == 'pkt_out' and f['pkttype'] == 50:
            cev.append('out50')
        elif name == 'pkt_in' and f['pkttype'] in (51, 52):
            cev.append(f'in{f["pkttype"]}')

    _verif.set_sink(sink)

    async def go():
        res['acc'] = await rawpeer.raw_listen(
            '127.0.0.1', 2222, on_conn, server_host_keys=[hostkey()])
        try:
            conn = await asyncssh.connect(
                '127.0.0.1', 2222, known_hosts=None, config=None,
                client_keys=None, username='u', password='pw',
                client_factory=Cli)
            res['conn'] = conn
            res['username'] = conn.get_extra_info('username')
            return 'connected'
        except asyncssh.Error as exc:
            return 'error:' + type(exc).__name__
        except Exception as exc:        # pylint: disable=broad-except
            return 'error!:' + type(exc).__name__

    try:
        outcome = loop.run_until_complete(go())
    except Deadlock:
        outcome = 'stall'
    except OSError as exc:
        outcome = 'error:' + type(exc).__name__
    loop.run_until_idle()
    _verif.set_sink(None)
    # from the client's own packet log: a SUCCESS is legitimate iff the client
    # sent a USERAUTH_REQUEST after the last final response it processed
    pending = False
    for e in cev:
        if e == 'out50':
            pending = True
        elif e == 'in51':
            pending = False
        elif e == 'in52':
            if pending:
                res['success_ok'] += 1
            else:
                res['success_when_idle'] = True
            pending = False
    out = {'outcome': outcome, 'log': list(log),
           'requests': res['requests'],
           'success_when_idle': res['success_when_idle'],
           'success_ok': res['success_ok'],
           'loop_exceptions': [str(c.get('exception') or c.get('message'))
                               for c in loop.exceptions]}
    try:
        if 'conn' in res:
            res['conn'].abort()
        for c in conns:
            c.abort()
        res['acc'].close()
        loop.run_until_idle()
    except BaseException:               # pylint: disable=broad-except
        pass
    for t in asyncio.all_tasks(loop):
        t.cancel()
    close_loop(loop)
    return out


def acted(emitted, twin_emitted):
    """Did the endpoint under test DO something the untampered twin did not:
    its emitted packet types, DISCONNECT (1) and UNIMPLEMENTED (3) aside,
    must be a prefix of what the twin emitted."""
    mine = [t for t in emitted if t not in (1, 3)]
    return mine != twin_emitted[:len(mine)]
