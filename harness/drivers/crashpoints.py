"""Crash-point enumeration for C09: a scripted client scenario (process with
stdin/stdout streams and drain, a second channel, SFTP requests, connection
close) is run against a real server; then re-run once per (packet boundary k,
fault kind), where the fault (transport cut, close or abort by either side)
is applied when the k-th packet of the session is written.  After the fault
the loop is run until idle (virtual time never advances), and every awaited
call must have completed or failed: no task may be left pending."""

import asyncio
import os
import shutil
import tempfile

import asyncssh

from harness.sshpair import hostkey
from harness.vloop import new_loop, close_loop

KINDS = ['cut', 'server_close', 'server_abort', 'client_close',
         'client_abort', 'cut_client_only', 'cut_server_only']


FLOW_N = 12000


async def _server_process(proc):
    try:
        if proc.command == 'flow':
            # the peer has sent EOF; this side then writes more than window
            # plus write buffer and waits in drain()
            proc.stdout.channel.set_write_buffer_limits(high=2048)
            await proc.stdin.read()
            proc.stdout.write('x' * FLOW_N)
            await proc.stdout.drain()
            proc.stderr.write('e' * 3000)
            await proc.stderr.drain()
            proc.exit(0)
            return
        if proc.command == 'sink':
            # EOF first, then read slowly what the peer pushes
            proc.stdout.write('ready')
            proc.stdout.write_eof()
            n = 0
            while True:
                data = await proc.stdin.read(700)
                if not data:
                    break
                n += len(data)
            proc.exit(n % 251)
            return
        async for line in proc.stdin:
            proc.stdout.write(line.upper())
            await proc.stdout.drain()
        proc.stderr.write('done\n')
        proc.exit(0)
    except (asyncssh.Error, OSError):
        pass


async def scenario(conn, log):
    """The client's program.  Every await is an operation C09 talks about."""
    log.append('s0')
    proc = await conn.create_process('x')
    proc.stdin.write('hello\n')
    await proc.stdin.drain()
    line = await proc.stdout.readline()
    log.append(('line', line))
    chan2, sess2 = await conn.create_session(asyncssh.SSHClientSession, 'y')
    # several global requests in flight at once (remote port forwards)
    listeners = await asyncio.gather(
        *(conn.forward_remote_port('', 0, '127.0.0.1', 2222)
          for _ in range(3)))
    log.append(('listeners', len(listeners)))
    for lst in listeners[:2]:
        lst.close()
    await asyncio.gather(*(lst.wait_closed() for lst in listeners[:2]))
    sftp = await conn.start_sftp_client()
    names = await sftp.listdir('.')
    log.append(('names', sorted(names)))
    # several SFTP requests in flight at once
    res3 = await asyncio.gather(sftp.stat('.'), sftp.listdir('.'),
                                sftp.exists('nope'), sftp.getcwd())
    log.append(('multi', len(res3)))
    async with sftp.open('f.txt', 'w') as f:
        await f.write('data' * 100)
    st = await sftp.stat('f.txt')
    log.append(('size', st.size))
    proc.stdin.write('bye\n')
    proc.stdin.write_eof()
    res = await proc.wait()
    log.append(('exit', res.exit_status, res.stdout, res.stderr))
    chan2.close()
    await chan2.wait_closed()
    sftp.exit()
    await sftp.wait_closed()
    conn.close()
    await conn.wait_closed()
    log.append('end')


async def scenario_flow(conn, log):
    """Writers blocked by flow control (drain) after the peer's EOF, readers
    blocked on data, on both sides, when the fault strikes."""
    log.append('f0')
    p1 = await conn.create_process('flow', window=1024, max_pktsize=512)
    p1.stdin.write('abc')
    p1.stdin.write_eof()
    p2 = await conn.create_process('sink')
    p2.stdin.channel.set_write_buffer_limits(high=2048)
    ready = await p2.stdout.read()
    log.append(('ready', ready))
    p2.stdin.write('y' * FLOW_N)
    await p2.stdin.drain()
    log.append('drained')
    p2.stdin.write_eof()
    out, err = await asyncio.gather(p1.stdout.read(), p1.stderr.read())
    log.append(('flow', len(out), len(err)))
    r1, r2 = await asyncio.gather(p1.wait(), p2.wait())
    log.append(('exit', r1.exit_status, r2.exit_status))
    conn.close()
    await conn.wait_closed()
    log.append('end')


class Run:
    def __init__(self, fault_at=None, kind=None, workdir=None,
                 scenario=None, server_kw=None):
        self.scenario = scenario or globals()['scenario']
        self.server_kw = server_kw or {}
        self.fault_at = fault_at
        self.kind = kind
        self.loop = new_loop()
        self.nwrites = 0
        self.owner = {'c': [], 's': []}
        self.log = []
        self.tmp = tempfile.mkdtemp(prefix='c09cp', dir=workdir)
        self.sconn = None
        self.conn = None
        self.fired = False
        r = self

        class Srv(asyncssh.SSHServer):
            def connection_made(self, conn):
                r.sconn = conn
                r.owner['s'].append('connection_made')

            def connection_lost(self, exc):
                r.owner['s'].append('connection_lost')

            def begin_auth(self, username):
                return False

            def server_requested(self, listen_host, listen_port):
                return True

        class Cli(asyncssh.SSHClient):
            def connection_made(self, conn):
                r.conn = conn
                r.owner['c'].append('connection_made')

            def auth_completed(self):
                r.owner['c'].append('auth_completed')

            def connection_lost(self, exc):
                r.owner['c'].append('connection_lost')

        self.Srv, self.Cli = Srv, Cli

    def _filter(self, transport, idx, data):
        self.nwrites += 1
        if self.fault_at is not None and not self.fired and \
                self.nwrites == self.fault_at:
            self.fired = True
            self.loop.call_soon(self._fault)
        return [data]

    def _fault(self):
        ts = self.loop.net.all_transports
        ct = [t for t in ts if t.name == 'c'][0]
        st = [t for t in ts if t.name == 's'][0]
        k = self.kind
        if k == 'cut':
            ct.cut()
            st.cut()
        elif k == 'cut_client_only':
            ct.cut()
        elif k == 'cut_server_only':
            st.cut()
        elif k == 'server_close' and self.sconn:
            self.sconn.close()
        elif k == 'server_abort' and self.sconn:
            self.sconn.abort()
        elif k == 'client_close' and self.conn:
            self.conn.close()
        elif k == 'client_abort' and self.conn:
            self.conn.abort()

    def run(self):
        loop = self.loop
        res = {'pending': [], 'outcome': None}

        async def client():
            conn = await asyncssh.connect(
                '127.0.0.1', 2222, known_hosts=None, config=None,
                client_keys=None, username='u', client_factory=self.Cli)
            await self.scenario(conn, self.log)

        async def main():
            self.acc = await asyncssh.listen(
                '127.0.0.1', 2222, server_factory=self.Srv,
                server_host_keys=[hostkey()],
                process_factory=_server_process,
                sftp_factory=lambda chan: asyncssh.SFTPServer(
                    chan, chroot=self.tmp), **self.server_kw)
            # tap every write of both directions from the very first byte
            orig = loop.net.connect

            def connect(factory, addr, local_addr=None):
                tr, proto = orig(factory, addr, local_addr)
                tr.filter = self._filter
                tr.peer.filter = self._filter
                return tr, proto

            loop.net.connect = connect
            self.task = loop.create_task(client())

        loop.run_until_complete(main())
        loop.run_until_idle()
        t = self.task
        if not t.done():
            res['outcome'] = 'pending'
        elif t.cancelled():
            res['outcome'] = 'cancelled'
        elif t.exception() is not None:
            res['outcome'] = 'error:' + type(t.exception()).__name__
        else:
            res['outcome'] = 'ok'
        self.acc.close()
        loop.run_until_idle()
        for task in asyncio.all_tasks(loop):
            if not task.done():
                res['pending'].append(repr(task.get_coro())[:160])
        res['owner'] = self.owner
        res['nwrites'] = self.nwrites
        res['log'] = self.log
        res['channels'] = {
            'c': len(self.conn._channels) if self.conn else 0,
            's': len(self.sconn._channels) if self.sconn else 0}
        res['loop_exceptions'] = [str(c.get('exception') or c.get('message'))
                                  for c in loop.exceptions]
        for task in asyncio.all_tasks(loop):
            task.cancel()
        try:
            loop.run_until_idle()
        except BaseException:           # pylint: disable=broad-except
            pass
        close_loop(loop)
        shutil.rmtree(self.tmp, ignore_errors=True)
        return res


def judge(res, faulted):
    bad = []
    if res['outcome'] == 'pending' or res['pending']:
        bad.append(f'AllWaitersResolved: still pending when the loop went '
                   f'idle: scenario={res["outcome"]} tasks={res["pending"][:3]}'
                   f' (last progress: {res["log"][-1:]})')
    for x in 'cs':
        o = res['owner'][x]
        if o.count('connection_lost') > 1:
            bad.append(f'CloseOnceAndLast: owner {x} connection_lost x'
                       f'{o.count("connection_lost")}')
        if 'connection_lost' in o and o[-1] != 'connection_lost':
            bad.append(f'CloseOnceAndLast: owner {x} callbacks after '
                       f'connection_lost: {o}')
        if o and o[0] != 'connection_made':
            bad.append(f'LegalOrder: owner {x}: {o}')
        if o and 'connection_lost' not in o:
            bad.append(f'CloseOnceAndLast: owner {x} never got '
                       f'connection_lost: {o}')
        if res['channels'][x]:
            bad.append(f'NoChannelLeft: {res["channels"][x]} channels left '
                       f'on side {x}')
    if not faulted and res['outcome'] != 'ok':
        bad.append(f'fault-free scenario did not complete: {res["outcome"]}')
    return bad
