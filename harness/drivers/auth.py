"""Driver for the Auth specification: replays behaviours of specs/Auth into a
real SSHServerConnection and projects the implementation's observable state
back onto the specification's variables.

External actions of the model map to:
  send m        -> the raw peer queues a real packet (real passwords, real
                   signatures made over the right / wrong session id, user,
                   service, key)
  chunk k       -> k queued packets are written and handed to the server's
                   data_received() in ONE call
  exec t        -> the harness completes the executor job (reload_config)
                   that model task t is waiting for
  val t         -> the harness completes the application awaitable that
                   model task t is waiting for
  run (sync|async) -> decides whether the next application callback answers
                   synchronously or returns an awaitable
"""

import asyncio
import os
import shutil
import tempfile

import asyncssh
from asyncssh.constants import (MSG_USERAUTH_REQUEST, MSG_CHANNEL_OPEN,
                                MSG_GLOBAL_REQUEST)
from asyncssh.packet import Boolean, String

from harness import rawpeer
from harness.vloop import new_loop, close_loop, Deadlock

USERS = ['A', 'B']
SIG_VARIANTS = ['wrongsid', 'wronguser', 'wrongsvc', 'wrongkey']

_keys = {}


def keys():
    if not _keys:
        _keys['host'] = asyncssh.generate_private_key('ssh-ed25519')
        for u in USERS + ['Bad', 'Other']:
            _keys[u] = asyncssh.generate_private_key('ssh-ed25519')
    return _keys


class World:
    def __init__(self, pkmode='callback', noauth=(), sig_variant='wrongsid',
                 probe_kind='open', workdir=None, nokeys=()):
        self.pkmode = pkmode
        self.noauth = set(noauth)
        self.nokeys = set(nokeys)     # users for whom no key is authorised
        self.sig_variant = sig_variant
        self.probe_kind = probe_kind
        self.loop = new_loop()
        self.events = []         # observable events, in order
        self.modes = []          # upcoming callback modes
        self.pending_vals = []   # [fut, truth, kind, user]
        self.calls = []          # (kind, user, arg, mode)
        self.sconn = None
        self.server_lost = False
        self.server_exc = None
        self.completed = []      # usernames reported at auth_completed
        self.sessions = 0
        self.queue = []          # packets queued by 'send'
        self.sent_msgs = []      # abstract messages handed to the server
        self.replies = []        # abstract replies seen by the raw peer
        self.raw = None
        self.acceptor = None
        self.tmp = None
        self.workdir = workdir

    # ------------------------------------------------------------------
    def app_call(self, kind, user, arg, truth):
        mode = self.modes.pop(0) if self.modes else 'sync'
        self.calls.append((kind, user, arg, mode))
        self.events.append(('call', kind, user, mode))
        if mode == 'sync':
            res = truth()
            self.events.append(('answer', kind, user, _b(res)))
            return res
        fut = self.loop.create_future()
        self.pending_vals.append([fut, truth, kind, user])
        return fut

    def live_vals(self):
        return [v for v in self.pending_vals if not v[0].done()]

    def complete_val(self, idx):
        v = self.live_vals()[idx]
        res = v[1]()
        self.events.append(('answer', v[2], v[3], _b(res)))
        v[0].set_result(res)

    def live_jobs(self):
        return [j for j in self.loop.exec_jobs if not j[0].cancelled()]

    # ------------------------------------------------------------------
    def start(self):
        world = self
        k = keys()

        class Server(asyncssh.SSHServer):
            def connection_made(self, conn):
                world.sconn = conn

            def connection_lost(self, exc):
                world.server_lost = True
                world.server_exc = exc
                world.events.append(('server_lost', type(exc).__name__))

            def begin_auth(self, username):
                if world.pkmode == 'begin' and username in USERS and \
                        username not in world.nokeys:
                    # the pattern of the documentation: the user's keys are
                    # installed when authentication begins for that user
                    world.sconn.set_authorized_keys(os.path.join(
                        world.tmp, username, 'authorized_keys'))
                return world.app_call('begin', username, None,
                                      lambda: username not in world.noauth)

            def password_auth_supported(self):
                return True

            def validate_password(self, username, password):
                return world.app_call('pw', username, password,
                                      lambda: password == 'pw-' + username)

            def public_key_auth_supported(self):
                return world.pkmode == 'callback'

            def validate_public_key(self, username, key):
                return world.app_call(
                    'pk', username, None,
                    lambda: username in USERS and
                    username not in world.nokeys and
                    key.public_data == k[username].public_data)

            def kbdint_auth_supported(self):
                return True

            def get_kbdint_challenge(self, username, lang, submethods):
                return world.app_call(
                    'kbdch', username, None,
                    lambda: ('', '', '', [('Password:', False)]))

            def validate_kbdint_response(self, username, responses):
                return world.app_call(
                    'kbd', username, list(responses),
                    lambda: list(responses) == ['pw-' + username])

            def auth_completed(self):
                u = world.sconn.get_extra_info('username')
                world.completed.append(u)
                world.events.append(('auth_completed', u))

            def session_requested(self):
                world.sessions += 1
                world.events.append(('session_requested',))
                return False

        opts = dict(server_factory=Server, server_host_keys=[k['host']])
        if self.pkmode in ('config', 'begin'):
            self.tmp = tempfile.mkdtemp(prefix='authcfg', dir=self.workdir)
            for u in USERS:
                if u in self.nokeys:
                    continue
                os.makedirs(os.path.join(self.tmp, u))
                with open(os.path.join(self.tmp, u, 'authorized_keys'),
                          'w') as f:
                    f.write(k[u].export_public_key('openssh').decode())
        if self.pkmode == 'config':
            cfg = os.path.join(self.tmp, 'sshd_config')
            with open(cfg, 'w') as f:
                f.write(f'AuthorizedKeysFile {self.tmp}/%u/authorized_keys\n')
            opts['config'] = [cfg]

        async def go():
            self.acceptor = await asyncssh.listen('127.0.0.1', 2222, **opts)
            self.raw = await rawpeer.raw_connect('127.0.0.1', 2222)

        self.loop.run_until_complete(go())
        self.loop.run_until_idle()
        self.loop.exec_mode = 'manual'
        self.st = [t for t in self.loop.net.all_transports
                   if t.name == 's'][0]
        self.st.auto = False
        self.raw.take()
        self.events.clear()

    def stop(self):
        try:
            self.loop.exec_mode = 'deferred'
            for j in list(self.loop.exec_jobs):
                j[0].cancel()
            self.loop.exec_jobs.clear()
            if self.raw is not None:
                self.raw.abort()
            if self.acceptor is not None:
                self.acceptor.close()
            self.st.auto = True
            self.loop.run_until_idle()
        except BaseException:           # pylint: disable=broad-except
            pass
        close_loop(self.loop)
        if self.tmp:
            shutil.rmtree(self.tmp, ignore_errors=True)

    # ------------------------------------------------------------------
    def packet_for(self, m):
        """Materialise an abstract client message into (pkttype, body)."""
        k = keys()
        kind = m['kind']
        if kind == 'probe':
            if self.probe_kind == 'open':
                return MSG_CHANNEL_OPEN, rawpeer.session_open()
            return MSG_GLOBAL_REQUEST, (String(b'keepalive@openssh.com') +
                                        Boolean(True))
        if kind == 'resp':
            return 61, rawpeer.info_response('pw-' + _cred(m['cred']))
        user, method, cred = m['user'], m['method'], _cred(m['cred'])
        if method == 'none':
            return MSG_USERAUTH_REQUEST, rawpeer.userauth_request(user, 'none')
        if method == 'password':
            return MSG_USERAUTH_REQUEST, \
                rawpeer.password_request(user, 'pw-' + cred)
        if method == 'kbdint':
            return MSG_USERAUTH_REQUEST, rawpeer.kbdint_request(user)
        key = k[cred]
        if method == 'pkq':
            return MSG_USERAUTH_REQUEST, rawpeer.query_pk_request(user, key)
        sid = self.raw._session_id
        kw = {}
        if m['sig'] != 'ok':
            v = self.sig_variant
            if v == 'wrongsid':
                kw['sign_sid'] = bytes(len(sid))
            elif v == 'wronguser':
                kw['sign_user'] = 'B' if user == 'A' else 'A'
            elif v == 'wrongsvc':
                kw['sign_service'] = b'ssh-userauth'
            elif v == 'wrongkey':
                kw['sign_key'] = k['Other']
        return MSG_USERAUTH_REQUEST, \
            rawpeer.signed_pk_request(sid, user, key, **kw)

    def send(self, m):
        self.queue.append(m)

    def chunk(self, n):
        msgs, self.queue = self.queue[:n], self.queue[n:]
        for m in msgs:
            t, body = self.packet_for(m)
            self.raw.raw_send(t, body)
            self.sent_msgs.append(m)
        # client's writes are now pending at the server transport
        self.loop.run_callback(self.st.deliver)
        self._collect()

    def exec_done(self, idx):
        job = self.live_jobs()[idx]
        self.loop.exec_jobs.remove(job)
        self.loop.run_callback(self.loop._run_job, *job)
        self._collect()

    def val_done(self, idx):
        self.loop.run_callback(self.complete_val, idx)
        self._collect()

    def _collect(self):
        for t, payload in self.raw.take():
            if t == 52:
                self.replies.append('success')
            elif t == 51:
                self.replies.append('failure')
            elif t == 60:
                self.replies.append('t60')
            elif t == 3:
                self.replies.append('unimp')
            elif t in (91, 92, 81, 82):
                self.replies.append('probe-reply')
            elif t == 80:
                pass                    # hostkeys-00@openssh.com after auth
            else:
                self.replies.append(f't{t}')

    # ------------------------------------------------------------------
    def observe(self):
        """Projection of the implementation onto the spec's observables."""
        u = None
        if self.sconn is not None and self.completed:
            u = self.sconn.get_extra_info('username')
        return {
            'out': [r for r in self.replies if r != 'probe-reply'],
            'authDone': bool(self.completed),
            'granted': u,
            'completedUsers': list(self.completed),
            'closed': self.server_lost,
            'accepted': self.replies.count('probe-reply'),
            'njobs': len(self.live_jobs()),
            'nvals': len(self.live_vals()),
        }


def _b(res):
    return res if isinstance(res, bool) else 'challenge'


def _cred(c):
    return c if c in USERS else 'Bad'


# ----------------------------------------------------------------------
# L1 monitor: AuthSoundObs / GateUntilAuth on observables only
# ----------------------------------------------------------------------

def valid_for(u, m, nokeys=()):
    if m['kind'] != 'req' or m['user'] != u:
        return False
    if m['method'] == 'password':
        return m['cred'] == u
    if m['method'] == 'pks':
        return m['cred'] == u and m['sig'] == 'ok' and u not in nokeys
    return False


def kbd_valid_for(u, msgs, i):
    m = msgs[i]
    return (m['kind'] == 'resp' and m['cred'] == u and
            any(x['kind'] == 'req' and x['user'] == u and
                x['method'] == 'kbdint' for x in msgs[:i]))


def l1_violations(world):
    """Return a list of property clauses violated by the observed run."""
    bad = []
    obs = world.observe()
    msgs = world.sent_msgs
    for u in obs['completedUsers']:
        ok = (u in world.noauth or
              any(valid_for(u, m, world.nokeys) for m in msgs) or
              any(kbd_valid_for(u, msgs, i) for i in range(len(msgs))))
        if not ok:
            bad.append(f'AuthSound: access granted to {u!r} but no valid '
                       f'credential for that user was ever presented')
    if obs['granted'] is not None and obs['completedUsers'] and \
            obs['granted'] != obs['completedUsers'][0]:
        bad.append('GrantStable: authenticated user changed after success')
    # gate: any reply to / action on a non-auth request before auth
    seen_auth = False
    for e in world.events:
        if e[0] == 'auth_completed':
            seen_auth = True
        if e[0] == 'session_requested' and not seen_auth:
            bad.append('GateUntilAuth: session request reached the '
                       'application before authentication')
    if obs['accepted'] and not obs['authDone']:
        bad.append('GateUntilAuth: non-auth request answered before '
                   'authentication')
    return bad


# ----------------------------------------------------------------------
# Replay of one TLC behaviour
# ----------------------------------------------------------------------

def model_obs(st):
    out = []
    for o in st['out']:
        if o[0] in ('pkok', 'inforeq'):
            out.append('t60')
        else:
            out.append(o[0])
    tasks = st['task']
    return {
        'out': out,
        'authDone': st['authDone'],
        'granted': st['granted'] if st['granted'] != 'NULL' else None,
        'closed': st['closed'],
        'accepted': st['accepted'],
        'njobs': sum(1 for t in tasks if t['wait'] == 'exec' and
                     not t['cancelled']),
        'nvals': sum(1 for t in tasks if t['wait'] == 'val' and
                     not t['cancelled']),
    }


def replay(steps, **world_kw):
    """steps: list of (label, state) for states 2..n of a behaviour.
    Returns dict(diverged=None|str, l1=[...], world=...)."""
    w = World(**world_kw)
    w.start()
    res = {'diverged': None, 'l1': [], 'script': []}
    try:
        exec_tids = []      # model task ids with a pending job, oldest first
        val_tids = []
        i = 0
        n = len(steps)
        while i < n:
            lbl, st = steps[i]
            kind = lbl[0]
            # the group: this external step + following internal steps
            j = i + 1
            while j < n and steps[j][0][0] in ('recv', 'run', 'unpark'):
                j += 1
            group = steps[i:j]
            gl = group[-1][1]
            if kind != 'send' and not gl['closed'] and \
                    (gl['ready'] or (gl['chunkLeft'] and not gl['parked'])):
                break       # behaviour was cut by the depth bound mid-step
            if kind == 'send':
                w.send(lbl[1])
                res['script'].append(('send', lbl[1]))
                i += 1
                continue
            # callback modes needed while the loop runs this group
            w.modes = [g[0][2] for g in group
                       if g[0][0] == 'run' and g[0][2] in ('sync', 'async')]
            if kind == 'chunk':
                w.chunk(lbl[1])
                res['script'].append(('chunk', lbl[1]))
            elif kind == 'exec':
                idx = exec_tids.index(lbl[1])
                exec_tids.pop(idx)
                w.exec_done(idx)
                res['script'].append(('exec', idx))
            elif kind == 'val':
                idx = val_tids.index(lbl[1])
                val_tids.pop(idx)
                w.val_done(idx)
                res['script'].append(('val', idx))
            else:
                res['diverged'] = f'unexpected label {lbl}'
                break
            # bookkeeping of which model task waits for what, oldest first
            for g in group:
                if g[0][0] == 'run':
                    if g[0][3] == 'exec':
                        exec_tids.append(g[0][1])
                    elif g[0][3] == 'val':
                        val_tids.append(g[0][1])
            last = group[-1][1]
            live = {t + 1 for t, T in enumerate(last['task'])
                    if not T['cancelled']}
            exec_tids = [t for t in exec_tids if t in live]
            val_tids = [t for t in val_tids if t in live]
            if w.modes:
                res['diverged'] = (f'step {i}: model made more application '
                                   f'callbacks than the code: {w.modes}')
                break
            got = w.observe()
            want = model_obs(last)
            for key in want:
                if want['closed'] and key in ('njobs', 'nvals'):
                    continue        # clean-up cancels everything
                if got[key] != want[key]:
                    res['diverged'] = (f'step {i} ({lbl}): {key}: code='
                                       f'{got[key]!r} model={want[key]!r}')
                    break
            if res['diverged']:
                break
            i = j
        res['l1'] = l1_violations(w)
        res['obs'] = w.observe()
        res['events'] = list(w.events)
        res['loop_exceptions'] = [str(c.get('exception') or c.get('message'))
                                  for c in w.loop.exceptions]
        res['msgs'] = list(w.sent_msgs)
    finally:
        w.stop()
    return res


def run_script(script, **world_kw):
    """Run a hand-written scenario: list of ('send', m) | ('chunk', k) |
    ('exec', idx) | ('val', idx) | ('modes', [...])."""
    w = World(**world_kw)
    w.start()
    try:
        for op in script:
            if op[0] == 'send':
                w.send(op[1])
            elif op[0] == 'modes':
                w.modes = list(op[1])
            elif op[0] == 'chunk':
                w.chunk(op[1])
            elif op[0] == 'exec':
                # a step that the current code no longer offers is skipped
                if op[1] < len(w.live_jobs()):
                    w.exec_done(op[1])
            elif op[0] == 'val':
                if op[1] < len(w.live_vals()):
                    w.val_done(op[1])
        # drain: complete whatever is still pending, oldest first
        for _ in range(20):
            if w.live_vals():
                w.val_done(0)
            elif w.live_jobs():
                w.exec_done(0)
            else:
                break
        return {'l1': l1_violations(w), 'obs': w.observe(),
                'events': list(w.events)}
    finally:
        w.stop()
