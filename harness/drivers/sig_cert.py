"""Driver for specs/SigCert: materialises the rows of the three decision
tables (certificate, SSHSIG, plain signature) with real keys and real byte
strings, runs them through asyncssh's public API and reports what was
observed.

  certificate row -> a hand-encoded OpenSSH certificate (own encoder, so
                     unknown options / types / bad CA signatures can be
                     expressed) -> asyncssh.import_certificate(), then
                     cert.validate(type, principal) under a patched clock
  sshsig row      -> asyncssh.create_sshsig() once per signer; allowed-signers
                     text built from the row's lines -> validate_sshsig()
  verify row      -> key.sign() once per algorithm; the blob / key / data are
                     altered as the row says -> key.verify()
plus byte sweeps (every single-byte edit of signature blobs, certificates and
SSHSIG blobs) and second opinions from ssh-keygen.
"""

import binascii
import os
import random
import shutil
import struct
import subprocess
import tempfile
import time

import asyncssh

# (spec name, key algorithm, signature algorithm)
ALG_TABLE = [
    ('ed25519', 'ssh-ed25519', b'ssh-ed25519'),
    ('ecdsa256', 'ecdsa-sha2-nistp256', b'ecdsa-sha2-nistp256'),
    ('rsa-sha2-256', 'ssh-rsa', b'rsa-sha2-256'),
    ('ecdsa384', 'ecdsa-sha2-nistp384', b'ecdsa-sha2-nistp384'),
    ('rsa-sha2-512', 'ssh-rsa', b'rsa-sha2-512'),
    ('ed448', 'ssh-ed448', b'ssh-ed448'),
    ('ecdsa521', 'ecdsa-sha2-nistp521', b'ecdsa-sha2-nistp521'),
    ('ssh-rsa', 'ssh-rsa', b'ssh-rsa'),
    ('dss', 'ssh-dss', b'ssh-dss'),
]

A = 1893456000          # 2030-01-01T00:00:00Z : valid_after of every window
B = A + 3600            # valid_before
NOW = {'a-1': A - 1, 'a': A, 'b-1': B - 1, 'b': B}
# the same abstract instants with a fractional clock (time.time() is a float)
NOW_FRAC = {'a-1': A - 0.001, 'a': A + 0.25, 'b-1': B - 0.001, 'b': B + 0.25}

PRINCIPAL = 'principal'
_real_time = time.time


class Clock:
    """Patch time.time() for the duration of a block."""

    def __init__(self, now):
        self.now = now

    def __enter__(self):
        now = self.now
        time.time = lambda: now
        return self

    def __exit__(self, *exc):
        time.time = _real_time
        return False


def S(b):
    if isinstance(b, str):
        b = b.encode('utf-8')
    return struct.pack('>I', len(b)) + b


def U32(n):
    return struct.pack('>I', n)


def U64(n):
    return struct.pack('>Q', n)


# --------------------------------------------------------------------------
# keys
# --------------------------------------------------------------------------

_pool = {}


def pool():
    """Per key algorithm: signer 'k', another key of the same type 'k2', a CA
    key 'ca'.  Generated once per process."""
    if _pool:
        return _pool
    for _, kalg, _ in ALG_TABLE:
        if kalg in _pool:
            continue
        try:
            _pool[kalg] = {n: asyncssh.generate_private_key(kalg)
                           for n in ('k', 'k2', 'ca')}
        except (asyncssh.KeyGenerationError, ValueError):
            _pool[kalg] = None
    return _pool


def algs():
    p = pool()
    return [(n, k, s) for n, k, s in ALG_TABLE if p.get(k)]


def other_type_key(kalg):
    p = pool()
    o = 'ssh-ed25519' if kalg != 'ssh-ed25519' else 'ecdsa-sha2-nistp256'
    return p[o]['k']


def other_family_name(kalg):
    return b'ssh-ed25519' if kalg != 'ssh-ed25519' else b'rsa-sha2-256'


# --------------------------------------------------------------------------
# certificates
# --------------------------------------------------------------------------

CRIT_ENC = {
    'force-command': lambda: S('force-command') + S(S('ls -l')),
    'source-address': lambda: S('source-address') + S(S('10.0.0.0/8,::1/128')),
    'verify-required': lambda: S('verify-required') + S(b''),
    'unknown': lambda: S('unknown-option@verif') + S(S('x')),
}
CTYPE = {'user': 1, 'host': 2, 'other': 3}
WANT = {'any': 0, 'user': 1, 'host': 2}


def cert_alg(key):
    return key.algorithm + b'-cert-v01@openssh.com'


def key_blob_body(key):
    """The key-specific part of the public blob (without the algorithm)."""
    pd = key.public_data
    n = struct.unpack('>I', pd[:4])[0]
    return pd[4 + n:]


def cert_fields(ca, sig_alg, subject, ctype=1, principals=(), after=0,
                before=2 ** 64 - 1, crit=b'', ext=b'', key_id='verif-id',
                serial=7, nonce=None, signer=None):
    """Return the list of (field name, bytes) of a v01 certificate, CA
    signature last.  `signer`: key that actually signs (default the CA named
    inside the certificate)."""
    nonce = nonce if nonce is not None else os.urandom(32)
    fields = [('alg', S(cert_alg(subject))), ('nonce', S(nonce)),
              ('key', key_blob_body(subject)), ('serial', U64(serial)),
              ('type', U32(ctype)), ('key_id', S(key_id)),
              ('principals', S(b''.join(S(p) for p in principals))),
              ('valid_after', U64(after)), ('valid_before', U64(before)),
              ('critical', S(crit)), ('extensions', S(ext)),
              ('reserved', S(b'')), ('ca_key', S(ca.public_data))]
    body = b''.join(f for _, f in fields)
    sig = (signer or ca).sign(body, sig_alg)
    fields.append(('signature', S(sig)))
    return fields


def cert_line(blob, alg, comment=b''):
    return alg + b' ' + binascii.b2a_base64(blob)[:-1] + \
        (b' ' + comment if comment else b'') + b'\n'


def import_cert_blob(blob, alg):
    """-> (cert or None, exception or None)"""
    try:
        return asyncssh.import_certificate(cert_line(blob, alg)), None
    except Exception as exc:            # pylint: disable=broad-except
        return None, exc


# listed principal names that are legal on the wire but never the wanted one
ODD_NAMES = ['', ' ', 'p ', ' q', 'P', 'p,q', '*', 'p*', '?', 'p\x00', 'pé',
             'q' * 300, 'ｐ', 'none', 'None']
KEY_IDS = ['verif-id', '', 'ключ é', 'k' * 300, ' id with spaces ', 'a,b\n']
SERIALS = [7, 0, 2 ** 64 - 1, 2 ** 32]


_odd_counter = [0]


def odd_principals(rnd):
    """Odd names for one certificate.  The first name cycles through
    ODD_NAMES deterministically (so every odd name is, over a run, the only
    principal of some otherwise acceptable certificate); how many follow and
    which is random."""
    v = _odd_counter[0]
    _odd_counter[0] += 1
    first = ODD_NAMES[v % len(ODD_NAMES)]
    n = [1, 1, 2, 1, 3][(v // len(ODD_NAMES)) % 5]
    out = [first] + [rnd.choice(ODD_NAMES) for _ in range(n - 1)]
    if rnd.random() < 0.25:
        out.append(first)               # a duplicate
    return out


def build_row_cert(cls, kalg, sig_alg, rnd, key_id=None, serial=None,
                   principals=None):
    """cls = (ctype, princ(tuple), crit(tuple), ext, casig).
    -> (blob, cert algorithm, how the CA signature was spoilt, fields put in)
    """
    ctype, princ, crit, ext, casig = cls
    p = pool()[kalg]
    ca, subject = p['ca'], p['k']
    critb = b''.join(CRIT_ENC[n]() for n in sorted(crit))
    fc_value = 'ls -l'
    if 'force-command' in crit and rnd.random() < 0.25:
        # an understood option with an empty value is still understood
        fc_value = ''
        critb = critb.replace(S('force-command') + S(S('ls -l')),
                              S('force-command') + S(S('')))
    extb = b''
    if ext == 'empty':
        extb += S('aaa-unknown@verif') + S(b'')
    elif ext == 'wrapped':
        extb += S('aaa-unknown@verif') + S(S('some value'))
    extb += S('permit-pty') + S(b'')
    how = 'ok'
    signer = None
    if casig == 'bad':
        how = rnd.choice(['flip', 'otherkey', 'body'])
        if how == 'otherkey':
            signer = p['k2']
    names = sorted(n for n in princ if n != 'odd')
    if principals is not None:
        names = list(principals)        # replay of a recorded case
    elif 'odd' in princ:
        for o in odd_principals(rnd):
            names.insert(rnd.randrange(len(names) + 1), o)
    key_id = rnd.choice(KEY_IDS) if key_id is None else key_id
    serial = rnd.choice(SERIALS) if serial is None else serial
    fields = cert_fields(ca, sig_alg, subject, CTYPE[ctype], names,
                         A, B, critb, extb, key_id=key_id, serial=serial,
                         nonce=rnd.randbytes(32), signer=signer)
    put = {'principals': names, 'key_id': key_id, 'serial': serial,
           'valid_after': A, 'valid_before': B,
           'force-command': fc_value if 'force-command' in crit else None,
           'source-address': ['10.0.0.0/8', '::1/128']
           if 'source-address' in crit else None}
    blob = bytearray(b''.join(f for _, f in fields))
    if how == 'flip':
        blob[-1 - rnd.randrange(8)] ^= 1 << rnd.randrange(8)
    elif how == 'body':
        blob[4 + len(cert_alg(subject)) + 4 + rnd.randrange(32)] ^= 0x10
    return bytes(blob), cert_alg(subject), how, put


def decoded_fields(cert):
    """What asyncssh decoded, in the shape of `put` (None where the object
    does not expose the field)."""
    sa = cert.options.get('source-address')
    return {'principals': list(cert.principals),
            'key_id': getattr(cert, '_key_id', None),
            'serial': getattr(cert, '_serial', None),
            'valid_after': getattr(cert, '_valid_after', None),
            'valid_before': getattr(cert, '_valid_before', None),
            'force-command': cert.options.get('force-command'),
            'source-address': [str(n) for n in sa] if sa else None}


_VAL_STAGE = {'Invalid certificate type': 'vtype',
              'Certificate not yet valid': 'vafter',
              'Certificate expired': 'vbefore',
              'Certificate principal mismatch': 'vprinc'}


def validate_row(cert, want, wantp, now):
    """-> ('accept'|'reject', stage/exception text)"""
    with Clock(now):
        try:
            cert.validate(WANT[want], None if wantp == 'none' else wantp)
        except ValueError as exc:
            return 'reject', _VAL_STAGE.get(str(exc), 'v?' + str(exc))
        except Exception as exc:        # pylint: disable=broad-except
            return 'reject', 'v!' + type(exc).__name__
    return 'accept', 'none'


# extension values that collide with a known extension name (soft spot:
# _decode_options does not skip the value of an unknown extension)
def collision_certs(kalg='ssh-ed25519', sig_alg=b'ssh-ed25519'):
    p = pool()[kalg]
    out = []
    for name, extb, expect_opts in [
            ('raw value = known extension name',
             S('aaa-unknown@verif') + S('permit-pty'), {}),
            ('raw value = known name, then empty-named extension',
             S('aaa-unknown@verif') + S('permit-pty') + S('') + S(''), {}),
            ('raw value = known name, then another unknown extension',
             S('aaa-unknown@verif') + S('permit-X11-forwarding') +
             S('zzz@verif') + S(''), {})]:
        fields = cert_fields(p['ca'], sig_alg, p['k'], 1, [], A, B, b'', extb)
        blob = b''.join(f for _, f in fields)
        cert, exc = import_cert_blob(blob, cert_alg(p['k']))
        out.append((name, cert, exc, expect_opts))
    return out


# --------------------------------------------------------------------------
# plain signatures
# --------------------------------------------------------------------------

def split_sig(sig):
    """SSH signature blob -> (name, rest)"""
    n = struct.unpack('>I', sig[:4])[0]
    return sig[4:4 + n], sig[4 + n:]


def alter_sig(sig, how, rnd):
    name, rest = split_sig(sig)
    if how == 'same':
        return sig
    if how == 'flip':
        # a bit inside the innermost payload
        i = len(sig) - 1 - rnd.randrange(min(20, len(rest) - 4))
        b = bytearray(sig)
        b[i] ^= 1 << rnd.randrange(8)
        return bytes(b)
    if how == 'trunc':
        if rnd.random() < 0.5:
            return sig[:-1]                       # structure broken
        inner = rest[4:]
        return S(name) + S(inner[:-1])            # well-formed, one byte short
    if how == 'ext':
        if rnd.random() < 0.5:
            return sig + b'\0'
        inner = rest[4:]
        return S(name) + S(inner + b'\0')
    if how == 'reenc':
        generic = [b for n, b in reencodings('', sig)
                   if n in ('inner+leading-zero', 'inner+trailing-zero',
                            'inner-first-byte', 'trailing-empty-string',
                            'signature-string-twice', 'leading-zero-stripped')]
        return rnd.choice(generic)
    raise ValueError(how)


def verify_row(row, rnd, cache):
    """row: dict(alg, name, key, data, sig) -> observed bool or exception"""
    spec = {n: (k, s) for n, k, s in ALG_TABLE}
    kalg, sig_alg = spec[row['alg']]
    p = pool()[kalg]
    data = (b'C16 message ' + row['alg'].encode() + b' ') * 12
    ck = (row['alg'],)
    if ck not in cache:
        cache[ck] = p['k'].sign(data, sig_alg)
    sig = cache[ck]
    name, rest = split_sig(sig)
    if row['name'] == 'othersup':
        # another algorithm the key supports = a name with a different hash
        # (ssh-rsa-sha256@ssh.com etc. are aliases of the same algorithm)
        mine = RSA_HASH[sig_alg]
        others = sorted(a for a in p['k'].all_sig_algorithms
                        if a in RSA_HASH and RSA_HASH[a] != mine)
        sig = S(rnd.choice(others)) + rest
    elif row['name'] == 'unsup':
        sig = S(other_family_name(kalg)) + rest
    sig = alter_sig(sig, row['sig'], rnd)
    if row['data'] == 'diff':
        mid = len(data) // 2
        data = rnd.choice([data + b'x', data[:-1], b'X' + data[1:],
                           data[:-1] + b'\0', data[:mid] + b'#' +
                           data[mid + 1:], data + data, b''])
    key = {'same': p['k'], 'othersame': p['k2'],
           'othertype': other_type_key(kalg)}[row['key']]
    pub = key.convert_to_public()
    try:
        return bool(pub.verify(data, sig)), None
    except Exception as exc:            # pylint: disable=broad-except
        return False, exc


RSA_HASH = {b'rsa-sha2-256': 'sha256', b'rsa-sha2-512': 'sha512',
            b'ssh-rsa': 'sha1', b'ssh-rsa-sha224@ssh.com': 'sha224',
            b'ssh-rsa-sha256@ssh.com': 'sha256',
            b'ssh-rsa-sha384@ssh.com': 'sha384',
            b'ssh-rsa-sha512@ssh.com': 'sha512'}

MASKS_QUICK = (0x01,)
MASKS_THOROUGH = (0x01, 0x80, 0xff)


def sweep_signature(kalg, sig_alg, masks):
    """Every single-byte edit (xor with each mask), truncation and extension
    of a signature blob.  Yields (what, position, accepted, exception)."""
    p = pool()[kalg]
    data = (b'sweep ' + sig_alg + b' ') * 11
    sig = p['k'].sign(data, sig_alg)
    pub = p['k'].convert_to_public()
    ok = pub.verify(data, sig)
    yield 'unchanged', -1, ok, None
    # other message sizes: the unaltered signature verifies, and does not
    # verify for the message with its last byte / length changed
    for n in (0, 1, 63, 64, 65, 127, 128, 129, 1000, 70000):
        d = bytes((i * 7 + n) & 0xff for i in range(n))
        sg = p['k'].sign(d, sig_alg)
        yield 'unchanged', n, pub.verify(d, sg), None
        for what, d2 in [('msg-last', d[:-1] + bytes([d[-1] ^ 1]) if d
                          else b'\0'), ('msg-longer', d + b'\0'),
                         ('msg-shorter', d[:-1] if d else b'\1')]:
            try:
                yield what, n, bool(pub.verify(d2, sg)), None
            except Exception as exc:    # pylint: disable=broad-except
                yield what, n, False, exc
    for i in range(len(sig)):
        for m in masks:
            b = bytearray(sig)
            b[i] ^= m
            try:
                yield 'byte', (i, m), bool(pub.verify(data, bytes(b))), None
            except Exception as exc:    # pylint: disable=broad-except
                yield 'byte', (i, m), False, exc
    for what, s in [('trunc', sig[:-1]), ('trunc0', sig[:4]), ('empty', b''),
                    ('ext', sig + b'\0'), ('ext2', sig + sig)]:
        try:
            yield what, -1, bool(pub.verify(data, s)), None
        except Exception as exc:        # pylint: disable=broad-except
            yield what, -1, False, exc
    for i in range(len(data)):
        d = bytearray(data)
        d[i] ^= 0x01
        try:
            yield 'data', i, bool(pub.verify(bytes(d), sig)), None
        except Exception as exc:        # pylint: disable=broad-except
            yield 'data', i, False, exc


def sweep_certificate(kalg, sig_alg, masks, rnd):
    """Every single-byte edit of a valid certificate.  Yields
    (field, position, accepted, exception)."""
    p = pool()[kalg]
    fields = cert_fields(p['ca'], sig_alg, p['k'], 1, ['p', 'q'], A, B,
                         CRIT_ENC['force-command'](),
                         S('permit-pty') + S(b''), nonce=rnd.randbytes(32))
    blob = b''.join(f for _, f in fields)
    alg = cert_alg(p['k'])
    cert, exc = import_cert_blob(blob, alg)
    yield 'unchanged', -1, cert is not None, exc
    bounds = []
    off = 0
    for name, f in fields:
        bounds.append((name, off, off + len(f)))
        off += len(f)
    for name, lo, hi in bounds:
        for i in range(lo, hi):
            for m in masks:
                b = bytearray(blob)
                b[i] ^= m
                cert, exc = import_cert_blob(bytes(b), alg)
                yield name, (i - lo, m), cert is not None, exc
    for what, bb in [('trunc', blob[:-1]), ('ext', blob + b'\0'),
                     ('sig-dropped', blob[:bounds[-1][1]]),
                     ('sig-empty', blob[:bounds[-1][1]] + S(b''))]:
        cert, exc = import_cert_blob(bb, alg)
        yield what, -1, cert is not None, exc


# --------------------------------------------------------------------------
# SSHSIG
# --------------------------------------------------------------------------

MSG = b'The quick brown fox\n' * 3
NS = 'file'
NS_OTHER = 'mail'


def ts(t):
    return time.strftime('%Y%m%d%H%M%S', time.gmtime(t)) + 'Z'


# certificates whose principals never include PRINCIPAL (cert_odd)
SSHSIG_ODD = [[''], [' '], ['', ''], [PRINCIPAL + ' '], ['Principal'],
              [PRINCIPAL + ',x'], ['*'], ['prin*'], ['', 'x'],
              [PRINCIPAL + '\x00'], ['principál']]


class SigWorld:
    """Signatures and certificates for one key algorithm."""

    def __init__(self, kalg):
        p = pool()[kalg]
        self.kalg = kalg
        self.k, self.other, self.ca = p['k'], p['k2'], p['ca']
        with Clock(A):
            self.certs = {
                'cert_ok': self.ca.generate_user_certificate(
                    self.k, 'id', principals=[PRINCIPAL, 'x'],
                    valid_after=A - 10, valid_before=B + 10),
                'cert_ok_noprinc': self.ca.generate_user_certificate(
                    self.k, 'id'),
                'cert_expired': self.ca.generate_user_certificate(
                    self.k, 'id', principals=[PRINCIPAL],
                    valid_after=A - 5000, valid_before=A - 1000),
                'cert_princ': self.ca.generate_user_certificate(
                    self.k, 'id', principals=['somebody-else'])}
            for i, names in enumerate(SSHSIG_ODD):
                self.certs[f'cert_odd{i}'] = \
                    self.ca.generate_user_certificate(self.k, 'id',
                                                      principals=names)
        self.sigs = {}

    def sig(self, signer, variant=0):
        key = signer
        if signer == 'cert_ok' and variant % 2:
            key = 'cert_ok_noprinc'
        elif signer == 'cert_odd':
            key = f'cert_odd{variant % len(SSHSIG_ODD)}'
        if key not in self.sigs:
            kp = self.k if signer == 'key' else (self.k, self.certs[key])
            self.sigs[key] = asyncssh.create_sshsig(kp, MSG, namespace=NS,
                                                    raw=True)
        return self.sigs[key]

    def line(self, l, variant=0):
        pat = {'match': [PRINCIPAL, '*', 'prin*', 'x,' + PRINCIPAL,
                         '!other,prin?ipal'],
               'nomatch': ['other', 'principal2', 'x,y'],
               'neg': ['*,!' + PRINCIPAL, 'prin*,!*pal']}[l['pat']]
        pat = pat[variant % len(pat)]
        opts = []
        if l['ca']:
            opts.append('cert-authority')
        if l['ns'] == 'match':
            opts.append(['namespaces="file,mail"', 'namespaces="fi*,ma*"',
                         'namespaces="git,*"'][variant % 3])
        elif l['ns'] == 'nomatch':
            opts.append(['namespaces="git"', 'namespaces="*,!file,!mail"',
                         'namespaces="files"'][variant % 3])
        epoch = ['19700101000000Z', '19700101Z', '197001010000Z'][variant % 3]
        if l['va'] == 'set':
            opts.append(f'valid-after="{ts(A)}"')
        elif l['va'] == 'epoch':
            opts.append(f'valid-after="{epoch}"')
        if l['vb'] == 'set':
            opts.append(f'valid-before="{ts(B)}"')
        elif l['vb'] == 'epoch':
            opts.append(f'valid-before="{epoch}"')
        if variant % 2:
            opts.reverse()
        key = {'signer': self.k, 'ca': self.ca, 'other': self.other}[l['key']]
        pub = key.export_public_key('openssh').decode('ascii').strip()
        return ' '.join([pat] + ([','.join(opts)] if opts else []) + [pub])


def change_namespace(raw_sig, new_ns):
    """Rewrite the namespace field of a raw SSHSIG blob."""
    off = 6 + 4
    n = struct.unpack('>I', raw_sig[off:off + 4])[0]
    off2 = off + 4 + n
    m = struct.unpack('>I', raw_sig[off2:off2 + 4])[0]
    return raw_sig[:off2] + S(new_ns) + raw_sig[off2 + 4 + m:]


def armor(raw):
    b = binascii.b2a_base64(raw)[:-1]
    return b'-----BEGIN SSH SIGNATURE-----\n' + \
        b'\n'.join(b[i:i + 70] for i in range(0, len(b), 70)) + \
        b'\n-----END SSH SIGNATURE-----\n'


def sshsig_row(world, row, variant, frac=False):
    """-> (accepted bool, exception, materialised dict)"""
    raw = world.sig(row['signer'], variant)
    if row['nsblob'] == 'changed':
        raw = change_namespace(raw, NS_OTHER)
    msg = MSG if row['msg'] == 'same' else MSG + b'!'
    lines = [world.line(l, variant + i) for i, l in enumerate(row['lines'])]
    text = '# allowed signers\n\n' + '\n'.join(lines) + '\n'
    now = (NOW_FRAC if frac else NOW)[row['now']]
    sig = armor(raw) if variant % 2 else raw
    mat = {'allowed_signers': text, 'now': now, 'sig_armored': bool(variant % 2)}
    with Clock(now):
        try:
            r = asyncssh.validate_sshsig(msg, sig, PRINCIPAL, text.encode())
            return r is True, None, mat
        except Exception as exc:        # pylint: disable=broad-except
            return False, exc, mat


def sweep_sshsig(world, signer, masks):
    raw = world.sig(signer)
    text = world.line(dict(pat='match', ns='match', va='absent', vb='absent',
                           ca=signer != 'key',
                           key='ca' if signer != 'key' else 'signer'))
    with Clock(A + 5):
        ok = asyncssh.validate_sshsig(MSG, raw, PRINCIPAL, text.encode())
        yield 'unchanged', -1, ok is True, None
        for i in range(len(raw)):
            for m in masks:
                b = bytearray(raw)
                b[i] ^= m
                try:
                    r = asyncssh.validate_sshsig(MSG, bytes(b), PRINCIPAL,
                                                 text.encode())
                    yield 'byte', (i, m), r is True, None
                except Exception as exc:    # pylint: disable=broad-except
                    yield 'byte', (i, m), False, exc
        for what, s in [('trunc', raw[:-1]), ('ext', raw + b'\0')]:
            try:
                r = asyncssh.validate_sshsig(MSG, s, PRINCIPAL, text.encode())
                yield what, -1, r is True, None
            except Exception as exc:        # pylint: disable=broad-except
                yield what, -1, False, exc


# --------------------------------------------------------------------------
# second opinions (ssh-keygen)
# --------------------------------------------------------------------------

SSH_KEYGEN = shutil.which('ssh-keygen')


def _run(cmd, **kw):
    for timeout in (60, 600):           # a loaded machine: retry once, long
        try:
            return subprocess.run(cmd, stdout=subprocess.PIPE,
                                  stderr=subprocess.PIPE, timeout=timeout,
                                  **kw)
        except subprocess.TimeoutExpired:
            if timeout == 600:
                raise
    raise AssertionError


class Scratch:
    def __init__(self, workroot, prefix):
        os.makedirs(workroot, exist_ok=True)
        self.dir = tempfile.mkdtemp(prefix=prefix, dir=workroot)

    def path(self, name):
        return os.path.join(self.dir, name)

    def write(self, name, data, mode=0o600):
        p = self.path(name)
        with open(p, 'wb') as f:
            f.write(data if isinstance(data, bytes) else data.encode())
        os.chmod(p, mode)
        return p

    def close(self):
        shutil.rmtree(self.dir, ignore_errors=True)


def keygen_verify(scr, msg, sig_armored, allowed_text, now, namespace=NS,
                  principal=PRINCIPAL):
    """ssh-keygen -Y verify -> True/False, or None if unusable."""
    if not SSH_KEYGEN:
        return None
    s = scr.write('v.sig', sig_armored)
    a = scr.write('v.allowed', allowed_text)
    p = _run([SSH_KEYGEN, '-Y', 'verify', '-f', a, '-I', principal,
              '-n', namespace, '-s', s, '-Overify-time=' + ts(now)],
             input=msg)
    return p.returncode == 0


def keygen_sign(scr, key, msg, namespace=NS):
    """Signature made by ssh-keygen -Y sign with `key` (None if the key type
    is not supported by the installed OpenSSH)."""
    if not SSH_KEYGEN:
        return None
    kf = scr.write('s.key', key.export_private_key('openssh'))
    mf = scr.write('s.msg', msg)
    try:
        os.remove(mf + '.sig')
    except OSError:
        pass
    p = _run([SSH_KEYGEN, '-Y', 'sign', '-f', kf, '-n', namespace, mf])
    if p.returncode != 0:
        return None
    with open(mf + '.sig', 'rb') as f:
        return f.read()


def keygen_list_cert(scr, line):
    """ssh-keygen -L on a certificate line -> dict of a few parsed fields."""
    if not SSH_KEYGEN:
        return None
    c = scr.write('c-cert.pub', line)
    p = _run([SSH_KEYGEN, '-L', '-f', c])
    if p.returncode != 0:
        return None
    out = p.stdout.decode('utf-8', 'replace')
    d = {'type': None, 'principals': [], 'critical': [], 'extensions': []}
    sect = None
    for ln in out.splitlines():
        t = ln.strip()
        if t.startswith('Type:'):
            d['type'] = 'user' if ' user ' in t else 'host' if ' host ' in t \
                else t
        elif t.startswith('Key ID:'):
            d['key_id'] = t.split('"')[1]
        elif t.startswith('Serial:'):
            d['serial'] = int(t.split()[1])
        elif t.startswith('Valid:'):
            d['valid'] = t
        elif t.startswith('Principals:'):
            sect = 'principals'
        elif t.startswith('Critical Options:'):
            sect = 'critical'
        elif t.startswith('Extensions:'):
            sect = 'extensions'
        elif sect and t and t != '(none)':
            d[sect].append(t.split()[0])
    return d


# --------------------------------------------------------------------------
# identity table (wanted identity x principal list x entry point)
# --------------------------------------------------------------------------

_DECO = {'plain': lambda b: b, 'upper': lambda b: b.capitalize(),
         'lspace': lambda b: ' ' + b, 'tspace': lambda b: b + ' ',
         'prefix': lambda b: b[:-1], 'suffix': lambda b: b + 'x',
         'comma': lambda b: b + ',bob', 'star': lambda b: b[:3] + '*',
         'qmark': lambda b: b[:-1] + '?'}
TIMEPT = {0: 0, 1: A - 1, 2: A, 3: B - 1, 4: B, 5: 2 ** 64 - 1}


def render_name(n):
    """Spec name record -> wanted principal (None for 'do not care')."""
    if n['b'] == '<none>':
        return None
    return _DECO[n['d']](n['b'])


class IdentWorld:
    """Certificates for the identity table, always decoded from the wire."""

    def __init__(self, kalg, sig_alg):
        self.kalg, self.sig_alg = kalg, sig_alg
        p = pool()[kalg]
        self.k, self.ca = p['k'], p['ca']
        self.certs = {}
        self.sigs = {}

    def cert(self, ctype, names, after, before):
        ck = (ctype, tuple(names), after, before)
        if ck not in self.certs:
            fields = cert_fields(self.ca, self.sig_alg, self.k, CTYPE[ctype],
                                 names, TIMEPT[after], TIMEPT[before], b'',
                                 S('permit-pty') + S(b''))
            blob = b''.join(f for _, f in fields)
            cert, exc = import_cert_blob(blob, cert_alg(self.k))
            if cert is None:
                raise RuntimeError(f'identity certificate not imported: {exc}')
            self.certs[ck] = cert
        return self.certs[ck]

    def run(self, row):
        """-> (accepted, exception) for the entries validate / sshsig."""
        names = [render_name(n) for n in row['list']]
        wanted = render_name(row['wanted'])
        cert = self.cert(row['ctype'], names, row['after'], row['before'])
        now = TIMEPT[row['now']]
        if row['entry'] == 'validate':
            t = {'same': WANT[row['ctype']], 'any': 0,
                 'other': 3 - WANT[row['ctype']]}[row['want']]
            with Clock(now):
                try:
                    cert.validate(t, wanted)
                    return True, None
                except Exception as exc:    # pylint: disable=broad-except
                    return False, exc
        if row['entry'] == 'sshsig':
            ck = (tuple(names), row['after'], row['before'])
            if ck not in self.sigs:
                self.sigs[ck] = asyncssh.create_sshsig(
                    (self.k, cert), MSG, namespace=NS, raw=True)
            text = '* cert-authority ' + self.ca.export_public_key(
                'openssh').decode('ascii')
            with Clock(now):
                try:
                    r = asyncssh.validate_sshsig(MSG, self.sigs[ck], wanted,
                                                 text.encode())
                    return r is True, None
                except Exception as exc:    # pylint: disable=broad-except
                    return False, exc
        if row['entry'] == 'sshsig_pat':
            text, sig = self.pat_line(row)
            with Clock(now):
                try:
                    r = asyncssh.validate_sshsig(MSG, sig, wanted,
                                                 text.encode())
                    return r is True, None
                except Exception as exc:    # pylint: disable=broad-except
                    return False, exc
        if row['entry'] in ('sshsig_key', 'sshsig_caline'):
            # `list' is the principals pattern list of the line
            ca = row['entry'] == 'sshsig_caline'
            ck = ('line', ca)
            if ck not in self.sigs:
                kp = (self.k, self.cert('user', [], 0, 5)) if ca else self.k
                self.sigs[ck] = asyncssh.create_sshsig(kp, MSG, namespace=NS,
                                                       raw=True)
            key = self.ca if ca else self.k
            text = ','.join(names) + (' cert-authority ' if ca else ' ') + \
                key.export_public_key('openssh').decode('ascii')
            with Clock(now):
                try:
                    r = asyncssh.validate_sshsig(MSG, self.sigs[ck], wanted,
                                                 text.encode())
                    return r is True, None
                except Exception as exc:    # pylint: disable=broad-except
                    return False, exc
        raise ValueError(row['entry'])


def _pat_text(items):
    return ','.join(('!' if it['neg'] else '') + it['a'] for it in items)


def _ident_pat_line(self, row):
    """allowed-signers line + raw signature for an sshsig_pat row."""
    ca = row['ca']
    ck = ('line', ca)
    if ck not in self.sigs:
        kp = (self.k, self.cert('user', [], 0, 5)) if ca else self.k
        self.sigs[ck] = asyncssh.create_sshsig(kp, MSG, namespace=NS,
                                               raw=True)
    opts = ['cert-authority'] if ca else []
    ns = row['nslist']
    if ns[0]['a'] != '<absent>':
        opts.append('namespaces="%s"' % _pat_text(ns))
    key = self.ca if ca else self.k
    text = ' '.join([_pat_text(row['plist'])] +
                    ([','.join(opts)] if opts else []) +
                    [key.export_public_key('openssh').decode('ascii')])
    return text, self.sigs[ck]


IdentWorld.pat_line = _ident_pat_line


def live_identity_rows(rows, kalg='ssh-ed25519', sig_alg=b'ssh-ed25519'):
    """Entries 'login' (public key authentication with a user certificate
    against a server trusting the CA, user name = wanted identity) and
    'hostalias' (client checking the server's host certificate for the name
    given as host_key_alias) on the in-memory network.
    -> list of 'accept' | 'reject' | 'error:...' in row order."""
    from harness.vloop import new_loop, close_loop, Deadlock
    w = IdentWorld(kalg, sig_alg)
    loop = new_loop()
    hostkey = pool()[kalg]['k2']
    out = [None] * len(rows)
    by_list = {}
    for i, row in enumerate(rows):
        names = tuple(render_name(n) for n in row['list'])
        by_list.setdefault(names, []).append((i, row))

    class Server(asyncssh.SSHServer):
        def begin_auth(self, username):
            return True

    async def one(i, row, names, port):
        wanted = render_name(row['wanted'])
        try:
            if row['entry'] == 'login':
                ucert = w.cert('user', list(names), row['after'],
                               row['before'])
                conn = await asyncssh.connect(
                    '127.0.0.1', port, known_hosts=None, config=None,
                    username=wanted, client_keys=[(w.k, ucert)],
                    agent_path=None, password=None,
                    preferred_auth='publickey')
            else:
                conn = await asyncssh.connect(
                    '127.0.0.1', port, config=None, username='u',
                    known_hosts=([], [w.ca.convert_to_public()], []),
                    host_key_alias=wanted, client_keys=[w.k],
                    agent_path=None, password=None,
                    preferred_auth='publickey')
        except asyncssh.HostKeyNotVerifiable:
            out[i] = 'reject' if row['entry'] == 'hostalias' \
                else 'error:HostKeyNotVerifiable'
            return
        except asyncssh.PermissionDenied:
            out[i] = 'reject' if row['entry'] == 'login' else 'accept'
            return
        except Exception as exc:            # pylint: disable=broad-except
            out[i] = f'error:{type(exc).__name__}: {exc}'
            return
        out[i] = 'accept'
        conn.close()
        await conn.wait_closed()

    async def go():
        auth = asyncssh.import_authorized_keys(
            'cert-authority ' +
            w.ca.export_public_key('openssh').decode('ascii'))
        port = 2300
        for names, items in by_list.items():
            port += 1
            hk = asyncssh.import_private_key(
                hostkey.export_private_key('openssh'))
            # the host certificate certifies the server's own host key
            fields = cert_fields(w.ca, sig_alg, hk, CTYPE['host'],
                                 list(names), 0, 2 ** 64 - 1, b'', b'')
            hcert, exc = import_cert_blob(b''.join(f for _, f in fields),
                                          cert_alg(hk))
            acc = await asyncssh.listen(
                '127.0.0.1', port, server_factory=Server,
                server_host_keys=[hk], server_host_certs=[hcert],
                authorized_client_keys=auth)
            for i, row in items:
                await one(i, row, names, port)
            acc.close()

    try:
        loop.run_until_complete(go())
    except Deadlock:
        out = [o or 'error:hung' for o in out]
    finally:
        close_loop(loop)
    return out


# --------------------------------------------------------------------------
# length-changing re-encodings of a signature blob
# --------------------------------------------------------------------------

def _inner(sig):
    """SSH signature blob -> (algorithm name, inner signature bytes, rest)"""
    name, rest = split_sig(sig)
    n = struct.unpack('>I', rest[:4])[0]
    return name, rest[4:4 + n], rest[4 + n:]


def leads_with_zero(sig):
    return _inner(sig)[1][:1] == b'\0'


def _mpints(inner):
    """ECDSA inner signature -> [r bytes, s bytes] (mpint contents)"""
    out = []
    off = 0
    while off < len(inner):
        n = struct.unpack('>I', inner[off:off + 4])[0]
        out.append(inner[off + 4:off + 4 + n])
        off += 4 + n
    return out


def reencodings(kalg, sig):
    """Byte strings that are NOT the canonical blob sign() produced but encode
    (or pretend to encode) the same signature value: every one must be
    refused.  -> list of (name, blob)"""
    name, inner, rest = _inner(sig)
    out = [('inner+leading-zero', S(name) + S(b'\0' + inner)),
           ('inner+trailing-zero', S(name) + S(inner + b'\0')),
           ('inner-last-byte', S(name) + S(inner[:-1])),
           ('inner-first-byte', S(name) + S(inner[1:])),
           ('trailing-bytes-after-signature', sig + b'\0\0\0\0'),
           ('trailing-empty-string', sig + S(b'')),
           ('signature-string-twice', S(name) + S(inner) + S(inner)),
           ('empty-signature', S(name) + S(b'')),
           ('no-signature-string', S(name))]
    if inner[:1] == b'\0':
        out.append(('leading-zero-stripped', S(name) + S(inner[1:])))
        stripped = inner.lstrip(b'\0')
        out.append(('all-leading-zeros-stripped', S(name) + S(stripped)))
    if kalg.startswith('ecdsa-'):
        ints = _mpints(inner)
        if len(ints) == 2:
            r, s = ints
            out += [('r-extra-leading-zero', S(name) + S(S(b'\0' + r) + S(s))),
                    ('s-extra-leading-zero', S(name) + S(S(r) + S(b'\0' + s))),
                    ('r,s-extra-leading-zeros',
                     S(name) + S(S(b'\0\0' + r) + S(b'\0\0' + s))),
                    ('r-s-swapped', S(name) + S(S(s) + S(r))),
                    ('third-mpint', S(name) + S(S(r) + S(s) + S(b''))),
                    ('only-r', S(name) + S(S(r)))]
            if r[:1] == b'\0':
                out.append(('r-mandatory-zero-removed',
                            S(name) + S(S(r[1:]) + S(s))))
            if s[:1] == b'\0':
                out.append(('s-mandatory-zero-removed',
                            S(name) + S(S(r) + S(s[1:]))))
    return [(n, b) for n, b in out if b != sig]


def find_signature(sign, want, tries=4000):
    """sign(i) -> signature blob; first i whose signature satisfies want."""
    for i in range(tries):
        sig = sign(i)
        if want(sig):
            return i, sig
    return None, None


def ecdsa_has_pad(sig):
    ints = _mpints(_inner(sig)[1])
    return len(ints) == 2 and ints[0][:1] == b'\0' and ints[1][:1] == b'\0'


def reenc_verify_cases(kalg, sig_alg):
    """Yields (variant name, accepted, exception) for key.verify()."""
    p = pool()[kalg]
    pub = p['k'].convert_to_public()
    base = b'reenc ' + sig_alg + b' '
    want = ecdsa_has_pad if kalg.startswith('ecdsa-') else leads_with_zero
    datas = [base + b'0']
    i, sig = find_signature(lambda i: p['k'].sign(base + b'%d' % i, sig_alg),
                            want)
    if i is not None:
        datas.append(base + b'%d' % i)
    else:
        yield 'search-failed', False, None
    for data in datas:
        sig = p['k'].sign(data, sig_alg)
        if not pub.verify(data, sig):
            yield 'canonical-refused', False, None
            continue
        yield 'canonical', False, None
        for name, blob in reencodings(kalg, sig):
            try:
                yield name, bool(pub.verify(data, blob)), None
            except Exception as exc:    # pylint: disable=broad-except
                yield name, False, exc


def reenc_cert_cases(kalg, sig_alg, rnd):
    """Same for the CA signature of a certificate (import_certificate)."""
    p = pool()[kalg]
    want = ecdsa_has_pad if kalg.startswith('ecdsa-') else leads_with_zero

    def mk(i):
        return cert_fields(p['ca'], sig_alg, p['k'], 1, ['p'], A, B, b'',
                           S('permit-pty') + S(b''),
                           nonce=(b'%032d' % i))

    def sig_of(fields):
        return fields[-1][1][4:]

    cands = [mk(0)]
    i, _ = find_signature(lambda i: sig_of(mk(i + 1)), want)
    if i is not None:
        cands.append(mk(i + 1))
    else:
        yield 'search-failed', False, None
    alg = cert_alg(p['k'])
    for fields in cands:
        body = b''.join(f for _, f in fields[:-1])
        sig = sig_of(fields)
        cert, exc = import_cert_blob(body + S(sig), alg)
        if cert is None:
            yield 'canonical-refused', False, exc
            continue
        yield 'canonical', False, None
        for name, blob in reencodings(kalg, sig):
            cert, exc = import_cert_blob(body + S(blob), alg)
            yield name, cert is not None, exc


def reenc_sshsig_cases(kalg):
    """Same for the signature inside an SSHSIG blob (validate_sshsig)."""
    p = pool()[kalg]
    want = ecdsa_has_pad if kalg.startswith('ecdsa-') else leads_with_zero
    text = ('* ' + p['k'].export_public_key('openssh').decode()).encode()

    def mk(i):
        return asyncssh.create_sshsig(p['k'], MSG + b'%d' % i, namespace=NS,
                                      raw=True)

    def sig_of(raw):
        # MAGIC(6) version(4) pubkey namespace reserved hash signature
        off = 10
        for _ in range(4):
            n = struct.unpack('>I', raw[off:off + 4])[0]
            off += 4 + n
        n = struct.unpack('>I', raw[off:off + 4])[0]
        return off, raw[off + 4:off + 4 + n]

    cands = [0]
    i, _ = find_signature(lambda i: sig_of(mk(i + 1))[1], want, tries=1500)
    if i is not None:
        cands.append(i + 1)
    else:
        yield 'search-failed', False, None
    for i in cands:
        raw = mk(i)
        msg = MSG + b'%d' % i
        off, sig = sig_of(raw)
        with Clock(A):
            if asyncssh.validate_sshsig(msg, raw, PRINCIPAL, text) is not True:
                yield 'canonical-refused', False, None
                continue
            yield 'canonical', False, None
            for name, blob in reencodings(kalg, sig):
                try:
                    r = asyncssh.validate_sshsig(msg, raw[:off] + S(blob),
                                                 PRINCIPAL, text)
                    yield name, r is True, None
                except Exception as exc:    # pylint: disable=broad-except
                    yield name, False, exc


# --------------------------------------------------------------------------
# cross-algorithm table: every key x every registered algorithm name
# --------------------------------------------------------------------------

XKEY_ALG = {'rsa': 'ssh-rsa', 'ecdsa256': 'ecdsa-sha2-nistp256',
            'ecdsa384': 'ecdsa-sha2-nistp384',
            'ecdsa521': 'ecdsa-sha2-nistp521', 'ed25519': 'ssh-ed25519',
            'ed448': 'ssh-ed448', 'dss': 'ssh-dss'}
XORDER = ['rsa', 'ecdsa256', 'ecdsa384', 'ecdsa521', 'ed25519', 'ed448',
          'dss']


class CrossWorld:
    """Fresh keys, constructed (and used once) in a given order; remembers
    which algorithm names each key object accepted when it was born."""

    def __init__(self, kinds):
        self.keys = {}
        self.born = {}
        self.cache = {}
        for kind in kinds:
            try:
                k = asyncssh.generate_private_key(XKEY_ALG[kind])
                sub = asyncssh.generate_private_key(XKEY_ALG[kind])
            except (asyncssh.KeyGenerationError, ValueError):
                continue
            self.born[kind] = set(k.all_sig_algorithms)
            alg = k.sig_algorithms[0]
            assert k.convert_to_public().verify(b'use', k.sign(b'use', alg))
            self.keys[kind] = (k, sub)

    def names_now(self, kind):
        k = self.keys[kind][0]
        return set(k.all_sig_algorithms), \
            set(k.convert_to_public().all_sig_algorithms)

    def run(self, row):
        """-> accepted (bool) or None if the row cannot be materialised"""
        if row['key'] not in self.keys:
            return None
        k, sub = self.keys[row['key']]
        sigalg = row['sigalg'].encode()
        name = row['name'].encode()
        path = row['path']
        ck = (row['key'], row['sigalg'], path)
        try:
            if path == 'verify':
                data = b'cross ' + sigalg * 9
                if ck not in self.cache:
                    self.cache[ck] = k.sign(data, sigalg)
                _, rest = split_sig(self.cache[ck])
                return bool(k.convert_to_public().verify(data,
                                                         S(name) + rest))
            if path == 'cert':
                if ck not in self.cache:
                    self.cache[ck] = cert_fields(
                        k, sigalg, sub, 1, ['p'], 0, 2 ** 64 - 1, b'',
                        S('permit-pty') + S(b''))
                fields = self.cache[ck]
                body = b''.join(f for _, f in fields[:-1])
                _, rest = split_sig(fields[-1][1][4:])
                cert, _ = import_cert_blob(body + S(S(name) + rest),
                                           cert_alg(sub))
                return cert is not None
            if path == 'sshsig':
                if row['key'] == 'rsa' and row['sigalg'] != 'rsa-sha2-512':
                    return None         # create_sshsig always uses sha512
                if ck not in self.cache:
                    raw = asyncssh.create_sshsig(k, MSG, namespace=NS,
                                                 raw=True)
                    off = 10
                    for _ in range(4):
                        n = struct.unpack('>I', raw[off:off + 4])[0]
                        off += 4 + n
                    n = struct.unpack('>I', raw[off:off + 4])[0]
                    self.cache[ck] = (raw[:off], raw[off + 4:off + 4 + n])
                head, sig = self.cache[ck]
                _, rest = split_sig(sig)
                text = ('* ' + k.export_public_key('openssh').decode()) \
                    .encode()
                return asyncssh.validate_sshsig(
                    MSG, head + S(S(name) + rest), PRINCIPAL, text) is True
        except Exception:               # pylint: disable=broad-except
            return False
        raise ValueError(path)


def cross_isolated(kind, rows):
    """Evaluate rows for one key type in a fresh interpreter in which no key
    of another type is ever constructed.  -> (results, born names)"""
    import json
    import sys
    p = subprocess.Popen([sys.executable, '-m', 'harness.drivers.sig_cert',
                          '--cross-isolated'], stdin=subprocess.PIPE,
                         stdout=subprocess.PIPE, stderr=subprocess.PIPE)
    return p, json.dumps({'kind': kind, 'rows': rows}).encode()


def _cross_isolated_main():
    import json
    import sys
    req = json.loads(sys.stdin.buffer.read())
    w = CrossWorld([req['kind']])
    out = [w.run(r) for r in req['rows']]
    names = sorted(n.decode() for n in w.names_now(req['kind'])[1]) \
        if req['kind'] in w.keys else None
    sys.stdout.write(json.dumps({'results': out, 'names': names}))


if __name__ == '__main__':
    import sys as _sys
    if '--cross-isolated' in _sys.argv:
        _cross_isolated_main()


# --------------------------------------------------------------------------
# message-form table (SSHSIG): bytes / file name / PurePath / digest / keygen
# --------------------------------------------------------------------------

class MsgWorld:
    """Messages of the table's sizes, their altered versions, as bytes and as
    files; signatures made in every form (cached)."""

    def __init__(self, scr, kalg='ssh-ed25519'):
        import hashlib
        self.hashlib = hashlib
        self.scr = scr
        self.k = pool()[kalg]['k']
        self.text = ('* ' + self.k.export_public_key('openssh')
                     .decode('ascii')).encode()
        self.keyfile = scr.write('msg_key',
                                 self.k.export_private_key('openssh'))
        self.allowed = scr.write('msg_allowed', self.text + b'\n', 0o644)
        self.msgs = {}
        self.sigs = {}

    @staticmethod
    def pad_to(n, ch):
        return n if n % ch == 0 else (n // ch + 1) * ch

    def message(self, size, rel):
        ck = (size, rel)
        if ck not in self.msgs:
            base = bytes((i * 31 + 7) % 251 + 1 for i in range(size))
            if rel == 'same':
                data = base
            elif rel == 'pad8k':
                data = base + b'\0' * (self.pad_to(size, 8192) - size)
            elif rel == 'pad64k':
                data = base + b'\0' * (self.pad_to(size, 65536) - size)
            elif rel == 'extended':
                data = base + b'\x01'
            else:
                data = base[:-1]
            path = self.scr.write(f'msg_{size}_{rel}', data, 0o644)
            self.msgs[ck] = (data, path)
        return self.msgs[ck]

    def sign(self, sform, size, hash_name):
        ck = (sform, size, hash_name)
        if ck in self.sigs:
            return self.sigs[ck]
        data, path = self.message(size, 'same')
        if sform == 'bytes':
            sig = asyncssh.create_sshsig(self.k, data, hash_name=hash_name,
                                         namespace=NS)
        elif sform == 'file':
            sig = asyncssh.create_sshsig(self.k, path, hash_name=hash_name,
                                         namespace=NS)
        elif sform == 'hashed':
            sig = asyncssh.create_sshsig(
                self.k, self.hashlib.new(hash_name, data).digest(),
                is_hashed=True, hash_name=hash_name, namespace=NS)
        else:
            if os.path.exists(path + '.sig'):
                os.remove(path + '.sig')
            p = _run([SSH_KEYGEN, '-Y', 'sign', '-f', self.keyfile, '-n', NS,
                      '-O', 'hashalg=' + hash_name, path])
            if p.returncode != 0:
                sig = None
            else:
                with open(path + '.sig', 'rb') as f:
                    sig = f.read()
        self.sigs[ck] = sig
        return sig

    def verify(self, vform, sig, size, rel, hash_name):
        """-> accepted bool (None: cannot be evaluated), exception"""
        import pathlib
        data, path = self.message(size, rel)
        try:
            if vform == 'bytes':
                r = asyncssh.validate_sshsig(data, sig, PRINCIPAL, self.text)
            elif vform == 'file':
                r = asyncssh.validate_sshsig(path, sig, PRINCIPAL, self.text)
            elif vform == 'path':
                r = asyncssh.validate_sshsig(pathlib.PurePath(path), sig,
                                             PRINCIPAL, self.text)
            elif vform == 'hashed':
                r = asyncssh.validate_sshsig(
                    self.hashlib.new(hash_name, data).digest(), sig,
                    PRINCIPAL, self.text, is_hashed=True)
            else:
                s = self.scr.write('msg_v.sig', sig)
                p = _run([SSH_KEYGEN, '-Y', 'verify', '-f', self.allowed,
                          '-I', PRINCIPAL, '-n', NS, '-s', s], input=data)
                r = p.returncode == 0
            return r is True, None
        except Exception as exc:        # pylint: disable=broad-except
            return False, exc
