"""Driver for specs/SftpProto (client request/reply matching, server reply
obligations, errno table) and specs/SftpAttrs (attribute carriage).

Client part : behaviours of SftpProto are replayed into the real
              SFTPClientHandler / SFTPClient: K callers use the public API, a
              scripted SFTP peer (harness/drivers/sftp_io.Scripted in hold_all
              mode) sends the behaviour's replies <<id, type>>.
Server part : a raw SFTP client (own framing, on a real 'sftp' subsystem
              channel of a real asyncssh server with a real SFTPServer
              subclass) sends every request type intact / with every
              truncation / with trailing bytes / with unsupported type
              numbers and counts the replies per request id.
Codec part  : SFTPAttrs / SFTPName encode -> decode for every case of the
              SftpAttrs table.
"""

import errno
import os
import shutil
import struct
import tempfile

import asyncssh

from harness import tlc
from harness.vloop import new_loop, close_loop
from harness.drivers import sftp_io
from harness.drivers.sftp_io import (u32, u64, sstr, Cur, STATUS, HANDLE,
                                     DATA, NAME, ATTRS, EXTENDED,
                                     EXTENDED_REPLY)

UNKNOWN_ID = 0xdeadbeef


def printed_multiline(output):
    """Values printed by PrintT (TLC wraps long values over several lines)"""
    vals, buf, depth = [], None, 0
    for line in output.splitlines():
        if buf is None:
            if not line.startswith('<<'):
                continue
            buf, depth = [], 0
        buf.append(line)
        depth += line.count('<<') - line.count('>>')
        if depth <= 0:
            vals.append(tlc.parse_value(' '.join(buf)))
            buf = None
    return vals


# ======================================================================
# 1. client side: replay of SftpProto behaviours
# ======================================================================

def split_behaviour(steps):
    """[(lbl, state)] -> (kinds, events, outcomes, closed); events =
    ('reply', id, type) | ('cancel', id)"""
    st0 = steps[0][1]
    kinds = _fn_list(st0['kind'])
    events = []
    last = st0
    for lbl, st in steps[1:]:
        if lbl[0] not in ('reply', 'cancel', 'end') or \
                (events and st['nrep'] == last['nrep'] and
                 st['cancelled'] == last['cancelled'] and
                 st.get('ended', 'no') == last.get('ended', 'no')):
            break
        events.append(tuple(lbl))
        last = st
        if lbl[0] == 'end':
            break
    outcomes = [tuple(o) for o in _fn_list(last['outcome'])]
    return kinds, events, outcomes, last['closed']


def _fn_list(f):
    if isinstance(f, list):
        return list(f)
    return [f[i] for i in sorted(f)]


def norm_events(events):
    """Accepts old-style [(id, type)] reply lists as well"""
    out = []
    for e in events:
        e = tuple(e)
        out.append(('reply',) + e if len(e) == 2 and
                   e[0] not in ('cancel', 'end') else e)
    return out


def _reply_packet(script, rid, tag, rtype):
    v = script.version
    if rtype == 'ok':
        script.status(rid, 0)
    elif rtype == 'err':
        script.status(rid, 4, 'refused')
    elif rtype == 'handle':
        script.send(HANDLE, u32(rid) + sstr(b'H%d' % tag))
    elif rtype == 'data':
        script.send(DATA, u32(rid) + sstr(b'D%d' % tag))
    elif rtype == 'name':
        name = sstr(b'/N%d' % tag) + (sstr(b'long') if v == 3 else b'')
        script.send(NAME, u32(rid) + u32(1) + name +
                    (u32(0) if v == 3 else u32(0) + b'\x05'))
    elif rtype == 'attrs':
        script.send(ATTRS, u32(rid) + sftp_io.attrs_blob(v, 1000 + tag))
    elif rtype == 'extreply':
        script.send(EXTENDED_REPLY, u32(rid) + u64(2000 + tag) + u64(0) * 10)
    else:
        raise ValueError(rtype)


def client_replay(kinds, events, version=3, model_outcomes=None,
                  model_closed=None, followup=True):
    """Run one SftpProto behaviour against the real client."""
    events = norm_events(events)
    replies = [(e[1], e[2]) for e in events if e[0] == 'reply']
    w = sftp_io.world()
    loop = w.loop
    res = {'kinds': kinds, 'events': events, 'version': version, 'l1': [],
           'diverged': None}
    files = {b'pre': sftp_io.RFile(b'0123456789')}
    sftp, script = w.session(sftp_version=version, version=version,
                             exts=[(b'statvfs@openssh.com', b'2')],
                             files=files, hold=())
    tasks = []
    try:
        pre = loop.run_until_complete(
            sftp.open(b'pre', 'rb', block_size=0))
        loop.run_until_idle()
        script.hold_all = True
        n0 = len(script.held)

        async def call(kind, i):
            if kind == 'status':
                return await sftp.remove(b'f%d' % i)
            if kind == 'handle':
                return await sftp.open(b'f%d' % i, 'rb')
            if kind == 'data':
                return await pre.read(4, 100 + i)
            if kind == 'name':
                return await sftp.realpath(b'/p%d' % i)
            if kind == 'attrs':
                return await sftp.stat(b'/p%d' % i)
            if kind == 'extreply':
                return await sftp.statvfs(b'/p%d' % i)
            raise ValueError(kind)

        for i, kind in enumerate(kinds):
            tasks.append(loop.create_task(call(kind, i)))
            loop.run_until_idle()
        reqs = script.held[n0:]
        if len(reqs) != len(kinds):
            res['diverged'] = (f'{len(reqs)} requests seen for '
                               f'{len(kinds)} callers')
            return res
        ids = [r.id for r in reqs]
        res['ids'] = ids
        if len(set(ids)) != len(ids):
            res['l1'].append(('UniqueIds', f'request ids are not distinct: '
                              f'{ids}'))
        sent_ids = set()
        bad_id = False
        cancelled = set()
        ended = None
        for ev in events:
            if ev[0] == 'cancel':
                cancelled.add(ev[1])
                tasks[ev[1]].cancel()
                loop.run_until_idle()
                continue
            if ev[0] == 'end':
                ended = ev[1]
                try:
                    _end_session(w, sftp, script, ended)
                except (OSError, asyncssh.Error):
                    pass                # the session was gone already
                loop.run_until_idle()
                loop.advance(2.0)           # bounded virtual time
                break
            mid, rtype = ev[1], ev[2]
            if mid == 99 or mid >= len(ids):
                rid, tag = UNKNOWN_ID, 99
            else:
                rid, tag = ids[mid], mid
            if rid == UNKNOWN_ID or mid in sent_ids:
                bad_id = True
            sent_ids.add(mid)
            _reply_packet(script, rid, tag, rtype)
            loop.run_until_idle()
        res['bad_id'] = bad_id
        res['ended'] = ended
        if ended:
            # every caller still waiting must be resolved now, and a request
            # made afterwards must fail at once
            for i, t in enumerate(tasks):
                if i not in cancelled and not t.done():
                    res['l1'].append(('EndResolvesAll', f'the session ended '
                                      f'({ended}) but caller {i} '
                                      f'({kinds[i]}) is still waiting: no '
                                      f'reply and no exception'))
            lt = loop.create_task(sftp.stat(b'/late'))
            loop.run_until_idle()
            if not lt.done():
                lt.cancel()
                res['l1'].append(('EndResolvesAll', f'a request made after '
                                  f'the session ended ({ended}) waits '
                                  f'instead of failing at once'))
            elif lt.cancelled() or lt.exception() is None:
                res['l1'].append(('EndResolvesAll', f'a request made after '
                                  f'the session ended ({ended}) did not '
                                  f'fail'))
            bad_id = True       # from here on: like any other end of session
        # ---- observe ----
        obs = []
        for i, t in enumerate(tasks):
            obs.append(_observe(t, kinds[i]))
        res['observed'] = obs
        first = {}
        for mid, rtype in replies:
            first.setdefault(mid, rtype)
        for i, o in enumerate(obs):
            kind = kinds[i]
            if i in cancelled:
                continue                # the caller gave up: nothing is owed
            legal = first.get(i) in ('ok', 'err', kind) and \
                not (first.get(i) == 'ok' and kind != 'status')
            if o[0] == 'value':
                if o[2] != i:
                    res['l1'].append(('OwnReply', f'caller {i} ({kind}) '
                                      f'received the reply addressed to '
                                      f'request {o[2]}'))
                elif i not in first:
                    res['l1'].append(('NoPhantomReply', f'caller {i} got a '
                                      f'value but no reply carried its id'))
                elif not legal:
                    res['l1'].append(('WellTyped', f'caller {i} ({kind}) '
                                      f'accepted a reply of type '
                                      f'{first[i]}'))
            elif o[0] in ('none_value', 'garbage'):
                if i not in first:
                    res['l1'].append(('NoPhantomReply', f'caller {i} '
                                      f'returned but no reply carried its '
                                      f'id'))
                elif not legal or first[i] != 'ok':
                    res['l1'].append(('WellTyped', f'caller {i} ({kind}) '
                                      f'returned {o} on a reply of type '
                                      f'{first[i]}'))
            elif o[0] == 'none':
                if bad_id:
                    res['l1'].append(('UnknownIdFails', f'caller {i} still '
                                      f'hangs after a reply with an unknown '
                                      f'or duplicate id ended the session'))
                elif i in first:
                    res['l1'].append(('ExactlyOneReply', f'caller {i} was '
                                      f'sent a reply but is still waiting'))
            else:                       # 'err' / 'badmsg' / 'other'
                if i not in first and not bad_id:
                    res['l1'].append(('NoPhantomReply', f'caller {i} failed '
                                      f'with {o} but no reply carried its id '
                                      f'and the session was not ended'))
                elif i in first and first[i] == kind and kind != 'status' \
                        and not (bad_id and _before_bad(replies, i)):
                    res['l1'].append(('OwnReply', f'caller {i} ({kind}) was '
                                      f'sent a well-typed reply but got '
                                      f'{o}'))
                elif i in first and first[i] == 'ok' and kind == 'status' \
                        and not (bad_id and _before_bad(replies, i)):
                    res['l1'].append(('OwnReply', f'caller {i} (status) was '
                                      f'sent FX_OK but got {o}'))
        if followup and not bad_id and not ended:
            # no reply carried an id without a table entry: the session must
            # still be alive and give a new caller its own reply
            n1 = len(script.held)
            ft = loop.create_task(sftp.stat(b'/followup'))
            loop.run_until_idle()
            if len(script.held) > n1:
                _reply_packet(script, script.held[-1].id, 77, 'attrs')
                loop.run_until_idle()
            fo = _observe(ft, 'attrs')
            if not ft.done():
                ft.cancel()
            res['followup'] = fo
            if fo != ('value', 'attrs', 77):
                res['l1'].append(('SessionSurvives', f'every reply carried a '
                                  f'known id, yet a new request afterwards '
                                  f'got {fo} instead of its own reply'))
        if model_outcomes is not None and not res['l1']:
            want = [_model_obs(o) for o in model_outcomes]
            got = [_norm_obs(o) for o in obs]
            if ended:
                got = [('lost',) if w_ == ('lost',) and
                       g[0] in ('err', 'other', 'badmsg') and
                       g != ('cancelled',) else g
                       for g, w_ in zip(got, want)]
            if want != got:
                res['diverged'] = f'outcomes: code={got} model={want}'
        res['loop_exceptions'] = [str(x.get('exception') or x.get('message'))
                                  for x in loop.exceptions]
    finally:
        for t in tasks:
            if not t.done():
                t.cancel()
        w.end_session(sftp)
        if loop.exceptions or res.get('ended') in (
                'conn_lost', 'disconnect', 'oserror', 'brokenpipe'):
            loop.exceptions.clear()
            sftp_io.drop_world()
    return res


def _before_bad(replies, i):
    """True if caller i's first reply came only after the first bad id"""
    seen = set()
    for mid, _ in replies:
        if mid == 99 or mid in seen:
            return i not in seen
        seen.add(mid)
    return False


def _observe(task, kind):
    if not task.done():
        return ('none',)
    if task.cancelled():
        return ('other', 'cancelled')
    exc = task.exception()
    if exc is not None:
        if isinstance(exc, asyncssh.SFTPBadMessage):
            return ('badmsg',)
        if isinstance(exc, asyncssh.SFTPError):
            return ('err', exc.code)
        return ('other', type(exc).__name__)
    val = task.result()
    try:
        if kind == 'status':
            return ('none_value',) if val is None else ('garbage', repr(val))
        if kind == 'handle':
            h = val.handle
            if isinstance(h, bytes) and h[:1] == b'H':
                return ('value', 'handle', int(h[1:]))
        elif kind == 'data':
            if isinstance(val, bytes) and val[:1] == b'D':
                return ('value', 'data', int(val[1:]))
        elif kind == 'name':
            if isinstance(val, bytes) and val[:2] == b'/N':
                return ('value', 'name', int(val[2:]))
        elif kind == 'attrs':
            if isinstance(val, asyncssh.SFTPAttrs) and val.size is not None \
                    and val.size >= 1000:
                return ('value', 'attrs', val.size - 1000)
        elif kind == 'extreply':
            if isinstance(val, asyncssh.SFTPVFSAttrs) and val.bsize >= 2000:
                return ('value', 'extreply', val.bsize - 2000)
    except Exception:                   # pylint: disable=broad-except
        pass
    return ('garbage', repr(val)[:60])


def _model_obs(o):
    if o[0] == 'value':
        return ('value', o[1], o[2])
    return (o[0],)


def _end_session(w, sftp, script, how):
    """Make the SFTP session end in the given way (see SftpProto.tla Ends)"""
    loop = w.loop
    ct = [t for t in loop.net.all_transports if t.name == 'c'][-1]
    st = [t for t in loop.net.all_transports if t.name == 's'][-1]
    if how == 'exit':
        sftp.exit()
    elif how == 'peer_close':
        script.p.exit(0)
    elif how == 'eof_mid':
        script.p.stdout.write(u32(50) + b'\x65\x00')
        script.p.exit(0)
    elif how == 'conn_lost':
        ct.cut()
    elif how == 'disconnect':
        # the transport dies with the error the packet layer raises for a
        # corrupted stream (a DisconnectError, not an SFTPError)
        ct.cut(asyncssh.MACError('MAC verification failed'))
    elif how == 'oserror':
        ct.cut(OSError(5, 'Input/output error'))
    elif how == 'brokenpipe':
        ct.cut(BrokenPipeError(32, 'Broken pipe'))
    else:
        raise ValueError(how)


def _norm_obs(o):
    if o[0] == 'err':
        return ('err',)
    if o == ('other', 'cancelled'):
        return ('cancelled',)
    return o


# ======================================================================
# 1b. client side: the VALUE a reply carries (specs/SftpProto/SftpValues.tla)
# ======================================================================

HANDLES = {'h0': b'', 'h1': b'\x07', 'h256': bytes(range(256))}
DATA_VALUES = {'d0': b'', 'd1': b'Z', 'dN': b'0123456789' * 3}


def _attrs_value(v, cls):
    """(ATTRS body, expected {field: value})"""
    typ = b'' if v == 3 else b'\x01'
    if cls == 'a0':
        return u32(0) + (b'' if v == 3 else b'\x05'), {'size': None,
                                                      'permissions': None,
                                                      'mtime': None}
    if cls == 'a1':
        return u32(1) + typ + u64(77), {'size': 77, 'permissions': None,
                                        'mtime': None}
    if v == 3:
        body = u32(0xd) + u64(123456) + u32(0o100640) + u32(1000) + u32(2000)
        return body, {'size': 123456, 'permissions': 0o100640, 'mtime': 2000}
    body = u32(0x2d) + typ + u64(123456) + u32(0o640) + u64(1000) + u64(2000)
    return body, {'size': 123456, 'permissions': 0o640, 'mtime': 2000}


def _names_value(v, names, end=None):
    body = u32(len(names))
    for n in names:
        body += sstr(n) + (sstr(b'long ' + n) if v == 3 else b'') + \
            (u32(0) if v == 3 else u32(0) + b'\x05')
    if end is not None:
        body += bytes([1 if end else 0])
    return body


def value_case(kind, v, r, code):
    """One row of the SftpValues table against the real client API.
    Returns dict(outcome, closes, l1, trace)."""
    w = sftp_io.world()
    loop = w.loop
    res = {'kind': kind, 'v': v, 'r': r, 'code': code, 'l1': [],
           'outcome': None, 'closes': 0, 'trace': []}
    sftp, script = w.session(sftp_version=v, version=v, hold=(),
                             exts=[(b'statvfs@openssh.com', b'2')])
    script.hold_all = True
    handle = HANDLES.get(r, b'\x07') if kind in ('open', 'opendir') \
        else b'\x07'
    target = {'open': 3, 'opendir': 11, 'read': 5, 'read0': 5, 'readdir': 12,
              'realpath': 16, 'readlink': 19, 'stat': 17, 'lstat': 7,
              'statvfs': 200, 'remove': 13, 'mkdir': 14, 'setstat': 9}[kind]
    state = {'answered': False, 'uses': [], 'eof_sent': False}
    fobj = {}

    async def call():
        if kind in ('open', 'read', 'read0'):
            f = await sftp.open(b'p', 'rb', block_size=0)
            fobj['f'] = f
            try:
                if kind == 'read':
                    return await f.read(30, 0)
                if kind == 'read0':
                    return await f.read(0, 0)
                hv = f.handle
                data = await f.read(4, 0)
                return ('handle', hv, data)
            finally:
                await f.close()
                await f.close()          # a second close() is a no-op
        if kind in ('opendir', 'readdir'):
            return [n.filename for n in await sftp.readdir(b'd')]
        if kind == 'realpath':
            return await sftp.realpath(b'p')
        if kind == 'readlink':
            return await sftp.readlink(b'p')
        if kind == 'stat':
            return await sftp.stat(b'p')
        if kind == 'lstat':
            return await sftp.lstat(b'p')
        if kind == 'statvfs':
            return await sftp.statvfs(b'p')
        if kind == 'remove':
            return await sftp.remove(b'p')
        if kind == 'mkdir':
            return await sftp.mkdir(b'newdir')
        return await sftp.setstat(b'p', asyncssh.SFTPAttrs(size=1))

    def body_handle(req):
        try:
            return Cur(req.data).str()
        except (struct.error, IndexError):
            return None

    def serve(req):
        """the scripted server's answer to one request"""
        rid, t = req.id, req.kind
        res['trace'].append(t)
        if t == target and not state['answered']:
            state['answered'] = True
            if t in (5, 12):
                state['uses'].append(body_handle(req))
            if r == 'status':
                script.status(rid, code, 'scripted status')
            elif r in HANDLES:
                script.send(HANDLE, u32(rid) + sstr(HANDLES[r]))
            elif r in DATA_VALUES:
                script.data(rid, DATA_VALUES[r])
            elif r.startswith('n'):
                names = {'n0': [], 'n1': [b'e1'], 'n2': [b'e1', b'e2']}[
                    r.replace('end', '')]
                if kind in ('realpath', 'readlink'):
                    names = [b'/N/one']
                script.send(NAME, u32(rid) + _names_value(
                    v, names, True if r.endswith('end') else None))
            elif r.startswith('a'):
                script.send(ATTRS, u32(rid) + _attrs_value(v, r)[0])
            elif r == 'e88':
                script.send(EXTENDED_REPLY, u32(rid) + u64(4096) + u64(0) * 10)
            elif r == 'ok':
                script.status(rid, 0)
            return
        # ---- the requests around the one under test ----
        if t in (3, 11):                    # OPEN / OPENDIR (not the target)
            script.send(HANDLE, u32(rid) + sstr(handle))
        elif t == 4:
            if body_handle(req) == handle:
                res['closes'] += 1
            else:
                state['uses'].append(body_handle(req))
            script.status(rid, 0)
        elif t == 5:
            state['uses'].append(body_handle(req))
            script.data(rid, b'abcd')
        elif t == 12:
            state['uses'].append(body_handle(req))
            if kind == 'opendir' and not state['eof_sent'] and \
                    not state.get('listed'):
                state['listed'] = True
                script.send(NAME, u32(rid) + _names_value(v, [b'e1']))
            else:
                state['eof_sent'] = True
                script.status(rid, 1, 'eof')
        else:
            script.status(rid, 8, 'unsupported')

    task = loop.create_task(call())
    try:
        for _ in range(40):
            loop.run_until_idle()
            if task.done() or not script.held:
                break
            for req in list(script.held):
                script.held.remove(req)
                serve(req)
        if not task.done():
            task.cancel()
            loop.run_until_idle()
            res['l1'].append(('ExactlyOneOutcome', 'the call neither '
                              'returned nor raised'))
            return res
        exc = task.exception() if not task.cancelled() else None
        if task.cancelled():
            res['outcome'] = ('other', 'cancelled')
        elif exc is not None:
            if isinstance(exc, asyncssh.SFTPError):
                res['outcome'] = ('exc', exc.code)
                res['exc'] = repr(exc)
            else:
                res['outcome'] = ('other', type(exc).__name__)
                res['exc'] = repr(exc)
        else:
            val = task.result()
            res['outcome'] = _classify_value(kind, v, r, val)
        # ---- monitors ----
        legal_value = r != 'status'
        if legal_value and res['outcome'] != ('value', r):
            res['l1'].append(('ValueDelivered', f'{kind} was answered with a '
                              f'well-formed {r} reply but the caller got '
                              f'{res["outcome"]} {res.get("exc", "")}'))
        if r == 'status' and code != 0:
            eof_ok = code == 1 and kind in ('read', 'read0', 'readdir')
            want = ('value', 'empty' if kind != 'readdir' else 'n0') \
                if eof_ok else ('exc', code)
            if res['outcome'] != want:
                res['l1'].append(('StatusMapped', f'{kind} was answered with '
                                  f'status {code} but the caller got '
                                  f'{res["outcome"]} {res.get("exc", "")}'))
        if r == 'status' and code == 0 and res['outcome'] != ('exc', 5):
            res['l1'].append(('ValueDelivered', f'{kind} was answered with a '
                              f'bare FX_OK but the caller got '
                              f'{res["outcome"]}'))
        if kind in ('open', 'opendir') and r in HANDLES:
            wrong = [u for u in state['uses'] if u != handle]
            if wrong:
                res['l1'].append(('HandleEchoed', f'the server issued handle '
                                  f'{handle[:8].hex()} ({len(handle)} bytes) '
                                  f'but later requests name '
                                  f'{[x.hex()[:16] if x is not None else x for x in wrong]}'))
            if res['closes'] != 1:
                res['l1'].append(('EmptyHandleNotClosed' if r == 'h0' and
                                  res['closes'] == 0 and
                                  res['outcome'] == ('value', r)
                                  else 'CloseOnce',
                                  f'the {len(handle)}-byte handle issued for '
                                  f'{kind} was closed {res["closes"]} times'))
    finally:
        if not task.done():
            task.cancel()
        w.end_session(sftp)
        if loop.exceptions:
            sftp_io.drop_world()
    return res


def _classify_value(kind, v, r, val):
    """('value', class) if val is exactly what reply class r carries"""
    try:
        if kind == 'open':
            tag, hv, data = val
            return ('value', r) if hv == HANDLES.get(r) and data == b'abcd' \
                else ('wrong', repr(val)[:60])
        if kind == 'opendir':
            return ('value', r) if val == [b'e1'] else ('wrong', repr(val))
        if kind in ('read', 'read0'):
            if r == 'status':
                return ('value', 'empty') if val == b'' else \
                    ('wrong', repr(val))
            return ('value', r) if val == DATA_VALUES[r] else \
                ('wrong', repr(val)[:60])
        if kind == 'readdir':
            want = {'n0': [], 'n1': [b'e1'], 'n2': [b'e1', b'e2']}
            if r == 'status':
                return ('value', 'n0') if val == [] else ('wrong', repr(val))
            return ('value', r) if val == want[r.replace('end', '')] else \
                ('wrong', repr(val))
        if kind in ('realpath', 'readlink'):
            return ('value', r) if val == b'/N/one' else ('wrong', repr(val))
        if kind in ('stat', 'lstat'):
            exp = _attrs_value(v, r)[1]
            ok = all(getattr(val, k) == x for k, x in exp.items())
            return ('value', r) if ok else ('wrong', repr(val)[:80])
        if kind == 'statvfs':
            return ('value', r) if val.bsize == 4096 else ('wrong', repr(val))
        return ('value', 'ok') if val is None else ('wrong', repr(val))
    except Exception as e:              # pylint: disable=broad-except
        return ('wrong', f'{type(e).__name__}: {e}')


# ======================================================================
# 2. server side
# ======================================================================

ERRNO = {n: getattr(errno, n) for n in
         ('ENOENT', 'EACCES', 'EEXIST', 'EROFS', 'ENOSPC', 'EDQUOT',
          'ENOTEMPTY', 'ENOTDIR', 'ENAMETOOLONG', 'EILSEQ', 'ELOOP', 'EINVAL',
          'EISDIR', 'EIO', 'EPERM', 'EBADF', 'EBUSY', 'EXDEV', 'EMFILE')}


ATTR_FAULTS = {
    'a_plain': dict(size=5, uid=1, gid=2, permissions=0o100644, atime=10,
                    mtime=20),
    'a_empty': {},
    'a_float_time': dict(atime=1.5, mtime=2.5),
    'a_owner_bytes': dict(owner=b'alice', group=b'staff', uid=1, gid=2),
    'a_neg_time': dict(atime=-100, mtime=-100),
    'a_time_2_32': dict(atime=2**32 + 5, mtime=2**32 + 5),
    'a_time_2_64': dict(atime=2**64, mtime=2**64),
    'a_uid_2_32': dict(uid=2**32 + 1, gid=2**32 + 1),
    'a_uid_neg': dict(uid=-1, gid=-1),
    'a_size_2_64': dict(size=2**64),
    'a_size_neg': dict(size=-1),
    'a_perm_2_32': dict(permissions=2**32),
    'a_ns_2_32': dict(atime=10, mtime=20, atime_ns=2**32, mtime_ns=5),
    'a_ns_neg': dict(atime=10, mtime=20, atime_ns=-1),
    'a_owner_only': dict(owner='alice', group='staff'),
    'a_owner_surrogate': dict(owner='\udcff', group='g'),
    'a_type_300': dict(type=300),
    'a_nlink_2_32': dict(nlink=2**32),
    'a_size_str': dict(size='12'),
    'a_ext_bad': dict(extended=[(b'a', 5)]),
}
SHAPE_FAULTS = {'s_none': None, 's_int': 42, 's_str': 'text', 's_tuple': (1, 2)}
NAME_FAULTS = {'n_plain': b'/plain', 'n_str': 'päth', 'n_surrogate': '\udcff',
               'n_int': 7, 'n_none': None}
VFS_FAULTS = {'v_plain': dict(bsize=4096, blocks=10), 'v_neg': dict(bsize=-1),
              'v_2_64': dict(blocks=2**64)}


def fault_of(path):
    base = os.path.basename(path.rstrip(b'/')) if isinstance(path, bytes) \
        else b''
    return base[4:].decode() if base.startswith(b'enc_') else None


class FaultyServer(asyncssh.SFTPServer):
    """Real SFTPServer in a chroot.  stat() of magic names raises what the
    name says (errno table, application errors); paths named enc_<fault>
    make the application hand back a result of that fault class (extreme
    values, wrong types, wrong shapes) to the protocol layer."""

    root = None
    close_mode = 'ok'       # what the application's next close() hook does
    opened = []             # every file object handed out (kept alive)
    closes = {}             # id(file object) -> number of close() calls

    def __init__(self, chan):
        super().__init__(chan, chroot=FaultyServer.root)
        self._enc = {}

    exits = 0               # how often the application's exit() hook ran

    @classmethod
    def reset_hooks(cls):
        cls.close_mode = 'ok'
        cls.opened = []
        cls.closes = {}
        cls.exits = 0

    def exit(self):
        FaultyServer.exits += 1
        return super().exit()

    def close(self, file_obj):
        cls = FaultyServer
        cls.closes[id(file_obj)] = cls.closes.get(id(file_obj), 0) + 1
        mode, cls.close_mode = cls.close_mode, 'ok'
        super().close(file_obj)
        if mode == 'oserr':
            raise OSError(errno.EIO, 'delayed write failed at close')
        if mode == 'sftperr':
            raise asyncssh.SFTPError(15, 'quota exceeded at close')

    # ---- results by fault class ----
    @staticmethod
    def attrs_for(f):
        if f in SHAPE_FAULTS:
            return SHAPE_FAULTS[f]
        if f in ATTR_FAULTS:
            return asyncssh.SFTPAttrs(**ATTR_FAULTS[f])
        return None

    def stat(self, path):
        base = os.path.basename(path)
        if base.startswith(b'errno_'):
            shape = base[6:].decode()
            if shape == 'NOERRNO':
                raise OSError('no errno, no strerror')
            if shape == 'UNSUPPORTED':
                import io
                raise io.UnsupportedOperation('not readable')
            if shape == 'EIO_NOMSG':
                raise OSError(errno.EIO, None)
            if shape == 'NOARGS':
                raise OSError()
            n = ERRNO[shape]
            raise OSError(n, os.strerror(n))
        if base.startswith(b'apperr_'):
            raise asyncssh.SFTPError(int(base[7:]), 'application error')
        if base == b'notimpl':
            raise NotImplementedError
        f = fault_of(path)
        if f is not None and (f in ATTR_FAULTS or f in SHAPE_FAULTS):
            return self.attrs_for(f)
        return super().stat(path)

    def lstat(self, path):
        f = fault_of(path)
        if f is not None and (f in ATTR_FAULTS or f in SHAPE_FAULTS):
            return self.attrs_for(f)
        return super().lstat(path)

    def open(self, path, pflags, attrs):
        f = fault_of(path)
        obj = super().open(b'/f' if f is not None else path, pflags, attrs)
        if f is not None:
            self._enc[id(obj)] = f
        FaultyServer.opened.append(obj)
        return obj

    def open56(self, path, desired_access, flags, attrs):
        f = fault_of(path)
        obj = super().open56(b'/f' if f is not None else path,
                             desired_access, flags, attrs)
        if f is not None:
            self._enc[id(obj)] = f
        FaultyServer.opened.append(obj)
        return obj

    def fstat(self, file_obj):
        f = self._enc.get(id(file_obj))
        if f is not None and (f in ATTR_FAULTS or f in SHAPE_FAULTS):
            return self.attrs_for(f)
        return super().fstat(file_obj)

    def fstatvfs(self, file_obj):
        f = self._enc.get(id(file_obj))
        if f in VFS_FAULTS:
            return asyncssh.SFTPVFSAttrs(**VFS_FAULTS[f])
        if f in SHAPE_FAULTS:
            return SHAPE_FAULTS[f]
        return super().fstatvfs(file_obj)

    def statvfs(self, path):
        f = fault_of(path)
        if f in VFS_FAULTS:
            return asyncssh.SFTPVFSAttrs(**VFS_FAULTS[f])
        if f in SHAPE_FAULTS:
            return SHAPE_FAULTS[f]
        return super().statvfs(path)

    def readlink(self, path):
        f = fault_of(path)
        if f in NAME_FAULTS:
            return NAME_FAULTS[f]
        return super().readlink(path)

    def realpath(self, path):
        f = fault_of(path)
        if f in NAME_FAULTS:
            return NAME_FAULTS[f]
        return super().realpath(path)

    async def scandir(self, path):
        f = fault_of(path)
        if f is None:
            async for name in super().scandir(path):
                yield name
            return
        ok = asyncssh.SFTPAttrs(size=1, permissions=0o100644)
        yield asyncssh.SFTPName(b'first', attrs=ok)
        if f in SHAPE_FAULTS:
            yield SHAPE_FAULTS[f]
        elif f in ATTR_FAULTS:
            yield asyncssh.SFTPName(b'second', attrs=self.attrs_for(f))
        elif f == 'n_longname_int':
            yield asyncssh.SFTPName(b'second', 5, ok)
        elif f in NAME_FAULTS:
            yield asyncssh.SFTPName(NAME_FAULTS[f], attrs=ok)
        yield asyncssh.SFTPName(b'third', attrs=ok)


class RawSession:
    """Raw SFTP client on a real 'sftp' subsystem channel"""

    def __init__(self, sw, version):
        self.sw = sw
        self.loop = sw.loop
        self.buf = bytearray()
        self.eof = False
        self.next_id = 100
        self.writer, self.reader, _ = self.loop.run_until_complete(
            sw.conn.open_session(subsystem='sftp', encoding=None))
        self.collector = self.loop.create_task(self._collect())
        self.raw(bytes([1]) + u32(version))
        self.loop.run_until_idle()
        pk = self.packets()
        if not pk or pk[0][0] != 2:
            raise RuntimeError(f'no VERSION reply: {pk}')
        self.version = struct.unpack('>I', pk[0][1][:4])[0]
        self.fh = self.dh = None

    async def _collect(self):
        try:
            while True:
                data = await self.reader.read(65536)
                if not data:
                    break
                self.buf += data
        except Exception:               # pylint: disable=broad-except
            pass
        self.eof = True

    def raw(self, payload):
        try:
            self.writer.write(u32(len(payload)) + payload)
        except Exception:               # pylint: disable=broad-except
            self.eof = True

    def packets(self):
        """Complete packets received so far: [(type, body-after-type)]"""
        out = []
        while len(self.buf) >= 4:
            n = struct.unpack('>I', self.buf[:4])[0]
            if len(self.buf) < 4 + n:
                break
            pkt = bytes(self.buf[4:4 + n])
            del self.buf[:4 + n]
            out.append((pkt[0] if pkt else -1, pkt[1:]))
        return out

    def request(self, ptype, body):
        rid = self.next_id
        self.next_id += 1
        self.raw(bytes([ptype]) + u32(rid) + body)
        return rid

    def exchange(self, ptype, body):
        """One request; returns its reply (type, body after id) or None"""
        rid = self.request(ptype, body)
        self.loop.run_until_idle()
        for t, b in self.packets():
            if len(b) >= 4 and struct.unpack('>I', b[:4])[0] == rid:
                return t, b[4:]
        return None

    def close(self):
        try:
            self.writer.close()
            self.collector.cancel()
            self.loop.run_until_idle()
        except BaseException:           # pylint: disable=broad-except
            pass


class ServerWorld:
    _key = None

    def __init__(self):
        if ServerWorld._key is None:
            ServerWorld._key = asyncssh.generate_private_key('ssh-ed25519')
        os.makedirs(tlc.WORK, exist_ok=True)
        self.root = tempfile.mkdtemp(prefix='c14root', dir=tlc.WORK)
        self.populate()
        FaultyServer.root = self.root.encode()
        self.loop = new_loop()
        self.loop.run_until_complete(self._start())

    def populate(self):
        with open(os.path.join(self.root, 'f'), 'wb') as f:
            f.write(b'hello world, this is the file\n')
        os.makedirs(os.path.join(self.root, 'd'), exist_ok=True)
        with open(os.path.join(self.root, 'd', 'x'), 'wb') as f:
            f.write(b'x')
        if not os.path.lexists(os.path.join(self.root, 'l')):
            os.symlink('f', os.path.join(self.root, 'l'))
        # real files whose metadata the wire formats cannot (all) express
        self.real = {}
        os.makedirs(os.path.join(self.root, 'rd'), exist_ok=True)
        for name, t in (('real_neg', -100), ('real_far', 2**32 + 5)):
            for p in (os.path.join(self.root, name),
                      os.path.join(self.root, 'rd', name)):
                with open(p, 'wb') as f:
                    f.write(b'x')
                try:
                    os.utime(p, (t, t))
                    self.real[name] = int(os.stat(p).st_mtime) == t
                except (OSError, OverflowError):
                    self.real[name] = False

    async def _start(self):
        self.acceptor = await asyncssh.listen(
            '127.0.0.1', 2223, server_factory=sftp_io.NoAuthServer,
            server_host_keys=[ServerWorld._key], sftp_factory=FaultyServer,
            sftp_version=6)
        self.conn = await asyncssh.connect(
            '127.0.0.1', 2223, known_hosts=None, config=None,
            client_keys=None, username='u')

    def session(self, version):
        s = RawSession(self, version)
        # a file and a directory handle for the handle-taking requests
        r = s.exchange(3, open_body(s.version, b'f', write=True))
        if r and r[0] == HANDLE:
            s.fh = Cur(r[1]).str()
        r = s.exchange(11, sstr(b'd'))
        if r and r[0] == HANDLE:
            s.dh = Cur(r[1]).str()
        if s.fh is None or s.dh is None:
            raise RuntimeError('could not open the test file / directory')
        return s

    def close(self):
        try:
            self.conn.abort()
            self.acceptor.close()
            self.loop.run_until_idle()
        except BaseException:           # pylint: disable=broad-except
            pass
        close_loop(self.loop)
        shutil.rmtree(self.root, ignore_errors=True)


def empty_attrs(v):
    return u32(0) if v == 3 else u32(0) + b'\x05'


def open_body(v, path, write=False):
    if v >= 5:
        return sstr(path) + u32(0x81 | (0x2 if write else 0)) + u32(2) + \
            empty_attrs(v)
    return sstr(path) + u32(3 if write else 1) + empty_attrs(v)


EXT_NAMES = {'x_posix_rename': b'posix-rename@openssh.com',
             'x_statvfs': b'statvfs@openssh.com',
             'x_fstatvfs': b'fstatvfs@openssh.com',
             'x_hardlink': b'hardlink@openssh.com',
             'x_fsync': b'fsync@openssh.com',
             'x_lsetstat': b'lsetstat@openssh.com',
             'x_limits': b'limits@openssh.com',
             'x_copy_data': b'copy-data',
             'x_ranges': b'ranges@asyncssh.com'}
TYPE_NUM = {'open': 3, 'close': 4, 'read': 5, 'write': 6, 'lstat': 7,
            'fstat': 8, 'setstat': 9, 'fsetstat': 10, 'opendir': 11,
            'readdir': 12, 'remove': 13, 'mkdir': 14, 'rmdir': 15,
            'realpath': 16, 'stat': 17, 'rename': 18, 'readlink': 19,
            'symlink': 20, 'link': 21, 'block': 22, 'unblock': 23}


def request_body(t, v, s, n):
    """(packet type, well-formed body after the id) of request type t in
    version v; n makes names unique"""
    fl = u32(0xfd) if v >= 4 else b''
    tmp = b'tmp%d' % n
    if t == 'open':
        return 3, open_body(v, b'f')
    if t == 'close':
        return 4, sstr(b'\0\0\0\x63')
    if t == 'read':
        return 5, sstr(s.fh) + u64(0) + u32(5)
    if t == 'write':
        return 6, sstr(s.fh) + u64(0) + sstr(b'hello')
    if t in ('lstat', 'stat'):
        return TYPE_NUM[t], sstr(b'f') + fl
    if t == 'fstat':
        return 8, sstr(s.fh) + fl
    if t == 'setstat':
        return 9, sstr(b'f') + empty_attrs(v)
    if t == 'fsetstat':
        return 10, sstr(s.fh) + empty_attrs(v)
    if t == 'opendir':
        return 11, sstr(b'd')
    if t == 'readdir':
        return 12, sstr(s.dh)
    if t == 'remove':
        return 13, sstr(b'nonexistent')
    if t == 'mkdir':
        return 14, sstr(tmp) + empty_attrs(v)
    if t == 'rmdir':
        return 15, sstr(b'nonexistent')
    if t == 'realpath':
        return 16, sstr(b'.') + (b'\x01' if v >= 6 else b'')
    if t == 'rename':
        return 18, sstr(b'nonexistent') + sstr(tmp) + \
            (u32(0) if v >= 5 else b'')
    if t == 'readlink':
        return 19, sstr(b'l')
    if t == 'symlink':
        return 20, sstr(b'sl' + tmp) + sstr(b'f')
    if t == 'link':
        return 21, sstr(b'hl' + tmp) + sstr(b'f') + b'\x00'
    if t == 'block':
        return 22, sstr(s.fh) + u64(0) + u64(1) + u32(0x40)
    if t == 'unblock':
        return 23, sstr(s.fh) + u64(0) + u64(1)
    name = sstr(EXT_NAMES[t])
    if t == 'x_posix_rename':
        return EXTENDED, name + sstr(b'nonexistent') + sstr(tmp)
    if t == 'x_statvfs':
        return EXTENDED, name + sstr(b'.')
    if t in ('x_fstatvfs', 'x_fsync'):
        return EXTENDED, name + sstr(s.fh)
    if t == 'x_hardlink':
        return EXTENDED, name + sstr(b'f') + sstr(b'xh' + tmp)
    if t == 'x_lsetstat':
        return EXTENDED, name + sstr(b'f') + empty_attrs(v)
    if t == 'x_limits':
        return EXTENDED, name
    if t == 'x_copy_data':
        return EXTENDED, name + sstr(s.fh) + u64(0) + u64(1) + sstr(s.fh) + \
            u64(20)
    if t == 'x_ranges':
        return EXTENDED, name + sstr(s.fh) + u64(0) + u64(10)
    raise ValueError(t)


RET_TYPE = {'handle': HANDLE, 'data': DATA, 'name': NAME, 'attrs': ATTRS,
            'extreply': EXTENDED_REPLY}
TAILS = [b'\0', b'\0\0\0\0', b'\xff\xff\xff\xff', b'junkjunkjunk']
UNKNOWN_TYPES = [0, 1, 2, 24, 25, 50, 99, 100, 101, 102, 103, 104, 105, 150,
                 199, 201, 202, 255]
UNKNOWN_EXTS = [b'foo@example.com', b'', b'statvfs@openssh.co',
                b'limits@openssh.com\0', b'POSIX-RENAME@OPENSSH.COM']


def classify(ptype, body):
    if ptype == STATUS:
        code = struct.unpack('>I', body[:4])[0] if len(body) >= 4 else -1
        return 'status_ok' if code == 0 else 'status_err', code
    for k, n in RET_TYPE.items():
        if ptype == n:
            return k, None
    return f'type{ptype}', None


def variants(case, s, n):
    """Concrete packets (type, body, description) for one table case"""
    v, t, d = case['v'], case['t'], case['d']
    if d in ('none', 'trunc', 'extend'):
        ptype, body = request_body(t, v, s, n)
        if d == 'none':
            return [(ptype, body, 'intact')]
        if d == 'extend':
            return [(ptype, body + tail, f'+{tail!r}') for tail in TAILS]
        lo = 0
        if ptype == EXTENDED:            # cuts inside the name are trunc_ext
            lo = 4 + len(EXT_NAMES[t])
        return [(ptype, body[:k], f'cut at {k}/{len(body)}')
                for k in range(lo, len(body))]
    if d == 'unknown_type':
        return [(u, b, f'type {u} body {b!r}') for u in UNKNOWN_TYPES
                for b in (b'', sstr(b'f'))]
    if d == 'unknown_ext':
        return [(EXTENDED, sstr(x) + b, f'ext {x!r}') for x in UNKNOWN_EXTS
                for b in (b'', sstr(b'f'))]
    if d == 'trunc_ext':
        full = sstr(b'statvfs@openssh.com')
        return [(EXTENDED, full[:k], f'ext name cut at {k}')
                for k in range(0, len(full))]
    raise ValueError(d)


def server_case(sw, sess, case, n):
    """Run one 'req' case of the SftpSrvCases table.  Returns (session,
    [result dicts]); the session is replaced when it ended."""
    out = []
    v = case['v']
    if case['d'] == 'short_frame':
        for payload in (b'', b'\x05', b'\x05\0', b'\x05\0\0\0', b'\x11\0\0'):
            s2 = sw.session(v)
            s2.raw(payload)
            s2.loop.run_until_idle()
            pk = s2.packets()
            probe = s2.exchange(16, sstr(b'.') + (b'\x01' if v >= 6 else b''))
            out.append({'case': case, 'what': f'frame {payload!r}',
                        'replies': len(pk), 'alive': probe is not None,
                        'l1': []})
            s2.close()
        return sess, out
    for ptype, body, what in variants(case, sess, n):
        rid = sess.request(ptype, body)
        pid = sess.request(16, sstr(b'.') + (b'\x01' if v >= 6 else b''))
        sess.loop.run_until_idle()
        pk = sess.packets()
        mine, probe, other = [], [], []
        for t, b in pk:
            i = struct.unpack('>I', b[:4])[0] if len(b) >= 4 else None
            (mine if i == rid else probe if i == pid else other).append(
                (t, b[4:] if len(b) >= 4 else b))
        r = {'case': case, 'what': what, 'ptype': ptype, 'body': body.hex(),
             'replies': len(mine), 'l1': [],
             'alive': len(probe) == 1 and probe[0][0] == NAME}
        classes = [classify(t, b) for t, b in mine]
        r['classes'] = [c for c, _ in classes]
        r['codes'] = [c for _, c in classes]
        if len(mine) != case['replies']:
            r['l1'].append(('ExactlyOneReply', f'{len(mine)} replies carry '
                            f'the id of the request'))
        for t_, b_ in mine:
            bad = check_body(t_, b_, v, case['t'])
            if bad:
                r['l1'].append(('WellFormedReply', f'the reply does not '
                                f'parse as a v{v} body of its type: {bad} '
                                f'[type={t_} body={b_[:48].hex()}]'))
        for c in r['classes']:
            if c not in case['types']:
                r['l1'].append(('TypeLegal', f'reply {c} is not legal for '
                                f'this request (legal: '
                                f'{sorted(case["types"])})'))
        if other:
            r['l1'].append(('ExactlyOneReply', f'{len(other)} replies with '
                            f'ids nobody asked for'))
        if not r['alive']:
            r['l1'].append(('ErrorNotFatal', 'the session did not answer the '
                            'next request'))
            sess.close()
            sess = sw.session(v)
        out.append(r)
    return sess, out


# ---- independent decoder of reply bodies (own framing code, per version) ----
VALID_FLAGS = {3: 0x8000000f, 4: 0x800001fd, 5: 0x800003fd, 6: 0x8000fffd}


def _utf8(b):
    b.decode('utf-8')


def parse_attrs(cur, v):
    flags = cur.u32()
    if flags & ~VALID_FLAGS[v]:
        raise ValueError(f'attribute flags 0x{flags:08x} not defined in v{v}')
    if v >= 4:
        if not 1 <= cur.u8() <= 9:
            raise ValueError('file type byte out of range')
    if flags & 0x1:
        cur.u64()
    if flags & 0x400:
        cur.u64()
    if v == 3:
        if flags & 0x2:
            cur.u32(), cur.u32()
    elif flags & 0x80:
        _utf8(cur.str()), _utf8(cur.str())
    if flags & 0x4:
        cur.u32()
    if v == 3:
        if flags & 0x8:
            cur.u32(), cur.u32()
    else:
        for bit in (0x8, 0x10, 0x20, 0x8000):
            if flags & bit:
                cur.u64()
                if flags & 0x100:
                    if cur.u32() >= 10**9:
                        raise ValueError('nanoseconds >= 1e9')
    if flags & 0x40:
        cur.str()
    if flags & 0x200:
        cur.u32(), cur.u32()
    if flags & 0x800:
        cur.u8()
    if flags & 0x1000:
        _utf8(cur.str())
    if flags & 0x2000:
        cur.u32()
    if flags & 0x4000:
        cur.str()
    if flags & 0x80000000:
        for _ in range(cur.u32()):
            cur.str(), cur.str()


def _end(cur, what):
    if cur.i != len(cur.d):
        raise ValueError(f'{len(cur.d) - cur.i} stray bytes after {what}')


def _opt_bool(cur, v):
    if v >= 6 and cur.i < len(cur.d):
        if cur.u8() > 1:
            raise ValueError('end-of-data flag is not a boolean')


def check_body(ptype, body, v, t=None):
    """None if `body` (after the request id) is a well-formed body of reply
    type `ptype` in version v, else what is wrong with it"""
    cur = Cur(body)
    try:
        if ptype == STATUS:
            code = cur.u32()
            if code > 31:
                raise ValueError(f'status code {code}')
            _utf8(cur.str())
            cur.str().decode('ascii')
            if v < 6:
                _end(cur, 'status')
        elif ptype == HANDLE:
            if len(cur.str()) > 256:
                raise ValueError('handle longer than 256 bytes')
            _end(cur, 'handle')
        elif ptype == DATA:
            cur.str()
            _opt_bool(cur, v)
            _end(cur, 'data')
        elif ptype == NAME:
            for _ in range(cur.u32()):
                cur.str()
                if v == 3:
                    cur.str()
                parse_attrs(cur, v)
            _opt_bool(cur, v)
            _end(cur, 'names')
        elif ptype == ATTRS:
            parse_attrs(cur, v)
            _end(cur, 'attrs')
        elif ptype == EXTENDED_REPLY:
            if t in ('x_statvfs', 'x_fstatvfs'):
                for _ in range(11):
                    cur.u64()
                _end(cur, 'statvfs reply')
            elif t == 'x_limits':
                for _ in range(4):
                    cur.u64()
                _end(cur, 'limits reply')
            elif t == 'x_ranges':
                for _ in range(cur.u32()):
                    cur.u64(), cur.u64()
                if cur.u8() > 1:
                    raise ValueError('at-end flag is not a boolean')
                _end(cur, 'ranges reply')
        else:
            return f'reply type {ptype} is not a response type'
    except (struct.error, IndexError, ValueError, UnicodeDecodeError) as exc:
        return f'{type(exc).__name__}: {exc}'
    return None


def unenc_request(sess, v, t, f):
    """(packet type, body) of the request of kind t whose result is of fault
    class f; None if a prerequisite (open) failed"""
    path = f.encode() if f.startswith('real_') else b'enc_' + f.encode()
    if f == 'real_dir':
        path = b'rd'
    fl = u32(0xfd) if v >= 4 else b''
    if t in ('stat', 'lstat'):
        return TYPE_NUM[t], sstr(path) + fl
    if t in ('fstat', 'x_fstatvfs'):
        r = sess.exchange(3, open_body(v, path))
        if not r or r[0] != HANDLE:
            return None
        h = Cur(r[1]).str()
        if t == 'fstat':
            return 8, sstr(h) + fl
        return EXTENDED, sstr(EXT_NAMES[t]) + sstr(h)
    if t == 'readdir':
        r = sess.exchange(11, sstr(path))
        if not r or r[0] != HANDLE:
            return None
        return 12, sstr(Cur(r[1]).str())
    if t == 'realpath':
        return 16, sstr(path) + (b'\x01' if v >= 6 else b'')
    if t == 'realpath_stat':
        return 16, sstr(path) + (b'\x03' if v >= 6 else b'')
    if t == 'readlink':
        return 19, sstr(path)
    if t == 'x_statvfs':
        return EXTENDED, sstr(EXT_NAMES[t]) + sstr(path)
    raise ValueError(t)


def unenc_case(sw, sess, v, t, f, legal):
    """The handler succeeds with a result of fault class f.  Returns
    (session, result dict)"""
    req = unenc_request(sess, v, t, f)
    r = {'v': v, 't': t, 'f': f, 'l1': [], 'sent': None}
    if req is None:
        r['skipped'] = 'prerequisite open failed'
        return sess, r
    ptype, body = req
    r['ptype'], r['body'] = ptype, body.hex()
    rid = sess.request(ptype, body)
    pid = sess.request(16, sstr(b'.') + (b'\x01' if v >= 6 else b''))
    sess.loop.run_until_idle()
    mine, probe, other = [], [], []
    for pt, b in sess.packets():
        i = struct.unpack('>I', b[:4])[0] if len(b) >= 4 else None
        (mine if i == rid else probe if i == pid else other).append(
            (pt, b[4:] if len(b) >= 4 else b))
    r['replies'] = len(mine)
    if len(mine) != 1:
        r['l1'].append(('ExactlyOneReply', f'{len(mine)} replies carry the '
                        f'id of the request'))
    if other:
        r['l1'].append(('ExactlyOneReply', f'{len(other)} replies with ids '
                        f'nobody asked for'))
    tname = 'x_statvfs' if t.startswith('x_') else t
    for pt, b in mine:
        cls, code = classify(pt, b)
        r['sent'] = cls
        r['code'] = code
        if cls not in legal:
            r['l1'].append(('TypeLegal', f'reply {cls} is not legal for this '
                            f'request (legal: {sorted(legal)})'))
        bad = check_body(pt, b, v, tname)
        if bad:
            r['l1'].append(('WellFormedReply', f'the {cls} reply does not '
                            f'parse as a v{v} {cls} body: {bad} '
                            f'[body={b[:48].hex()}]'))
    if not (len(probe) == 1 and probe[0][0] == NAME):
        r['l1'].append(('ErrorNotFatal', 'the session did not answer the '
                        'next request'))
        sess.close()
        sess = sw.session(v)
    return sess, r


# ---- handle life cycle (specs/SftpProto/SftpHandles.tla) ----
SPECIAL_HANDLES = {-1: b'\x00\x00\xff\xfe', -2: b'', -3: b'L' * 300}


def handle_request(r, h, v):
    """(packet type, body) of handle-taking request r naming handle h"""
    fl = u32(0xfd) if v >= 4 else b''
    if r == 'read':
        return 5, sstr(h) + u64(0) + u32(4)
    if r == 'write':
        return 6, sstr(h) + u64(0) + sstr(b'x')
    if r == 'fstat':
        return 8, sstr(h) + fl
    if r == 'fsetstat':
        return 10, sstr(h) + empty_attrs(v)
    if r == 'readdir':
        return 12, sstr(h)
    if r == 'close':
        return 4, sstr(h)
    if r == 'block':
        return 22, sstr(h) + u64(0) + u64(1) + u32(0x40)
    if r == 'unblock':
        return 23, sstr(h) + u64(0) + u64(1)
    if r == 'x_ranges':
        return EXTENDED, sstr(EXT_NAMES[r]) + sstr(h) + u64(0) + u64(10)
    return EXTENDED, sstr(EXT_NAMES[r]) + sstr(h)


def split_handle_behaviour(steps):
    """[(lbl, state)] -> (version, [(lbl, reply)]) up to the end of session"""
    v = steps[0][1]['v']
    out = []
    for lbl, st in steps[1:]:
        if lbl[0] == 'end' or (out and st['n'] == steps[0][1]['n']):
            break
        out.append((tuple(lbl), st['reply']))
    return v, out


def handle_replay(sw, v, script):
    """One behaviour of SftpHandles against the real server.  script:
    [(lbl, model reply)].  Returns dict(l1, diverged, trace)."""
    FaultyServer.reset_hooks()
    sess = RawSession(sw, v)
    res = {'v': v, 'script': [list(l) for l, _ in script], 'l1': [],
           'diverged': None, 'trace': []}
    issued = []                 # handle strings in order of issue
    kind, closed, eof = {}, set(), set()

    def hbytes(t):
        return SPECIAL_HANDLES[t] if t < 0 else issued[t - 1]

    try:
        for lbl, want in script:
            target = None
            if lbl[0] == 'open':
                if lbl[1] == 'dir':
                    ptype, body = 11, sstr(b'd')
                else:
                    ptype, body = 3, open_body(
                        v, b'f' if lbl[2] else b'nonexistent', write=True)
                what = f'open {lbl[1]} {"ok" if lbl[2] else "missing"}'
            elif lbl[0] == 'close':
                target = lbl[1]
                if target > len(issued):
                    break
                ptype, body = handle_request('close', hbytes(target), v)
                FaultyServer.close_mode = lbl[2]
                what = f'close #{target} hook={lbl[2]}'
            else:
                target = lbl[2]
                if target > len(issued):
                    break
                ptype, body = handle_request(lbl[1], hbytes(target), v)
                what = f'{lbl[1]} #{target}'
            rid = sess.request(ptype, body)
            pid = sess.request(16, sstr(b'.') + (b'\x01' if v >= 6 else b''))
            sess.loop.run_until_idle()
            FaultyServer.close_mode = 'ok'
            mine, probe = [], []
            for pt, b in sess.packets():
                i = struct.unpack('>I', b[:4])[0] if len(b) >= 4 else None
                if i == rid:
                    mine.append((pt, b[4:]))
                elif i == pid:
                    probe.append((pt, b[4:]))
            if len(mine) != 1:
                res['l1'].append(('ExactlyOneReply', f'{what}: {len(mine)} '
                                  f'replies'))
                break
            if len(probe) != 1:
                res['l1'].append(('ErrorNotFatal', f'{what}: the session did '
                                  f'not answer the next request'))
                break
            pt, b = mine[0]
            cls, code = classify(pt, b)
            msg = b''
            if pt == STATUS:
                try:
                    c2 = Cur(b)
                    c2.u32()
                    msg = c2.str()
                except (struct.error, IndexError):
                    pass
            bad = check_body(pt, b, v, 'x_statvfs' if 'statvfs' in what
                             else 'x_ranges' if 'ranges' in what else None)
            if bad:
                res['l1'].append(('WellFormedReply', f'{what}: {bad}'))
            if b'Uncaught exception' in msg:
                res['l1'].append(('HandleLifecycle', f'{what}: the server '
                                  f'answered with an internal error text: '
                                  f'{msg[:80]!r}'))
            invalid = (cls == 'status_err' and
                       (code == 9 if v >= 4 else
                        code == 4 and b'Invalid file handle' in msg))
            # what the harness itself knows about the named handle
            must_refuse = target is not None and (
                target < 0 or target in closed or
                (lbl[0] == 'use' and
                 (kind.get(target) == 'dir') != (lbl[1] == 'readdir')))
            if must_refuse and not invalid:
                why = 'was never issued' if target < 0 else \
                    'was closed before' if target in closed else \
                    'is of the wrong kind'
                res['l1'].append(('HandleLifecycle', f'{what}: the handle '
                                  f'{why}, but the reply is {cls} code='
                                  f'{code} {msg[:60]!r} instead of the '
                                  f'v{v} invalid-handle status'))
            got = 'invalid' if invalid else cls
            if lbl[0] == 'open' and cls == 'handle':
                h = Cur(b).str()
                if h in issued:
                    res['l1'].append(('HandleLifecycle', f'{what}: handle '
                                      f'{h.hex()} was issued before'))
                issued.append(h)
                kind[len(issued)] = lbl[1]
            if lbl[0] == 'close' and target is not None and target > 0:
                closed.add(target)
            if lbl[0] == 'use' and lbl[1] == 'readdir' and target > 0 and \
                    target not in closed and kind.get(target) == 'dir':
                if target in eof and not (cls == 'status_err' and code == 1):
                    res['l1'].append(('HandleLifecycle', f'{what}: the '
                                      f'listing had ended, now the reply is '
                                      f'{cls} code={code}'))
                if cls == 'status_err' and code == 1:
                    eof.add(target)
                    got = 'eof'
                elif cls == 'name':
                    eof.add(target)     # the whole directory fits one reply
            res['trace'].append((what, got, code))
            if not res['l1'] and res['diverged'] is None:
                ok = got == want or (want == 'served' and got != 'invalid'
                                     and not got.startswith('type'))
                if not ok:
                    res['diverged'] = (f'{what}: server replied {got} '
                                       f'(code {code}), model {want}')
    finally:
        sess.close()
        sess.loop.run_until_idle()
    over = [n for n in FaultyServer.closes.values() if n > 1]
    if over:
        res['l1'].append(('HooksOnce', f'the application\'s close() hook ran '
                          f'{max(over)} times for one open file'))
    elif not res['l1'] and res['diverged'] is None:
        never = [o for o in FaultyServer.opened
                 if FaultyServer.closes.get(id(o), 0) == 0]
        if never:
            res['diverged'] = (f'{len(never)} opened files were never '
                               f'closed by the end of the session')
    return res


def server_ending_case(sw, v, how, nopen=2):
    """The session ends while the server holds open handles: the client
    closes the channel ('close'), sends EOF in the middle of a packet
    ('eof_mid'), or the connection is aborted ('abort').  Every open file
    must be closed exactly once and the application's exit() must run once."""
    FaultyServer.reset_hooks()
    sess = RawSession(sw, v)
    res = {'v': v, 'how': how, 'l1': []}
    for _ in range(nopen):
        sess.exchange(3, open_body(v, b'f', write=True))
    sess.exchange(11, sstr(b'd'))
    if how == 'close':
        sess.writer.close()
    elif how == 'eof_mid':
        sess.writer.write(u32(50) + b'\x05\x00')
        sess.writer.write_eof()
    else:
        sw.conn.abort()
    sess.loop.run_until_idle()
    sess.loop.advance(2.0)
    try:
        sess.collector.cancel()
        sess.loop.run_until_idle()
    except BaseException:               # pylint: disable=broad-except
        pass
    counts = [FaultyServer.closes.get(id(o), 0) for o in FaultyServer.opened]
    res['closes'], res['exits'] = counts, FaultyServer.exits
    if len(counts) != nopen or any(c != 1 for c in counts):
        res['l1'].append(('EndClosesHandles', f'session ended ({how}) with '
                          f'{nopen} files open: close() calls per file '
                          f'{counts}'))
    if FaultyServer.exits != 1:
        res['l1'].append(('EndClosesHandles', f'session ended ({how}): the '
                          f'application\'s exit() hook ran '
                          f'{FaultyServer.exits} times'))
    return res


def errno_case(sess, v, name=None, code=None):
    """stat() of a magic name; returns the status code sent"""
    path = (b'errno_' + name.encode()) if name else \
        (b'apperr_%d' % code if code is not None else b'notimpl')
    r = sess.exchange(17, sstr(path) + (u32(0xfd) if v >= 4 else b''))
    if r is None:
        return None
    cls, c = classify(r[0], r[1])
    return c if cls.startswith('status') else cls


def access_case(sess, v, op):
    """WRITE on a handle opened for reading / READ on one opened for writing
    only; returns the status code sent (None: no reply)"""
    if op == 'write_rdonly':
        r = sess.exchange(3, open_body(v, b'f'))
    else:
        r = sess.exchange(3, sstr(b'acc_w') + u32(0x2 | 0x8) + empty_attrs(v))
    if not r or r[0] != HANDLE:
        return 'open failed: %r' % (r,)
    h = Cur(r[1]).str()
    if op == 'write_rdonly':
        r = sess.exchange(6, sstr(h) + u64(0) + sstr(b'data'))
    else:
        r = sess.exchange(5, sstr(h) + u64(0) + u32(16))
    out = None
    if r is not None:
        cls, c = classify(r[0], r[1])
        out = c if cls.startswith('status') else cls
        sess.exchange(4, sstr(h))
    return out


# ======================================================================
# 3. attribute codec
# ======================================================================

VALUES = {
    'size': 0x123456789, 'alloc_size': 0x1000000000, 'uid': 1001, 'gid': 2002,
    'owner': 'alice', 'group': 'staff', 'permissions': 0o6751,
    'atime': 1700000001, 'atime_ns': 111, 'crtime': 1600000002,
    'crtime_ns': 222, 'mtime': 1650000003, 'mtime_ns': 333,
    'ctime': 1680000004, 'ctime_ns': 444, 'acl': b'\0\0\0\1acl',
    'attrib_bits': 0x15, 'attrib_valid': 0x3f, 'text_hint': 2,
    'mime_type': 'text/plain', 'nlink': 3, 'untrans_name': b'raw\xffname',
    'extended': [(b'ext@a', b'1'), (b'ext@b', b'')],
}
ALL_FIELDS = list(VALUES)
# file types and a stat mode carrying them (v3 derives the type from the mode)
TYPE_MODES = {1: 0o100000, 2: 0o040000, 3: 0o120000, 6: 0o140000,
              7: 0o020000, 8: 0o060000, 9: 0o010000, 5: 0, 4: None}


def attrs_case(v, present, outcome, carried, type_rule, longname, ftype=1,
               as_name=False):
    """encode -> decode one case; returns (l1, divergence, note)"""
    from asyncssh.sftp import SFTPAttrs, SFTPName
    from asyncssh.packet import SSHPacket
    kw = {f: VALUES[f] for f in present}
    if 'permissions' in kw and v == 3 and TYPE_MODES.get(ftype):
        kw['permissions'] = VALUES['permissions'] | TYPE_MODES[ftype]
    a = SFTPAttrs(type=ftype, **kw)
    try:
        if as_name:
            blob = SFTPName(b'file.txt', b'-rw-r----- long', a).encode(v)
        else:
            blob = a.encode(v)
    except ValueError as exc:
        if outcome == 'reject':
            return [], None, None
        return [], f'encode raised {exc!r}, model says {outcome}', None
    if outcome == 'reject':
        return [], 'encode accepted owner/group in v3, model says reject', None
    pkt = SSHPacket(blob)
    try:
        if as_name:
            nm = SFTPName.decode(pkt, v)
            b = nm.attrs
        else:
            nm = None
            b = SFTPAttrs.decode(pkt, v)
        pkt.check_end()
    except Exception as exc:            # pylint: disable=broad-except
        if outcome == 'undecodable':
            return [], None, 'undecodable'
        # every field of the case is one the version defines -> property
        return [('CodecRoundTrip', f'decode of the encoded block failed: '
                 f'{type(exc).__name__}: {exc}')], None, None
    l1, div = [], None
    cmap = dict(carried)
    for f in ALL_FIELDS:
        got = getattr(b, f)
        orig = kw.get(f)
        mode = cmap.get(f)
        if f == 'extended':
            got = list(got) if got else None
        if mode == 'val':
            if got != orig:
                l1.append(('CodecRoundTrip', f'{f}: {orig!r} came back as '
                           f'{got!r}'))
        elif mode == 'zero':
            if got != 0:
                div = f'{f}: expected 0 (shared sub-second flag), got {got!r}'
        elif mode == 'str':
            src = VALUES['uid'] if f == 'owner' else VALUES['gid']
            if got != str(src):
                l1.append(('CodecRoundTrip', f'{f}: numeric id {src} came '
                           f'back as {got!r}'))
        elif got is not None:
            div = f'{f}: not carried by v{v} per the table, decoded {got!r}'
    # file type
    if type_rule == 'same':
        want = ftype
    elif type_rule == 'fold_special':
        want = 4 if ftype >= 6 else ftype
    elif type_rule == 'unknown':
        want = 5
    else:
        want = ftype if TYPE_MODES.get(ftype) else 5
    if b.type != want:
        if type_rule in ('same', 'fold_special') or \
                (type_rule == 'from_mode' and TYPE_MODES.get(ftype)):
            l1.append(('CodecRoundTrip', f'type {ftype} came back as '
                       f'{b.type} in v{v}'))
        else:
            div = f'type: expected {want}, got {b.type}'
    if nm is not None:
        if nm.filename != b'file.txt':
            l1.append(('CodecRoundTrip', f'filename came back as '
                       f'{nm.filename!r}'))
        if longname and nm.longname != b'-rw-r----- long':
            l1.append(('CodecRoundTrip', f'longname came back as '
                       f'{nm.longname!r}'))
        if not longname and nm.longname:
            div = f'longname carried in v{v}: {nm.longname!r}'
    note = None
    if outcome == 'undecodable':
        note = 'decodable'              # the quirk is gone: conforms to the
        #                                 intended (guarded) table
    return l1, div, note
