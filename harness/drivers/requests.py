"""Driver for specs/Requests (X02): replays TLC behaviours of the request /
reply discipline into real asyncssh endpoints with manual packet delivery.

Two setups:
  'api'  real client (requester) <-> real server.  Requests are made through
         the client's API (create_server / create_unix_server / send_signal /
         change_terminal_size / send_break where a public call exists,
         _make_request / _send_request / _make_global_request /
         _send_global_request otherwise), callers are tasks that can be
         cancelled.
  'raw'  raw peer (harness/rawpeer.py) as the requester -> real server: any
         request type with any want_reply flag, replies nobody asked for.

Every request is distinguishable (its id travels in the signal name, the
terminal width, the break length, the X11 screen, the listen host / path)
and the completion of the slow handlers is in the driver's hands
(server_requested / unix_server_requested return futures of the driver;
attach_x11_listener / create_agent_listener of the server connection OBJECT
are replaced by gates - the code under test, _finish_x11_req_request /
_finish_agent_req_request and the whole queueing, stays the real one).

After every step the projected state is compared with the model's (L2:
divergences); the property monitors (L1: violations) look at observations
only: what callers were given, what the handlers of the application saw and
when, the packets on the wire, how the connection ended.
"""

import asyncio
import asyncssh
from asyncssh.packet import Boolean, String, UInt32, SSHPacket

from harness import rawpeer
from harness.sshpair import Pair, NoAuthServer, hostkey

# ---------------------------------------------------------------------------
# request catalogue: name -> (scope kind, handler kind, observable callback?)
# ---------------------------------------------------------------------------
CHAN_REAL = {
    'ok': ['signal', 'winch', 'break1', 'env', 'pty'],
    'fail': ['break0', 'unknown', 'keepalive', 'x11bad'],
    'slow': ['x11', 'agent'],
}
GLOB_REAL = {
    'ok': ['fwd_ok', 'fwd0_ok', 'keepalive', 'prove_ok', 'unix_ok'],
    'fail': ['fwd_no', 'unknown', 'prove_bad', 'unix_no'],
    'slow': ['fwd_slow', 'fwd0_slow', 'unix_slow'],
}
# realisations whose handler start is seen by the application
OBSERVABLE = {'signal', 'winch', 'break1', 'break0', 'pty', 'x11', 'agent',
              'fwd_ok', 'fwd0_ok', 'unix_ok', 'fwd_no', 'unix_no', 'fwd_slow',
              'fwd0_slow', 'unix_slow'}
X11_PROTO = b'MIT-MAGIC-COOKIE-1'


def wire_request(name, i):
    """(request type, payload after the want_reply flag)"""
    if name == 'signal':
        return b'signal', String(f'S{i}')
    if name == 'winch':
        return b'window-change', UInt32(i) + UInt32(24) + UInt32(0) + UInt32(0)
    if name == 'break1':
        return b'break', UInt32(2 * i + 1)
    if name == 'break0':
        return b'break', UInt32(2 * i)
    if name == 'env':
        return b'env', String(f'K{i}') + String('v')
    if name == 'pty':
        return b'pty-req', String(f'T{i}') + UInt32(80) + UInt32(24) + \
            UInt32(0) + UInt32(0) + String(b'\x00')
    if name == 'unknown':
        return f'x02-{i}@verif'.encode(), b''
    if name == 'keepalive':
        return b'keepalive@openssh.com', b''
    if name == 'x11bad':
        return b'x11-req', Boolean(False) + String(X11_PROTO) + \
            String(b'zz') + UInt32(i)
    if name == 'x11':
        return b'x11-req', Boolean(False) + String(X11_PROTO) + \
            String(b'00' * 16) + UInt32(i)
    if name == 'agent':
        return b'auth-agent-req@openssh.com', b''
    if name in ('fwd_ok', 'fwd_no', 'fwd_slow'):
        return b'tcpip-forward', String(f'h{i}') + UInt32(3000 + i)
    if name in ('fwd0_ok', 'fwd0_slow'):
        return b'tcpip-forward', String(f'h{i}') + UInt32(0)
    if name in ('unix_ok', 'unix_no', 'unix_slow'):
        return b'streamlocal-forward@openssh.com', String(f'/x02/{i}')
    if name == 'prove_ok':
        return b'hostkeys-prove-00@openssh.com', \
            String(hostkey().public_data)
    if name == 'prove_bad':
        return b'hostkeys-prove-00@openssh.com', String(b'junk-%d' % i)
    if name.startswith('cancel_fwd:'):
        j = int(name.split(':')[1])
        return b'cancel-tcpip-forward', String(f'h{j}') + UInt32(3000 + j)
    if name.startswith('cancel_unix:'):
        j = int(name.split(':')[1])
        return b'cancel-streamlocal-forward@openssh.com', \
            String(f'/x02/{j}')
    raise ValueError(name)


class DummyListener(asyncssh.SSHListener):
    """what the application hands over for a forwarding request"""

    def __init__(self, world, i, port):
        super().__init__()
        self.world = world
        self.i = i
        self.port = port
        self.closed = False
        world.listeners.append(self)

    def get_port(self):
        return self.port

    def close(self):
        self.closed = True

    async def wait_closed(self):
        return None


class Deco:
    """the concrete choices of one replay (kept in the replay file)"""

    def __init__(self, d):
        self.d = d

    @staticmethod
    def pick(rnd, script, setup):
        real = {}
        forwards = []           # established forwardings not yet cancelled
        for lbl, _ in script:
            if lbl[0] != 'make':
                continue
            _, sc, want, kind, i, is_open = lbl
            pool = GLOB_REAL[kind] if sc == 'g' else CHAN_REAL[kind]
            name = rnd.choice(pool)
            if sc == 'g' and kind == 'ok' and is_open and forwards and \
                    rnd.random() < 0.4:
                # cancel a forwarding set up by an earlier request (global
                # requests are served in order: it exists by then)
                j, what = forwards.pop(rnd.randrange(len(forwards)))
                name = f'cancel_{what}:{j}'
            elif sc == 'g' and is_open and name in ('fwd_ok', 'unix_ok'):
                forwards.append((i, 'fwd' if name == 'fwd_ok' else 'unix'))
            real[str(i)] = name
        return Deco({'real': real,
                     'batch': [rnd.random() < 0.5 for _ in script],
                     'unsol_fail': rnd.random() < 0.5,
                     'shell': rnd.random() < 0.5,
                     'setup': setup})


class World:
    def __init__(self, setup, chans, with_global, deco):
        self.setup = setup
        self.chans = list(chans)
        self.scopes = (['g'] if with_global else []) + self.chans
        self.deco = deco
        self.real = {int(k): v for k, v in deco.d['real'].items()}
        self.reqs = {}           # id -> dict(sc, want, kind, name, sent)
        self.order = {sc: [] for sc in self.scopes}   # ids sent, per scope
        self.tasks = {}          # id -> caller task (api)
        self.resolved = {}       # id -> caller state when it left 'wait'
        self.gates = {}          # id -> future of a running slow handler
        self.gate_sc = {}        # id -> scope
        self.agent_gates = []    # gates of agent requests not yet attributed
        self.outcome = {}        # id -> True / False once the handler decided
        self.starts = {sc: [] for sc in self.scopes}  # handler starts seen
        self.listeners = []
        self.late_listeners = []  # handed over after the connection had gone
        self.l1 = []             # (clause, text)
        self.replies = {sc: [] for sc in self.scopes}     # seen on the wire
        self.sclosed = set()     # channels whose CLOSE the server has written
        self.cut_done = False
        self.rclosed = set()     # raw peer: channels whose CLOSE it has sent
        self.unsol_sent = False
        self.unsol_delivered = False
        self.cchan = {}          # scope -> client channel object (api)
        self.schan = {}          # scope -> server channel object
        self.snum = {}           # scope -> server's channel number
        self.cnum = {}           # scope -> requester's channel number
        self.opened = []         # order in which sessions are requested
        self.scanned = 0
        w = self

        class SSess(asyncssh.SSHServerSession):
            def __init__(self, sc):
                self.sc = sc

            def connection_made(self, chan):
                pass

            def shell_requested(self):
                return True

            def pty_requested(self, term_type, term_size, term_modes):
                w._start(self.sc, int(term_type[1:]), 'pty')
                w.outcome[int(term_type[1:])] = True
                return True

            def signal_received(self, signal):
                w._start(self.sc, int(signal[1:]), 'signal')
                w.outcome[int(signal[1:])] = True

            def terminal_size_changed(self, width, height, pw, ph):
                w._start(self.sc, width, 'winch')
                w.outcome[width] = True

            def break_received(self, msec):
                w._start(self.sc, msec // 2, 'break')
                w.outcome[msec // 2] = bool(msec % 2)
                return bool(msec % 2)

            def eof_received(self):
                return True

        class Srv(NoAuthServer):
            def connection_made(self, conn):
                self.pair.sconn = conn
                conn.attach_x11_listener = w._x11_gate
                conn.create_agent_listener = w._agent_gate

            def session_requested(self):
                sc = w.opened.pop(0)
                return SSess(sc)

            def server_requested(self, listen_host, listen_port):
                i = int(listen_host[1:])
                return w._forward(i, listen_port)

            def unix_server_requested(self, listen_path):
                i = int(listen_path.rsplit('/', 1)[1])
                return w._forward(i, None)

        if setup == 'api':
            self.pair = Pair(server_cls=Srv,
                             server_kw=dict(encoding=None, line_editor=False,
                                            send_server_host_keys=True))
        else:
            self.pair = RawPair(server_cls=Srv,
                                server_kw=dict(encoding=None,
                                               line_editor=False,
                                               send_server_host_keys=True))

    # ---- what the server application sees ----
    def _start(self, sc, i, what):
        """a handler of the application is entered for request i"""
        open_gates = [j for j, f in self.gates.items()
                      if self.gate_sc[j] == sc and not f.done()]
        if open_gates:
            self.l1.append(('OneAtATime',
                            f'the handler of request {i} ({what}) in scope '
                            f'{sc} was started while the handler of request '
                            f'{open_gates} was still running'))
        if i not in self.reqs or self.reqs[i]['sc'] != sc:
            self.l1.append(('ServedInOrder',
                            f'a handler ({what}) was started in scope {sc} '
                            f'for a request nobody made there: {i}'))
            return
        if self.starts[sc] and i <= self.starts[sc][-1]:
            self.l1.append(('ServedInOrder',
                            f'scope {sc}: handler of request {i} ({what}) '
                            f'started after that of {self.starts[sc][-1]}'))
        self.starts[sc].append(i)

    def _gate(self, sc, i):
        f = self.pair.loop.create_future()
        self.gates[i] = f
        self.gate_sc[i] = sc
        return f

    async def _x11_gate(self, chan, auth_proto, auth_data, screen):
        sc = self._scope_of_schan(chan)
        self._start(sc, screen, 'x11')
        ok = await self._gate(sc, screen)
        return 'localhost:10.0' if ok else None

    async def _agent_gate(self):
        # create_agent_listener() has no argument: the channel is the one
        # whose _finish_agent_req_request task is running, the request is
        # the oldest agent request delivered there whose handler was not seen
        chan = None
        try:
            chan = asyncio.current_task().get_coro().cr_frame.f_locals['self']
        except (AttributeError, KeyError):
            pass
        sc = self._scope_of_schan(chan)
        i = None
        for j in sorted(self.reqs):
            r = self.reqs[j]
            if r['name'] == 'agent' and sc in (r['sc'], '?') and \
                    r.get('delivered') and not r.get('seen'):
                r['seen'] = True
                i = j
                break
        if i is None:
            self.l1.append(('ServedInOrder', f'an agent forwarding handler '
                            f'was started in scope {sc} without a request '
                            f'that has arrived'))
            return False
        sc = self.reqs[i]['sc']
        self._start(sc, i, 'agent')
        return await self._gate(sc, i)

    def _scope_of_schan(self, chan):
        for sc, c in self.schan.items():
            if c is chan:
                return sc
        return '?'

    def _forward(self, i, port):
        name = self.real.get(i, '?')
        what = 'unix' if port is None else 'fwd'
        self._start('g', i, what)
        lport = 20000 + i if port == 0 else (port or 0)
        if name in ('fwd_ok', 'fwd0_ok', 'unix_ok'):
            self.outcome[i] = True
            return DummyListener(self, i, lport)
        if name in ('fwd_no', 'unix_no'):
            self.outcome[i] = False
            return False
        gate = self._gate('g', i)

        async def wait():
            ok = await gate
            if not ok:
                return False
            lst = DummyListener(self, i, lport)
            if 's' in self.pair.lost:
                self.late_listeners.append(lst)
            return lst
        return wait()

    # ---- set-up ----
    def start(self):
        p = self.pair
        p.start()
        if self.setup == 'api':
            for sc in self.chans:
                self.opened.append(sc)
                chan, _ = p.run(p.conn.create_session(
                    asyncssh.SSHClientSession, encoding=None))
                self.cchan[sc] = chan
                self.snum[sc] = chan._send_chan
                self.cnum[sc] = chan._recv_chan
                self.schan[sc] = p.sconn._channels[chan._send_chan]
        else:
            raw = p.conn
            for k, sc in enumerate(self.chans):
                self.opened.append(sc)
                p.call(raw.raw_send, 90, rawpeer.session_open(chan=40 + k))
                conf = [pl for t, pl in raw.take() if t == 91]
                self.snum[sc] = int.from_bytes(conf[0][5:9], 'big')
                self.cnum[sc] = 40 + k
                self.schan[sc] = p.sconn._channels[self.snum[sc]]
                if self.deco.d.get('shell'):
                    p.call(raw.raw_send, 98, UInt32(self.snum[sc]) +
                           String(b'shell') + Boolean(True))
                    raw.take()
        p.loop.run_until_idle()
        p.manual()
        self.scanned = len(p.events)
        return self

    def stop(self):
        for t in self.tasks.values():
            if not t.done():
                t.cancel()
        for f in self.gates.values():
            if not f.done():
                f.cancel()
        self.pair.stop()

    # ---- wire ----
    def _classify(self, side, pkt):
        """(kind, scope, ok) of a packet written by side, or None"""
        t, _n, pl = pkt
        if t == 80:
            return ('REQ', 'g', None)
        if t in (81, 82):
            return ('REP', 'g', t == 81)
        if t in (97, 98, 99, 100):
            num = int.from_bytes(pl[1:5], 'big')
            nums = self.snum if side == 'c' else self.cnum
            sc = next((s for s, n in nums.items() if n == num), '?')
            if t == 97:
                return ('CLOSE', sc, None)
            if t == 98:
                return ('REQ', sc, None)
            return ('REP', sc, t == 99)
        if t == 1:
            return ('DISC', '-', None)
        return None

    def _scan_wire(self):
        """monitors on the packets the serving side has written"""
        ev = self.pair.events
        for side, name, f in ev[self.scanned:]:
            if name != 'pkt_out' or side != 's' or not f.get('written', True):
                continue
            k = self._classify('s', (f['pkttype'], 0, f['payload']))
            if k is None:
                continue
            kind, sc, ok = k
            if kind == 'CLOSE':
                self.sclosed.add(sc)
            elif kind == 'REP':
                self._reply_seen(sc, ok, f['payload'])
        self.scanned = len(ev)

    def _reply_seen(self, sc, ok, payload):
        if sc not in self.replies:
            self.l1.append(('OneReplyEach', f'reply for unknown scope {sc}'))
            return
        if sc in self.sclosed:
            self.l1.append(('NoReplyAfterClose',
                            f'a reply was written on channel {sc} after the '
                            f'CHANNEL_CLOSE of the same side'))
        k = len(self.replies[sc])
        self.replies[sc].append(ok)
        wanted = [i for i in self.order[sc] if self.reqs[i]['want']]
        if k >= len(wanted):
            self.l1.append(('OneReplyEach',
                            f'scope {sc}: reply number {k + 1} '
                            f'({"SUCCESS" if ok else "FAILURE"}) but only '
                            f'{len(wanted)} requests asked for one: '
                            f'{self._desc(sc)}'))
            return
        i = wanted[k]
        if i not in self.outcome:
            self.l1.append(('RepliesInOrder',
                            f'scope {sc}: reply number {k + 1} was written '
                            f'before the handler of request {i}, which it '
                            f'answers, had finished: {self._desc(sc)}'))
            return
        if self.outcome[i] != ok:
            self.l1.append(('RepliesInOrder',
                            f'scope {sc}: reply number {k + 1} is '
                            f'{"SUCCESS" if ok else "FAILURE"} but the '
                            f'handler of request {i} decided '
                            f'{"SUCCESS" if self.outcome[i] else "FAILURE"}: '
                            f'{self._desc(sc)}'))
            return
        name = self.reqs[i]['name']
        body = payload[1:] if sc == 'g' else payload[5:]
        if ok and name in ('fwd0_ok', 'fwd0_slow') and \
                body != UInt32(20000 + i):
            self.l1.append(('MatchOwn',
                            f'the reply to request {i} (dynamic port) '
                            f'carries {body.hex()} instead of port '
                            f'{20000 + i}'))
        if ok and name.startswith('cancel_'):
            j = int(name.split(':')[1])
            if any(l.i == j and not l.closed for l in self.listeners):
                self.l1.append(('ResultRight',
                                f'request {i} (cancel the forwarding of '
                                f'request {j}) was answered SUCCESS but the '
                                f'listener is still open'))
        if ok and name == 'prove_ok':
            try:
                pk = SSHPacket(body)
                sig = pk.get_string()
                msg = String('hostkeys-prove-00@openssh.com') + \
                    String(self.pair.sconn._session_id
                           if self.pair.sconn else b'') + \
                    String(hostkey().public_data)
                good = hostkey().convert_to_public().verify(msg, sig)
            except Exception:           # pylint: disable=broad-except
                good = False
            if not good and self.pair.sconn is not None:
                self.l1.append(('MatchOwn', f'the reply to request {i} '
                                f'(hostkeys-prove) has no valid signature'))

    def _desc(self, sc):
        return [(i, self.reqs[i]['name'], 'want' if self.reqs[i]['want']
                 else 'nowant', self.outcome.get(i)) for i in self.order[sc]]

    def _take(self, side, n=1):
        """pop the next n protocol messages written by side together with
        the packets in front of them; returns (bytes, [classified])"""
        q = self.pair.queue[side]
        total, got = 0, []
        while q and len(got) < n:
            pkt = q.pop(0)
            total += pkt[1]
            k = self._classify(side, pkt)
            if k is not None:
                got.append(k)
        return total, got

    def _deliver(self, side, wants):
        """hand the next len(wants) messages of side to its peer in ONE
        data_received call; wants = message kinds the model delivers"""
        p = self.pair
        total, got = self._take(side, len(wants))
        if [g[0] for g in got] != wants:
            return f'in flight from {side}: {[g[0] for g in got]}, the ' \
                   f'model delivers {wants}'
        dst = p.st if side == 'c' else p.ct
        if total:
            p.loop.run_callback(dst.deliver, total)
        return None

    # ---- actions ----
    def make(self, sc, want, kind, i, is_open):
        p = self.pair
        name = self.real[i]
        rtype, payload = wire_request(name, i)
        self.reqs[i] = dict(sc=sc, want=want, kind=kind, name=name,
                            sent=is_open)
        if is_open:
            self.order[sc].append(i)
        if name not in OBSERVABLE:
            # the application never sees these handlers: the request itself
            # decides (unknown types fail, env / keepalive ... as coded)
            self.outcome[i] = kind == 'ok'
        if self.setup == 'raw':
            if sc == 'g':
                p.call(p.conn.raw_send, 80, String(rtype) + Boolean(want) +
                       payload)
            else:
                p.call(p.conn.raw_send, 98, UInt32(self.snum[sc]) +
                       String(rtype) + Boolean(want) + payload)
            return
        conn = p.conn
        if sc == 'g':
            if not want:
                self._api(conn._send_global_request, rtype, payload)
            elif name.startswith('fwd'):
                port = 0 if name.startswith('fwd0') else 3000 + i
                self._task(i, conn.create_server(asyncssh.SSHTCPSession,
                                                 f'h{i}', port,
                                                 encoding=None))
            elif name.startswith('unix'):
                self._task(i, conn.create_unix_server(
                    asyncssh.SSHUNIXSession, f'/x02/{i}', encoding=None))
            else:
                self._task(i, conn._make_global_request(rtype, payload))
        else:
            chan = self.cchan[sc]
            if want:
                self._task(i, chan._make_request(rtype, payload))
            elif name == 'signal':
                self._api(chan.send_signal, f'S{i}')
            elif name == 'winch':
                self._api(chan.change_terminal_size, i, 24)
            elif name in ('break0', 'break1'):
                self._api(chan.send_break, 2 * i + (name == 'break1'))
            else:
                self._api(chan._send_request, rtype, payload)

    def _api(self, fn, *args):
        def call():
            try:
                fn(*args)
            except (OSError, asyncssh.Error):
                pass                    # the call failing is a legal outcome
        self.pair.call(call)

    def _task(self, i, awaitable):
        async def caller():
            return await awaitable

        def start():
            self.tasks[i] = self.pair.loop.create_task(caller())
        self.pair.call(start)

    def caller_state(self, i):
        t = self.tasks.get(i)
        if t is None:
            return 'none'
        if not t.done():
            return 'wait'
        if t.cancelled():
            return 'cancel'
        if t.exception() is not None:
            return 'fail'
        r = t.result()
        if isinstance(r, tuple):
            return 'ok' if r[0] == 81 else 'fail'
        if isinstance(r, asyncssh.SSHListener):
            return 'ok'
        return 'ok' if r else 'fail'

    def do(self, lbl, merged=()):
        """one model step (plus the deliveries merged into it)"""
        p = self.pair
        k = lbl[0]
        if k == 'make':
            self.make(lbl[1], lbl[2], lbl[3], lbl[4], lbl[5])
        elif k == 'cancel':
            t = self.tasks.get(lbl[1])
            if t is not None:
                p.call(t.cancel)
        elif k in ('dreq', 'dunsol') or (k == 'dclose' and lbl[1] == 's'):
            for m in (lbl,) + tuple(merged):
                if m[0] == 'dreq' and m[2] in self.reqs:
                    self.reqs[m[2]]['delivered'] = True
            wants = [{'dreq': 'REQ', 'dunsol': 'REP', 'dclose': 'CLOSE'}[m[0]]
                     for m in (lbl,) + tuple(merged)]
            if 'dunsol' in [m[0] for m in (lbl,) + tuple(merged)]:
                self.unsol_delivered = True
            return self._deliver('c', wants)
        elif k == 'reply' or (k == 'dclose' and lbl[1] == 'r'):
            steps = (lbl,) + tuple(merged)
            wants = [{'reply': 'REP', 'dclose': 'CLOSE'}[m[0]] for m in steps]
            err = self._deliver('s', wants)
            if self.setup == 'raw' and not err:
                # the raw peer answers a CLOSE like any endpoint does
                for m in steps:
                    if m[0] == 'dclose' and m[2] not in self.rclosed:
                        self.rclosed.add(m[2])
                        p.call(p.conn.raw_send, 97, UInt32(self.snum[m[2]]))
            return err
        elif k == 'done':
            _, sc, i, ok = lbl
            f = self.gates.get(i)
            if f is None or f.done():
                return f'the model finishes the handler of request {i} ' \
                       f'but no such handler is running'
            self.outcome[i] = ok
            p.call(f.set_result, ok)
        elif k == 'close':
            _, side, ch = lbl
            if side == 's':
                self._api(self.schan[ch].close)
            elif self.setup == 'api':
                self._api(self.cchan[ch].close)
            else:
                self.rclosed.add(ch)
                p.call(p.conn.raw_send, 97, UInt32(self.snum[ch]))
        elif k == 'cut':
            self.cut()
        elif k == 'unsol':
            sc = lbl[1]
            fail = self.deco.d.get('unsol_fail')
            self.unsol_sent = True
            if sc == 'g':
                p.call(p.conn.raw_send, 82 if fail else 81, b'')
            else:
                p.call(p.conn.raw_send, 100 if fail else 99,
                       UInt32(self.snum[sc]))
        else:
            raise ValueError(lbl)
        return None

    def cut(self):
        p = self.pair
        self.cut_done = True

        def cut():
            p.ct.cut()
            p.st.cut()
        p.queue['c'].clear()
        p.queue['s'].clear()
        p.call(cut)

    # ---- projection (L2) ----
    def observe(self):
        p = self.pair
        obs = {}
        slost = 's' in p.lost
        clost = 'c' in p.lost
        obs['lost'] = slost or (clost and self.setup == 'api')
        if self.setup == 'api':
            obs['w'] = {sc: len(p.conn._global_request_waiters) if sc == 'g'
                        else len(self.cchan[sc]._request_waiters)
                        for sc in self.scopes}
            obs['c'] = {i: self.caller_state(i) for i in self.reqs}
        obs['q'] = {sc: len(p.sconn._global_request_queue) if sc == 'g'
                    else len(self.schan[sc]._request_queue)
                    for sc in self.scopes}
        obs['run'] = sorted(i for i, f in self.gates.items() if not f.done())
        obs['c2s'] = [g[:2] for g in map(lambda x: self._classify('c', x),
                                         p.queue['c']) if g is not None]
        obs['s2c'] = [g for g in map(lambda x: self._classify('s', x),
                                     p.queue['s']) if g is not None]
        obs['served'] = {sc: list(self.starts[sc]) for sc in self.scopes}
        return obs

    def compare(self, proj, gone_s):
        """differences between the implementation and the model's
        projection; gone_s = scopes the model holds to be gone on s"""
        got = self.observe()
        out = []
        want_lost = bool(proj['lost'])
        if got['lost'] != want_lost:
            out.append(f'connection lost: code={got["lost"]} '
                       f'model={want_lost}')
            return out
        if self.setup == 'api':
            for sc in self.scopes:
                if got['w'][sc] != proj['w'][sc]:
                    out.append(f'waiters[{sc}]: code={got["w"][sc]} '
                               f'model={proj["w"][sc]}')
            mc = proj['c']
            for i in sorted(self.reqs):
                st = mc[i - 1]
                if got['c'][i] != st:
                    out.append(f'caller {i}: code={got["c"][i]} model={st}')
        for sc in self.scopes:
            if sc in gone_s or want_lost:
                continue
            if got['q'][sc] != proj['q'][sc]:
                out.append(f'queue[{sc}]: code={got["q"][sc]} '
                           f'model={proj["q"][sc]}')
        mrun = sorted(proj['run']['$set'])
        if got['run'] != mrun:
            out.append(f'running handlers: code={got["run"]} model={mrun}')
        if not want_lost:
            m_c2s = [tuple(m[:2]) for m in proj['c2s']]
            m_s2c = [(m[0], m[1], m[3] if m[0] == 'REP' else None)
                     for m in proj['s2c']]
            if [tuple(g) for g in got['c2s']] != m_c2s:
                out.append(f'in flight c->s: code={got["c2s"]} model={m_c2s}')
            if [tuple(g) for g in got['s2c']] != m_s2c:
                out.append(f'in flight s->c: code={got["s2c"]} model={m_s2c}')
        for sc in self.scopes:
            ms = [i for i in proj['served'][sc]
                  if self.reqs[i]['name'] in OBSERVABLE]
            if got['served'][sc] != ms:
                out.append(f'handlers started in {sc}: '
                           f'code={got["served"][sc]} model={ms}')
        return out

    # ---- monitors (L1) ----
    def after_step(self, lbl, merged=()):
        """monitors evaluated after every step"""
        self._scan_wire()
        kinds = [m[0] for m in (lbl,) + tuple(merged)]
        if self.setup == 'api':
            for i in sorted(self.reqs):
                if i in self.resolved or not self.reqs[i]['want']:
                    continue
                st = self.caller_state(i)
                if st in ('wait', 'none'):
                    continue
                self.resolved[i] = st
                if st == 'cancel':
                    continue
                self._judge_caller(i, st, kinds)
        for c in self.pair.loop.exceptions:
            self.l1.append(('NoBlowUp', 'an exception reached the event '
                            f'loop: {c.get("exception") or c.get("message")}'))
        self.pair.loop.exceptions.clear()
        self._judge_lost()

    def _judge_caller(self, i, st, kinds):
        r = self.reqs[i]
        by_reply = 'reply' in kinds and 'dclose' not in kinds
        if st == 'ok':
            if i not in self.outcome:
                self.l1.append(('MatchOwn',
                                f'the caller of request {i} ({r["name"]}) '
                                f'was told SUCCESS before the handler of its '
                                f'request had decided anything'))
            elif self.outcome[i] is not True:
                self.l1.append(('MatchOwn',
                                f'the caller of request {i} ({r["name"]}) '
                                f'was told SUCCESS but the handler of its '
                                f'request decided FAILURE'))
            t = self.tasks[i]
            res = t.result()
            if isinstance(res, asyncssh.SSHListener) and \
                    r['name'].startswith('fwd0') and \
                    res.get_port() != 20000 + i:
                self.l1.append(('MatchOwn',
                                f'the caller of request {i} was given the '
                                f'dynamic port {res.get_port()}, the handler '
                                f'of its request allocated {20000 + i}'))
        elif by_reply:
            if i not in self.outcome:
                self.l1.append(('MatchOwn',
                                f'the caller of request {i} ({r["name"]}) '
                                f'was told FAILURE by a reply before the '
                                f'handler of its request had decided'))
            elif self.outcome[i] is not False:
                self.l1.append(('MatchOwn',
                                f'the caller of request {i} ({r["name"]}) '
                                f'was told FAILURE by a reply but the '
                                f'handler of its request decided SUCCESS'))

    def _judge_lost(self):
        p = self.pair
        judged = self.__dict__.setdefault('_judged', set())
        expected = self.cut_done or self.unsol_delivered
        for side, exc in list(p.lost.items()):
            if side in judged:
                continue
            first = not judged
            judged.add(side)
            internal = exc is not None and not isinstance(
                exc, (asyncssh.Error, OSError))
            if internal:
                self.l1.append(('NoBlowUp',
                                f'the connection of side {side} ended with '
                                f'an internal error: {exc!r}'))
            elif not expected and first:
                self.l1.append(('NoProtocolError',
                                f'the connection of side {side} ended '
                                f'({exc!r}) although nothing was cut and no '
                                f'endpoint broke the protocol'))
            if side == 's' and self.unsol_delivered and not self.cut_done \
                    and not isinstance(exc, asyncssh.ProtocolError):
                self.l1.append(('UnsolicitedFatal',
                                f'a reply nobody waited for ended the '
                                f'connection with {exc!r}, not with a '
                                f'protocol error'))

    def final(self):
        """end game: deliver what is in flight, finish the handlers still
        running, lose the transport, and look at what is left"""
        p = self.pair
        for r in self.reqs.values():
            if r['sent']:
                r['delivered'] = True
        if self.unsol_sent and not p.lost:
            self.unsol_delivered = True
        for _ in range(50):
            moved = False
            for side in 'cs':
                total, got = self._take(side, 10 ** 6)
                if total and not p.lost:
                    dst = p.st if side == 'c' else p.ct
                    p.loop.run_callback(dst.deliver, total)
                    moved = True
            for i, f in list(self.gates.items()):
                if not f.done():
                    self.outcome[i] = True
                    p.call(f.set_result, True)
                    moved = True
            p.loop.run_until_idle()
            self.after_step(('final',))
            if not moved:
                break
        if self.unsol_delivered and 's' not in p.lost:
            self.l1.append(('UnsolicitedFatal',
                            'a reply nobody waited for was accepted: the '
                            'connection is still up'))
        if self.setup == 'api' and not p.lost:
            for i, r in self.reqs.items():
                if r['want'] and self.caller_state(i) == 'wait':
                    self.l1.append(('AllAnswered',
                                    f'the caller of request {i} '
                                    f'({r["name"]}, scope {r["sc"]}) still '
                                    f'waits although nothing is in flight '
                                    f'and no handler is running'))
        if not p.lost:
            for sc in self.scopes:
                wanted = [i for i in self.order[sc] if self.reqs[i]['want']]
                if sc in self.sclosed:
                    continue
                if len(self.replies[sc]) != len(wanted):
                    self.l1.append(('OneReplyEach',
                                    f'scope {sc}: {len(self.replies[sc])} '
                                    f'replies for {len(wanted)} requests '
                                    f'that asked for one: {self._desc(sc)}'))
        if not self.cut_done:
            self.cut()
        p.loop.run_until_idle()
        self.after_step(('final',))
        if self.setup == 'api':
            for i, r in self.reqs.items():
                if r['want'] and self.caller_state(i) == 'wait':
                    self.l1.append(('WaitersResolve',
                                    f'the caller of request {i} '
                                    f'({r["name"]}, scope {r["sc"]}) still '
                                    f'waits after the connection is gone'))
        for lst in self.late_listeners:
            if not lst.closed:
                self.l1.append(('NoLateEffect',
                                f'the listener handed over for request '
                                f'{lst.i} after the connection was lost is '
                                f'still open when everything has ended'))


class RawPair(Pair):
    """Pair whose client end is the raw peer"""

    def start(self):
        from asyncssh import _verif
        _verif.set_sink(self._sink)
        skw = dict(server_factory=self.server_cls,
                   server_host_keys=[hostkey()])
        skw.update(self.server_kw)

        async def go():
            self.acceptor = await asyncssh.listen('127.0.0.1', 2222, **skw)
            self.conn = await rawpeer.raw_connect('127.0.0.1', 2222)

        self.loop.run_until_complete(go())
        self.loop.run_until_idle()
        self.loop.run_callback(self.conn.raw_send, 50,
                               rawpeer.userauth_request('u', 'none'))
        self.conn.take()
        owner = self.conn.get_owner()
        pair = self

        def lost(exc, _orig=owner.connection_lost):
            pair.lost['c'] = exc
            pair.lost_n['c'] += 1
            _orig(exc)
        owner.connection_lost = lost
        ts = self.loop.net.all_transports
        self.ct = [t for t in ts if t.name == 'c'][0]
        self.st = [t for t in ts if t.name == 's'][0]
        return self


# ---------------------------------------------------------------------------
def chans_of(script):
    chans, with_g = [], False
    for lbl, proj in script:
        for sc in proj['w']:
            if sc == 'g':
                with_g = True
            elif sc not in chans:
                chans.append(sc)
        break
    return sorted(chans), with_g


def replay(setup, script, deco, compare=True):
    """script: [(label, projection)] as logged by the model.  Returns
    dict(violations=[(clause, text)], divergences=[...], defects=set(...),
    steps=n)."""
    chans, with_g = chans_of(script)
    w = World(setup, chans, with_g, deco)
    res = {'violations': [], 'divergences': [], 'defects': set(), 'steps': 0}
    try:
        w.start()
        batch = deco.d.get('batch') or []
        gone_s = set()
        i, n = 0, len(script)
        while i < n:
            lbl, proj = script[i]
            merged = []
            j = i + 1
            # several deliveries in one direction as ONE data_received call
            def dirn(l):
                if l[0] in ('dreq', 'dunsol'):
                    return 'c'
                if l[0] == 'dclose':
                    return 'c' if l[1] == 's' else 's'
                if l[0] == 'reply':
                    return 's'
                return None
            d0 = dirn(lbl)

            def scope(l):
                return l[2] if l[0] == 'dclose' else l[1]
            # (only within one scope: the handlers of global requests run
            # as tasks, so across scopes one read is not the same as several;
            # a reply nobody asked for ends everything at once: alone)
            while d0 and j < n and dirn(script[j][0]) == d0 and \
                    j < len(batch) and batch[j] and \
                    lbl[0] != 'dunsol' and script[j][0][0] != 'dunsol' and \
                    scope(script[j][0]) == scope(lbl) and \
                    not (script[j - 1][1]['lost']):
                merged.append(script[j][0])
                j += 1
            last_proj = script[j - 1][1]
            # the rule of the pinned tree differs where a channel goes away
            # while a handler runs with requests queued behind it
            for t in range(i, j):
                m = script[t][0]
                if m[0] == 'dclose' and m[1] == 's':
                    ch = m[2]
                    before = script[t - 1][1]['q'][ch] if t else 0
                    if before >= 2:
                        res['defects'].add('queue_served_after_channel_close')
                    gone_s.add(ch)
            err = w.do(lbl, merged)
            res['steps'] += 1 + len(merged)
            w.after_step(lbl, merged)
            if err:
                res['divergences'].append(f'step {i} {lbl}: {err}')
                break
            if compare:
                diffs = w.compare(last_proj, gone_s)
                if diffs:
                    res['divergences'].append(
                        f'step {i} {[lbl] + merged}: ' + '; '.join(diffs))
                    break
            i = j
        w.final()
        if w.late_listeners:
            res['defects'].add('listener_kept_after_connection_lost')
        seen = set()
        for clause, text in w.l1:
            if (clause, text) not in seen:
                seen.add((clause, text))
                res['violations'].append((clause, text))
    finally:
        w.stop()
    return res


# ---------------------------------------------------------------------------
# fixed schedule without any gate: the real agent-forwarding handler
# ---------------------------------------------------------------------------
def agent_close_case(queued, want, close_in_same_read, started):
    """The ordinary opening of a session with agent forwarding -
    auth-agent-req@openssh.com (no reply wanted) directly followed by another
    request - and the peer closing the channel at once.  The real
    create_agent_listener() runs; the loop's create_unix_server() yields once
    before it returns, as the one of asyncio's selector loop does (it awaits
    sleep(0)), so that the handler finishes one iteration later.  Returns
    the violations (the connection must survive and go on answering)."""
    import tempfile
    from harness import tlc
    from harness.vloop import new_loop, close_loop
    loop = new_loop()
    orig = loop.create_unix_server

    async def create_unix_server(*a, **kw):
        await asyncio.sleep(0)
        return await orig(*a, **kw)
    loop.create_unix_server = create_unix_server
    lost, seen, bad = [], [], []
    old_tmp = tempfile.tempdir
    tempfile.tempdir = tlc.WORK

    class SSess(asyncssh.SSHServerSession):
        def shell_requested(self):
            return True

        def exec_requested(self, command):
            seen.append('exec')
            return True

        def pty_requested(self, *a):
            seen.append('pty')
            return True

        def signal_received(self, signal):
            seen.append('signal')

        def terminal_size_changed(self, *a):
            seen.append('winch')

        def break_received(self, msec):
            seen.append('break')
            return True

        def connection_lost(self, exc):
            seen.append('lost')

    class Srv(asyncssh.SSHServer):
        def connection_lost(self, exc):
            lost.append(exc)

        def begin_auth(self, username):
            return False

        def session_requested(self):
            return SSess()

    res = {}
    try:
        async def go():
            res['acc'] = await asyncssh.listen(
                '127.0.0.1', 2222, server_factory=Srv,
                server_host_keys=[hostkey()], encoding=None,
                line_editor=False, agent_forwarding=True)
            res['raw'] = await rawpeer.raw_connect('127.0.0.1', 2222)
        loop.run_until_complete(go())
        raw = res['raw']
        loop.run_until_idle()
        loop.run_callback(raw.raw_send, 50,
                          rawpeer.userauth_request('u', 'none'))
        loop.run_callback(raw.raw_send, 90, rawpeer.session_open(chan=7))
        conf = [pl for t, pl in raw.take() if t == 91]
        ch = int.from_bytes(conf[0][5:9], 'big')
        if started:
            loop.run_callback(raw.raw_send, 98, UInt32(ch) + String(b'shell')
                              + Boolean(True))
            raw.take()
        rtype, payload = {
            'signal': (b'signal', String('INT')),
            'winch': (b'window-change', UInt32(80) + UInt32(24) + UInt32(0) +
                      UInt32(0)),
            'break': (b'break', UInt32(100)),
            'pty': (b'pty-req', String('xterm') + UInt32(80) + UInt32(24) +
                    UInt32(0) + UInt32(0) + String(b'\x00')),
            'exec': (b'exec', String('cmd')),
            'env': (b'env', String('A') + String('b')),
        }[queued]

        def burst():
            raw.raw_send(98, UInt32(ch) +
                         String(b'auth-agent-req@openssh.com') +
                         Boolean(False))
            raw.raw_send(98, UInt32(ch) + String(rtype) + Boolean(want) +
                         payload)
            if close_in_same_read:
                raw.raw_send(97, UInt32(ch))
        loop.run_callback(burst)
        if not close_in_same_read:
            loop.run_callback(raw.raw_send, 97, UInt32(ch))
        got = raw.take()
        # a second channel and a global request: the connection lives on
        loop.run_callback(raw.raw_send, 80, String(b'keepalive@openssh.com')
                          + Boolean(True))
        alive = any(t in (81, 82) for t, _ in raw.take())
        for exc in lost:
            if exc is not None and not isinstance(
                    exc, (asyncssh.Error, OSError)):
                bad.append(('NoBlowUp', f'the server connection ended with '
                            f'an internal error: {exc!r}'))
        if not lost and not alive:
            bad.append(('NoProtocolError', 'the server no longer answers'))
        if lost and not bad:
            bad.append(('NoProtocolError', f'the server dropped the '
                        f'connection: {lost[0]!r}'))
        if 'lost' in seen and seen[-1] != 'lost':
            bad.append(('NoServiceAfterGone', f'session callbacks after '
                        f'connection_lost: {seen}'))
        nrep = sum(1 for t, _ in got if t in (99, 100))
        if nrep > (1 if want else 0):
            bad.append(('OneReplyEach', f'{nrep} channel replies for '
                        f'{1 if want else 0} requests that asked for one'))
        for c in loop.exceptions:
            bad.append(('NoBlowUp', 'an exception reached the event loop: '
                        f'{c.get("exception") or c.get("message")}'))
    finally:
        tempfile.tempdir = old_tmp
        try:
            res['raw'].abort()
            res['acc'].close()
            loop.run_until_idle()
        except BaseException:           # pylint: disable=broad-except
            pass
        close_loop(loop)
    return bad, seen
