"""C05 converse clause, client side: materialise one AuthClient.tla
configuration (client options + credentials, server behaviour) and run a REAL
asyncssh client (`asyncssh.connect` on the deterministic loop) against

  'real'  a real asyncssh server (authorized_keys / CA line / callbacks
          implementing the acceptance table; a logging subclass of
          SSHServerConnection only records the packets), or
  'raw'   a scripted raw server (harness/rawpeer.py) for what a real asyncssh
          server cannot do: method lists in any order, lists that change,
          partial success, PK_OK then failure of the signed request, PK_OK
          naming another key, no server-sig-algs, key-type-name pickiness.

Observed: the exact dialogue as the server saw it - every USERAUTH_REQUEST
(method, which credential = key/certificate blob identity, algorithm name,
signature present / signature algorithm / signature verifies), every
INFO_RESPONSE and every reply - and the outcome of connect() (connected as
user / PermissionDenied / other exception / hang / runaway).
"""

import asyncio
import os

import asyncssh
from asyncssh import connection as _c
from asyncssh.misc import PasswordChangeRequired
from asyncssh.packet import (Boolean, Byte, NameList, String, UInt32,
                             SSHPacket)
from asyncssh.public_key import (SSHLocalKeyPair, decode_ssh_public_key,
                                 decode_ssh_certificate)

from harness import rawpeer
from harness.vloop import new_loop, close_loop, Deadlock, Spin

USER = 'alice'
PW = {'right': 'pw-right', 'wrong': 'pw-wrong'}
APP = {'right': 'otp-right', 'wrong': 'otp-wrong'}
ALGS = {'ed': 'ssh-ed25519', 'ec': 'ecdsa-sha2-nistp256', 'rsa': 'ssh-rsa'}
REQ_CAP = 60                # more requests than any model dialogue: runaway

PROMPTS = {
    'empty': [],
    'pw': [('Password:', False)],
    'otp': [('Verification code:', False)],
    'two': [('Password:', False), ('Verification code:', False)],
}

ADV = {     # server-sig-algs variants (None: no EXT_INFO at all)
    'none': None,
    'all': ['rsa-sha2-256', 'rsa-sha2-512', 'ssh-rsa', 'ssh-ed25519',
            'ecdsa-sha2-nistp256'],
    '512': ['rsa-sha2-512', 'ssh-ed25519', 'ecdsa-sha2-nistp256'],
    'sha1': ['ssh-rsa', 'ssh-ed25519', 'ecdsa-sha2-nistp256'],
    'norsa': ['ssh-ed25519', 'ecdsa-sha2-nistp256'],
}


def _set(v):
    return v['$set'] if isinstance(v, dict) and '$set' in v else list(v)


# ---------------------------------------------------------------------------
# real key material, generated once per process
# ---------------------------------------------------------------------------

class Pool:
    def __init__(self):
        self.host = asyncssh.generate_private_key('ssh-ed25519')
        self.ca_ok = asyncssh.generate_private_key('ssh-ed25519')
        self.ca_bad = asyncssh.generate_private_key('ssh-ed25519')
        self._keys = {}
        self._certs = {}
        self.blobs = {}         # public blob -> (slot, form)

    def key(self, slot, alg):
        k = self._keys.get((slot, alg))
        if k is None:
            if alg == 'rsa':
                k = asyncssh.generate_private_key('ssh-rsa', key_size=2048)
            else:
                k = asyncssh.generate_private_key(ALGS[alg])
            self._keys[slot, alg] = k
            self.blobs[k.public_data] = (slot, 'plain')
        return k

    def cert(self, slot, alg, ok):
        c = self._certs.get((slot, alg, ok))
        if c is None:
            ca = self.ca_ok if ok else self.ca_bad
            c = ca.generate_user_certificate(self.key(slot, alg),
                                             f'id-{slot}', principals=[USER])
            self._certs[slot, alg, ok] = c
            self.blobs[c.public_data] = (slot, 'cert')
        return c

    def warm(self):
        """Generate everything AuthClient.tla can name (before worker
        processes are forked, so that they all share the same keys)."""
        for slot in ('a1', 'a2', 'a3', 'l1', 'l2', 'l3', 'zz'):
            self.key(slot, 'ed')
        self.key('l2', 'ec')
        for slot in ('a1', 'l1'):
            self.key(slot, 'rsa')
        for (slot, alg) in list(self._keys):
            for ok in (True, False):
                self.cert(slot, alg, ok)
        return self

    def public_key(self, blob):
        """SSHKey able to verify a signature for a key or certificate blob"""
        slot, form = self.blobs[blob]
        if form == 'cert':
            return decode_ssh_certificate(blob).key
        return decode_ssh_public_key(blob)


_pool = None


def pool():
    global _pool
    if _pool is None:
        _pool = Pool()
    return _pool


# ---------------------------------------------------------------------------
# ssh-agent holding plain keys and certificates; may refuse to sign
# ---------------------------------------------------------------------------

class Agent(asyncio.Protocol):
    """identities: list of (blob, key, can_sign)"""

    def __init__(self, identities):
        self._ids = identities
        self._buf = b''
        self.signs = 0
        self.refused = 0

    def connection_made(self, transport):
        self._t = transport

    def data_received(self, data):
        self._buf += data
        while len(self._buf) >= 4:
            n = int.from_bytes(self._buf[:4], 'big')
            if len(self._buf) < 4 + n:
                return
            msg, self._buf = self._buf[4:4 + n], self._buf[4 + n:]
            self._handle(msg)

    def _send(self, payload):
        self._t.write(UInt32(len(payload)) + payload)

    def _handle(self, msg):
        p = SSHPacket(msg)
        t = p.get_byte()
        if t == 11:                     # REQUEST_IDENTITIES
            body = UInt32(len(self._ids))
            for blob, _, _ in self._ids:
                body += String(blob) + String(b'agent id')
            self._send(Byte(12) + body)
        elif t == 13:                   # SIGN_REQUEST
            blob = p.get_string()
            data = p.get_string()
            flags = p.get_uint32()
            for idblob, k, can_sign in self._ids:
                # the identity is named by the blob it was listed with
                # (the certificate for a certificate identity)
                if idblob == blob:
                    if not can_sign:
                        self.refused += 1
                        break
                    alg = k.sig_algorithms[0]
                    if k.algorithm == b'ssh-rsa':
                        alg = (b'rsa-sha2-512' if flags & 4 else
                               b'rsa-sha2-256' if flags & 2 else b'ssh-rsa')
                    self.signs += 1
                    self._send(Byte(14) + String(k.sign(data, alg)))
                    return
            self._send(Byte(5))
        else:
            self._send(Byte(5))


# ---------------------------------------------------------------------------
# configuration -> concrete world
# ---------------------------------------------------------------------------

def agent_keypairs(cfg):
    return list(cfg['agent']) if cfg['hasAgent'] else []


def expand_local(cfg):
    """the key pairs load_keypairs makes of client_keys, as the model's
    Expand does (certificate first, then the plain key)"""
    out = []
    for it in cfg['local']:
        if it['cert'] != '-':
            out.append(dict(slot=it['slot'], alg=it['alg'], form='cert',
                            ok=it['cert'] == 'ok', sign=it['sign']))
        out.append(dict(slot=it['slot'], alg=it['alg'], form='plain',
                        ok=it['ok'], sign=it['sign']))
    return out


def client_kwargs(cfg):
    P = pool()
    kw = dict(known_hosts=None, config=None, username=USER, login_timeout=0)
    if cfg['local'] or cfg['hasAgent']:
        ck = []
        for it in cfg['local']:
            k = P.key(it['slot'], it['alg'])
            if it['cert'] != '-':
                ck.append((k, P.cert(it['slot'], it['alg'],
                                     it['cert'] == 'ok')))
            else:
                ck.append(k)
        kw['client_keys'] = ck
        kw['agent_path'] = '/agent.sock' if cfg['hasAgent'] else None
    else:
        kw['client_keys'] = None
    if not cfg['prefDefault']:
        kw['preferred_auth'] = list(cfg['pref'])
    if cfg['pw'] != 'none':
        kw['password'] = PW[cfg['pw']]
    fl = cfg['flags']
    if not fl['pk']:
        kw['public_key_auth'] = False
    if not fl['kbd']:
        kw['kbdint_auth'] = False
    if not fl['pw']:
        kw['password_auth'] = False
    return kw


def agent_identities(cfg):
    P = pool()
    ids = []
    for kp in agent_keypairs(cfg):
        k = P.key(kp['slot'], kp['alg'])
        blob = (P.cert(kp['slot'], kp['alg'], kp['ok']).public_data
                if kp['form'] == 'cert' else k.public_data)
        ids.append((blob, k, kp['sign'] != 'agentrefuses'))
    return ids


def make_client_factory(cfg, log):
    """The application: a keyboard-interactive responder which offers itself
    once (kbdint_auth_requested returns '' the first time, None afterwards)
    and answers every prompt with its token."""
    app = cfg['app']

    class Cli(asyncssh.SSHClient):
        def __init__(self):
            self._kbd_offered = False

        def auth_completed(self):
            log.append('auth_completed')

        def connection_lost(self, exc):
            log.append(('lost', type(exc).__name__ if exc else None))

        if app != 'none':
            def kbdint_auth_requested(self):
                if self._kbd_offered:
                    return None
                self._kbd_offered = True
                return ''

            def kbdint_challenge_received(self, name, instructions, lang,
                                          prompts):
                return [APP[app]] * len(prompts)

    return Cli


# ---------------------------------------------------------------------------
# packet -> dialogue event
# ---------------------------------------------------------------------------

class Recorder:
    """Turns the packets a server sees / sends into the event tuples of the
    specification's `dlg` variable."""

    def __init__(self):
        self.events = []
        self.requests = 0
        self.method = None
        self.session_id = None
        self.problems = []

    def _blob(self, blob):
        return pool().blobs.get(blob, ('?', '?'))

    def request(self, payload):
        """payload: full USERAUTH_REQUEST incl. type byte"""
        self.requests += 1
        p = SSHPacket(payload)
        p.get_byte()
        user = p.get_string()
        service = p.get_string()
        method = p.get_string().decode()
        self.method = method
        if user != USER.encode() or service != b'ssh-connection':
            self.problems.append(f'request names {user!r} {service!r}')
        ev = None
        if method == 'none':
            ev = ['none']
        elif method == 'publickey':
            signed = p.get_boolean()
            alg = p.get_string()
            blob = p.get_string()
            slot, form = self._blob(blob)
            if not signed:
                ev = ['pkq', slot, form, alg.decode()]
            else:
                msg = p.get_consumed_payload()
                sig = p.get_string()
                sp = SSHPacket(sig)
                sigalg = sp.get_string().decode()
                good = False
                try:
                    good = bool(pool().public_key(blob).verify(
                        String(self.session_id) + msg, sig))
                except Exception as exc:    # pylint: disable=broad-except
                    self.problems.append(f'verify: {exc!r}')
                ev = ['pks', slot, form, alg.decode(), sigalg, good]
            ev_blob = blob
            self.last_pk = (alg, ev_blob)
        elif method == 'password':
            change = p.get_boolean()
            pw = p.get_string().decode()
            tok = {v: k for k, v in PW.items()}.get(pw, '?' + pw)
            ev = ['pw', tok] if not change else ['pwchange', tok]
        elif method == 'keyboard-interactive':
            p.get_string()
            sub = p.get_string()
            ev = ['kbd'] if not sub else ['kbd', sub.decode()]
        else:
            ev = ['other', method]
        self.events.append(ev)
        return ev

    def info_response(self, payload):
        p = SSHPacket(payload)
        p.get_byte()
        n = p.get_uint32()
        toks = []
        rev = {v: k for k, v in PW.items()}
        rev.update({v: 'app-' + k for k, v in APP.items()})
        for _ in range(n):
            s = p.get_string().decode()
            toks.append(rev.get(s, '?' + s))
        ev = ['resp', toks]
        self.events.append(ev)
        return ev

    def reply(self, pkttype, body):
        """body without type byte"""
        p = SSHPacket(body)
        if pkttype == 51:
            names = [n.decode() for n in p.get_namelist()]
            self.events.append(['F', names, p.get_boolean()])
        elif pkttype == 52:
            self.events.append(['S'])
        elif pkttype == 60:
            if self.method == 'publickey':
                alg = p.get_string()
                blob = p.get_string()
                same = (alg, blob) == getattr(self, 'last_pk', None)
                self.events.append(['PKOK'] if same else ['PKOK', 'other'])
            elif self.method == 'keyboard-interactive':
                p.get_string(), p.get_string(), p.get_string()
                n = p.get_uint32()
                prompts = []
                for _ in range(n):
                    prompts.append((p.get_string().decode(), p.get_boolean()))
                kind = [k for k, v in PROMPTS.items()
                        if [q for q, _ in v] == [q for q, _ in prompts]]
                self.events.append(['INFO', kind[0] if kind else '?'])
            elif self.method == 'password':
                self.events.append(['CHG'])
            else:
                self.events.append(['60?'])


# ---------------------------------------------------------------------------
# backend 1: real asyncssh server (only the packets are logged)
# ---------------------------------------------------------------------------

class LoggingServerConnection(_c.SSHServerConnection):
    """A real server connection; the only additions record packets."""
    rec = None
    runaway = False

    # packets >= 60 are handed to the running auth handler, not to the
    # connection: record INFO_RESPONSE where that handler receives it
    @property
    def _auth(self):
        return self.__dict__.get('_auth_obj')

    @_auth.setter
    def _auth(self, handler):
        if handler is not None and self.rec is not None and \
                not getattr(handler, '_c05c_logged', False):
            orig = handler.process_packet
            rec = self.rec

            def process_packet(pkttype, pktid, packet):
                if pkttype == 61:
                    rec.info_response(packet.get_full_payload())
                return orig(pkttype, pktid, packet)

            handler.process_packet = process_packet
            handler._c05c_logged = True
        self.__dict__['_auth_obj'] = handler

    def process_packet(self, pkttype, pktid, packet):
        if self.rec is not None and pkttype == 50:
            self.rec.session_id = self._session_id
            self.rec.request(packet.get_full_payload())
            if self.rec.requests > REQ_CAP:
                self.runaway = True
                self.abort()
                return True
        return super().process_packet(pkttype, pktid, packet)

    def send_packet(self, pkttype, *args, **kw):
        if self.rec is not None and not self._auth_complete and \
                pkttype in (51, 52, 60):
            self.rec.reply(pkttype, b''.join(args))
        return super().send_packet(pkttype, *args, **kw)


def real_expressible(cfg):
    """Can a real asyncssh server behave like cfg.srv?"""
    s = cfg['srv']
    canon = [m for m in ('publickey', 'keyboard-interactive', 'password')
             if m in s['list0']]
    if list(s['list0']) != canon or not canon:
        return False
    if s['change'] or _set(s['required']) or s['noneOk'] or s['pkokWrong']:
        return False
    if s['adv'] == 'none' or s['certName'] != 'both':
        return False
    for kp in agent_keypairs(cfg) + expand_local(cfg):
        if kp['sign'] == 'srvrejects':
            return False
    return True


def _authorized_keys(cfg):
    P = pool()
    lines = []
    for kp in agent_keypairs(cfg) + expand_local(cfg):
        if kp['form'] == 'plain' and kp['ok']:
            lines.append(P.key(kp['slot'], kp['alg'])
                         .export_public_key('openssh').decode())
    lines.append('cert-authority ' +
                 P.ca_ok.export_public_key('openssh').decode())
    return asyncssh.import_authorized_keys(''.join(
        l if l.endswith('\n') else l + '\n' for l in lines))


def _real_server_factory(cfg, result):
    s = cfg['srv']
    rounds = list(s['kbdRounds'])

    class Server(asyncssh.SSHServer):
        def connection_made(self, conn):
            result['sconn'] = conn
            self._round = 0
            self._good = True

        def begin_auth(self, username):
            return True

        def public_key_auth_supported(self):
            return False        # authorized_client_keys decides

        def password_auth_supported(self):
            return 'password' in s['list0']

        def validate_password(self, username, password):
            if s['pwReply'] == 'changereq':
                raise PasswordChangeRequired('change it')
            return password == PW['right']

        def kbdint_auth_supported(self):
            return 'keyboard-interactive' in s['list0']

        def _challenge(self):
            return ('', '', '', PROMPTS[rounds[self._round]])

        def get_kbdint_challenge(self, username, lang, submethods):
            self._round = 0
            self._good = True
            return self._challenge()

        def validate_kbdint_response(self, username, responses):
            want = PROMPTS[rounds[self._round]]
            good = len(responses) == len(want)
            for r in responses:
                if r == APP['right']:
                    pass
                elif r == PW['right'] and s['kbdSecret'] == 'same':
                    pass
                else:
                    good = False
            self._good = self._good and good
            self._round += 1
            if self._round < len(rounds):
                return self._challenge()
            return self._good

        def auth_completed(self):
            result['granted'] = result['sconn'].get_extra_info('username')

    return Server


async def _listen_real(cfg, result, rec):
    P = pool()
    loop = asyncio.get_event_loop()
    kw = dict(server_factory=_real_server_factory(cfg, result),
              server_host_keys=[P.host], login_timeout=0)
    if 'publickey' in cfg['srv']['list0']:
        kw['authorized_client_keys'] = _authorized_keys(cfg)
    adv = ADV[cfg['srv']['adv']]
    if cfg['srv']['adv'] != 'all':
        kw['signature_algs'] = adv
    options = await _c.SSHServerConnectionOptions.construct(
        None, config=None, host='127.0.0.1', port=2222, **kw)

    def factory():
        conn = LoggingServerConnection(loop, options, wait=None)
        conn.rec = rec
        result['lconn'] = conn
        return conn

    return await _c._listen(options, None, loop, 0, 100, None, None, None,
                            factory, 'Creating logging SSH listener on')


# ---------------------------------------------------------------------------
# backend 2: scripted raw server = the specification's server function
# ---------------------------------------------------------------------------

class ScriptServer:
    def __init__(self, cfg, conn, rec, result):
        self.cfg = cfg
        self.s = cfg['srv']
        self.conn = conn
        self.rec = rec
        self.result = result
        self.nfail = 0
        self.sat = []
        self.kbd_round = None
        self.kbd_good = True
        self.kps = {(kp['slot'], kp['form']): kp
                    for kp in agent_keypairs(cfg) + expand_local(cfg)}
        conn.on_packet = self.on_packet

    # -- what the specification's ListNow / Reply say
    def list_now(self):
        s = self.s
        req = _set(s['required'])
        if self.sat:
            if s['afterPartial'] == 'all':
                return list(s['list0'])
            return [m for m in s['list0'] if m in req and m not in self.sat]
        if s['change'] and self.nfail >= s['change']:
            return list(s['list1'])
        return list(s['list0'])

    def send(self, t, body=b''):
        self.rec.reply(t, body)
        self.conn.raw_send(t, body)

    def fail(self, partial=False):
        if not partial:
            self.nfail += 1
        lst = self.list_now()
        self.send(51, NameList([m.encode() for m in lst]) + Boolean(partial))

    def succeeded(self, method):
        req = _set(self.s['required'])
        if not req or set(req) <= set(self.sat + [method]):
            self.result['granted'] = USER
            self.send(52)
        else:
            self.sat.append(method)
            self.fail(partial=True)

    def key_acceptable(self, slot, form, algname):
        kp = self.kps.get((slot, form))
        if kp is None or not kp['ok']:
            return False
        if kp['alg'] == 'rsa' and form == 'cert':
            legacy = algname == 'ssh-rsa-cert-v01@openssh.com'
            if self.s['certName'] == 'legacy' and not legacy:
                return False
            if self.s['certName'] == 'new' and legacy:
                return False
        return True

    def on_packet(self, t, payload):
        if t == 5:
            self.conn.raw_send(6, String(b'ssh-userauth'))
            return
        if t == 61:
            ev = self.rec.info_response(payload)
            self.kbd_answer(ev[1])
            return
        if t != 50:
            return
        self.rec.session_id = self.conn._session_id
        ev = self.rec.request(payload)
        if self.rec.requests > REQ_CAP:
            self.result['runaway'] = True
            self.conn.abort()
            return
        kind = ev[0]
        offered = self.list_now()
        if kind == 'none':
            if self.s['noneOk']:
                self.result['granted'] = USER
                self.send(52)
            else:
                self.fail()
        elif kind in ('pkq', 'pks'):
            slot, form, algname = ev[1], ev[2], ev[3]
            ok = 'publickey' in offered and \
                self.key_acceptable(slot, form, algname)
            if kind == 'pkq':
                if ok and self.s['pkokWrong']:
                    other = pool().key('zz', 'ed')
                    self.send(60, String(other.algorithm) +
                              String(other.public_data))
                elif ok:
                    alg, blob = self.rec.last_pk
                    self.send(60, String(alg) + String(blob))
                else:
                    self.fail()
            else:
                kp = self.kps.get((slot, form))
                adv = [a for a in (ADV[self.s['adv']] or [])
                       if 'rsa' in a]
                sig_ok = not (kp and kp['alg'] == 'rsa' and adv and
                              ev[4] not in adv)
                if ok and ev[5] and sig_ok and kp['sign'] != 'srvrejects':
                    self.succeeded('publickey')
                else:
                    self.fail()
        elif kind == 'pw':
            if 'password' not in offered:
                self.fail()
            elif self.s['pwReply'] == 'changereq':
                self.send(60, String('change it') + String(''))
            elif ev[1] == 'right':
                self.succeeded('password')
            else:
                self.fail()
        elif kind == 'kbd':
            if 'keyboard-interactive' not in offered:
                self.fail()
            else:
                self.kbd_round = 0
                self.kbd_good = True
                self.challenge()
        else:
            self.fail()

    def challenge(self):
        prompts = PROMPTS[self.s['kbdRounds'][self.kbd_round]]
        self.send(60, String('') + String('') + String('') +
                  UInt32(len(prompts)) +
                  b''.join(String(q) + Boolean(e) for q, e in prompts))

    def kbd_answer(self, toks):
        want = PROMPTS[self.s['kbdRounds'][self.kbd_round]]
        good = len(toks) == len(want)
        for tok in toks:
            if tok == 'app-right':
                pass
            elif tok == 'right' and self.s['kbdSecret'] == 'same':
                pass
            else:
                good = False
        self.kbd_good = self.kbd_good and good
        self.kbd_round += 1
        if self.kbd_round < len(self.s['kbdRounds']):
            self.challenge()
        elif self.kbd_good:
            self.succeeded('keyboard-interactive')
        else:
            self.fail()


async def _listen_raw(cfg, result, rec):
    P = pool()
    adv = ADV[cfg['srv']['adv']]

    def on_conn(conn):
        result['lconn'] = conn
        if adv is None:
            conn._send_ext_info = lambda: None
        ScriptServer(cfg, conn, rec, result)

    kw = dict(server_host_keys=[P.host], login_timeout=0)
    if adv is not None and cfg['srv']['adv'] != 'all':
        kw['signature_algs'] = adv
    return await rawpeer.raw_listen('127.0.0.1', 2222, on_conn, **kw)


# ---------------------------------------------------------------------------
# one case
# ---------------------------------------------------------------------------

def _neutral_home():
    """client_keys=[] (agent only) makes asyncssh look into ~/.ssh: make
    sure there is nothing to find (./check already points HOME there)"""
    if os.path.isdir(os.path.expanduser('~/.ssh')):
        home = os.path.join(os.path.dirname(os.path.dirname(os.path.dirname(
            os.path.abspath(__file__)))), '.work', 'home')
        os.makedirs(home, exist_ok=True)
        os.environ['HOME'] = home


def run_case(cfg, backend):
    """-> observation dict"""
    _neutral_home()
    loop = new_loop()
    loop.max_iterations = 60000         # a session needs a few hundred
    rec = Recorder()
    result = {}
    log = []
    agent_box = {}

    async def go():
        if cfg['hasAgent']:
            agent_box['a'] = []

            def mk():
                a = Agent(agent_identities(cfg))
                agent_box['a'].append(a)
                return a
            await loop.create_unix_server(mk, '/agent.sock')
        if backend == 'real':
            acc = await _listen_real(cfg, result, rec)
        else:
            acc = await _listen_raw(cfg, result, rec)
        result['acc'] = acc
        try:
            conn = await asyncssh.connect(
                '127.0.0.1', 2222,
                client_factory=make_client_factory(cfg, log),
                **client_kwargs(cfg))
        except asyncssh.PermissionDenied:
            return 'denied'
        except asyncssh.Error as exc:
            return f'error:{type(exc).__name__}'
        except Exception as exc:        # pylint: disable=broad-except
            return f'error!:{type(exc).__name__}:{exc}'
        result['client_user'] = conn.get_extra_info('username')
        conn.close()
        await conn.wait_closed()
        return 'success'

    try:
        out = loop.run_until_complete(go())
    except Deadlock:
        out = 'hung'
    except Spin:
        out = 'hung'                    # busy loop without progress
        loop.iterations = 0
        loop.max_iterations = 2000      # bounded clean-up
    try:
        if 'acc' in result:
            result['acc'].close()
        loop.run_until_idle()
    except (Exception, Spin):           # pylint: disable=broad-except
        pass
    lconn = result.get('lconn')
    if result.get('runaway') or getattr(lconn, 'runaway', False):
        out = 'runaway'
    exc = [str(c.get('exception') or c.get('message'))
           for c in loop.exceptions]
    close_loop(loop)
    agents = agent_box.get('a', [])
    return {'outcome': out, 'granted': result.get('granted'),
            'client_user': result.get('client_user'),
            'dialogue': rec.events, 'requests': rec.requests,
            'problems': rec.problems, 'loop_exceptions': exc,
            'client_log': log,
            'agent_signs': sum(a.signs for a in agents),
            'agent_refused': sum(a.refused for a in agents)}


def replay_task(task):
    """(cfg, [backend, ...]) -> [observation, ...]; runs in a worker process"""
    cfg, backends = task
    return [run_case(cfg, b) for b in backends]


# ---------------------------------------------------------------------------
# specification value -> comparable form
# ---------------------------------------------------------------------------

def describe(cfg):
    s = cfg['srv']
    keys = ' '.join(
        f'{kp["slot"]}:{kp["alg"]}/{kp["form"]}'
        f'{"+" if kp["ok"] else "-"}'
        f'{"" if kp["sign"] == "yes" else "!" + kp["sign"]}'
        for kp in agent_keypairs(cfg) + expand_local(cfg))
    pref = 'default' if cfg['prefDefault'] else ','.join(cfg['pref']) or '[]'
    extra = []
    if s['change']:
        extra.append(f'list1@{s["change"]}={",".join(s["list1"])}')
    if _set(s['required']):
        extra.append(f'required={sorted(_set(s["required"]))}/'
                     f'{s["afterPartial"]}')
    for k in ('noneOk', 'pkokWrong'):
        if s[k]:
            extra.append(k)
    if s['pwReply'] != 'normal':
        extra.append('pw:' + s['pwReply'])
    fl = ''.join(k for k in ('pk', 'kbd', 'pw') if not cfg['flags'][k])
    return (f'[{cfg["sec"]}] pref={pref} keys=({keys}) '
            f'agent={"y" if cfg["hasAgent"] else "n"} pw={cfg["pw"]} '
            f'app={cfg["app"]}{" off=" + fl if fl else ""} | '
            f'srv list0={",".join(s["list0"])} '
            f'kbd={"/".join(s["kbdRounds"])}:{s["kbdSecret"]} '
            f'adv={s["adv"]} cert={s["certName"]} {" ".join(extra)}')
