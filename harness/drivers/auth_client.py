"""ClientAdmitted (C05, last sentence): a real asyncssh client presenting a
valid credential - password, local key, certificate, agent-held key,
keyboard-interactive - is admitted by a real, correctly configured server;
and the same client with a wrong credential is not."""

import asyncio

import asyncssh
from asyncssh.packet import Byte, String, UInt32, SSHPacket

from harness.vloop import new_loop, close_loop, Deadlock
from harness.drivers.auth import keys


class MiniAgent(asyncio.Protocol):
    """Minimal ssh-agent (identities + sign) for the in-memory UNIX socket."""

    def __init__(self, agent_keys):
        self._keys = agent_keys
        self._buf = b''
        self.signs = 0

    def connection_made(self, transport):
        self._t = transport

    def data_received(self, data):
        self._buf += data
        while len(self._buf) >= 4:
            n = int.from_bytes(self._buf[:4], 'big')
            if len(self._buf) < 4 + n:
                return
            msg, self._buf = self._buf[4:4 + n], self._buf[4 + n:]
            self._handle(msg)

    def _send(self, payload):
        self._t.write(UInt32(len(payload)) + payload)

    def _handle(self, msg):
        p = SSHPacket(msg)
        t = p.get_byte()
        if t == 11:                     # REQUEST_IDENTITIES
            body = UInt32(len(self._keys))
            for k in self._keys:
                body += String(k.public_data) + String(b'agent key')
            self._send(Byte(12) + body)
        elif t == 13:                   # SIGN_REQUEST
            blob = p.get_string()
            data = p.get_string()
            flags = p.get_uint32()
            for k in self._keys:
                if k.public_data == blob:
                    alg = k.sig_algorithms[0]
                    if k.algorithm == b'ssh-rsa':
                        alg = (b'rsa-sha2-512' if flags & 4 else
                               b'rsa-sha2-256' if flags & 2 else b'ssh-rsa')
                    self.signs += 1
                    self._send(Byte(14) + String(k.sign(data, alg)))
                    return
            self._send(Byte(5))
        else:
            self._send(Byte(5))


def _run_case(server_kw, client_kw, user, agent_keys=None):
    loop = new_loop()
    result = {}

    class Server(asyncssh.SSHServer):
        def connection_made(self, conn):
            result['sconn'] = conn

        def begin_auth(self, username):
            return True

        def password_auth_supported(self):
            return 'password' in server_kw.get('_methods', ())

        def validate_password(self, username, password):
            return password == 'pw-' + username

        def kbdint_auth_supported(self):
            return 'kbdint' in server_kw.get('_methods', ())

        def get_kbdint_challenge(self, username, lang, submethods):
            return ('', '', '', [('Password:', False)])

        def validate_kbdint_response(self, username, responses):
            return list(responses) == ['pw-' + username]

        def auth_completed(self):
            result['granted'] = result['sconn'].get_extra_info('username')

    skw = {k: v for k, v in server_kw.items() if not k.startswith('_')}

    async def go():
        if agent_keys is not None:
            agent = MiniAgent(agent_keys)
            await loop.create_unix_server(lambda: agent, '/agent.sock')
        acc = await asyncssh.listen('127.0.0.1', 2222, server_factory=Server,
                                    server_host_keys=[keys()['host']], **skw)
        try:
            conn = await asyncssh.connect('127.0.0.1', 2222, known_hosts=None,
                                          config=None, username=user,
                                          **client_kw)
        except asyncssh.PermissionDenied:
            return 'denied'
        except asyncssh.Error as exc:
            return f'error:{type(exc).__name__}'
        conn.close()
        await conn.wait_closed()
        acc.close()
        return 'admitted'

    try:
        out = loop.run_until_complete(go())
    except Deadlock:
        out = 'hung'
    exc = [str(c.get('exception') or c.get('message'))
           for c in loop.exceptions]
    close_loop(loop)
    return out, result.get('granted'), exc


def admitted_cases(tier):
    k = keys()
    ca = asyncssh.generate_private_key('ssh-ed25519')
    ukey = k['A']
    cert = ca.generate_user_certificate(ukey, 'id-A', principals=['A'])
    rsa = asyncssh.generate_private_key('ssh-rsa', key_size=2048)
    ecdsa = asyncssh.generate_private_key('ecdsa-sha2-nistp256')
    akeys = asyncssh.import_authorized_keys(
        ukey.export_public_key('openssh').decode() +
        rsa.export_public_key('openssh').decode() +
        ecdsa.export_public_key('openssh').decode())
    cakeys = asyncssh.import_authorized_keys(
        'cert-authority ' + ca.export_public_key('openssh').decode())
    nokeys = dict(client_keys=None, agent_path=None)
    cases = [
        ('password', dict(_methods=['password']),
         dict(password='pw-A', **nokeys), None, True),
        ('password-wrong', dict(_methods=['password']),
         dict(password='pw-B', **nokeys), None, False),
        ('kbdint', dict(_methods=['kbdint']),
         dict(password='pw-A', **nokeys), None, True),
        ('local-key-ed25519', dict(authorized_client_keys=akeys),
         dict(client_keys=[ukey], agent_path=None), None, True),
        ('local-key-rsa', dict(authorized_client_keys=akeys),
         dict(client_keys=[rsa], agent_path=None), None, True),
        ('local-key-ecdsa', dict(authorized_client_keys=akeys),
         dict(client_keys=[ecdsa], agent_path=None), None, True),
        ('local-key-unauthorised', dict(authorized_client_keys=akeys),
         dict(client_keys=[k['B']], agent_path=None), None, False),
        ('certificate', dict(authorized_client_keys=cakeys),
         dict(client_keys=[(ukey, cert)], agent_path=None), None, True),
        ('certificate-wrong-principal', dict(authorized_client_keys=cakeys),
         dict(client_keys=[(ukey, ca.generate_user_certificate(
             ukey, 'id-X', principals=['X']))], agent_path=None), None,
         False),
        ('agent-key', dict(authorized_client_keys=akeys),
         dict(client_keys=[], agent_path='/agent.sock'), [ukey], True),
        ('agent-key-rsa', dict(authorized_client_keys=akeys),
         dict(client_keys=[], agent_path='/agent.sock'), [rsa], True),
        ('agent-second-key', dict(authorized_client_keys=akeys),
         dict(client_keys=[], agent_path='/agent.sock'),
         [k['B'], ukey], True),
        ('agent-key-unauthorised', dict(authorized_client_keys=akeys),
         dict(client_keys=[], agent_path='/agent.sock'), [k['B']], False),
    ]
    for name, skw, ckw, agent, expect in cases:
        out, granted, exc = _run_case(skw, ckw, 'A', agent)
        if expect:
            ok = out == 'admitted' and granted == 'A' and not exc
        else:
            ok = out in ('denied',) and granted is None and not exc
        # a wrongly *admitted* bad credential is an AuthSound matter and is
        # reported through the same channel
        yield name, ok, f'outcome={out} granted={granted} loop_exc={exc}'
