"""Driver for specs/Transport/Nonce.tla: the per-packet nonce of the AES-GCM
transport ciphers, exercised at every carry pattern of the invocation counter.

A model row is (<<fixed, counter>>, wraps): limb values 0..2 of the fixed
field (one limb standing for its four bytes) and of the eight counter limbs,
most significant first, and per step the set of counter limbs the model says
wrap.  Limb value v becomes byte 0xfd + v, which carries exactly when the
model's limb does for as many steps as the model takes.

unit_case(): packets sealed by asyncssh's encryption object are opened by the
independent decoder (harness/wire.py: RFC 5647 nonce arithmetic written
separately), packets sealed independently are opened by asyncssh's object,
and a packet of the past offered again is refused.
"""

import hashlib
import struct

from cryptography.hazmat.primitives.ciphers.aead import AESGCM

from harness import wire

ALGS = {b'aes128-gcm@openssh.com': 16, b'aes256-gcm@openssh.com': 32}


def concrete(fixed, ctr):
    """12-byte nonce for a model state."""
    f = bytes([0xfd + (fixed[0] if fixed else 0)]) * 4
    return f + bytes(0xfd + v for v in ctr)


def rfc_nonces(iv, count):
    """The nonces RFC 5647 prescribes, starting from iv."""
    out = []
    c = int.from_bytes(iv[4:], 'big')
    for _ in range(count):
        out.append(iv[:4] + c.to_bytes(8, 'big'))
        c = (c + 1) % (1 << 64)
    return out


def wrapped_bytes(n0, n1):
    """Counter bytes (1-based, most significant first) that went 0xff -> 0."""
    return {i + 1 for i in range(8) if n0[4 + i] == 0xff and n1[4 + i] == 0}


def _packet(payload):
    # RFC 4253 s6 for an AEAD cipher: the length field is not counted for the
    # alignment; block size 16, at least 4 bytes of padding
    padlen = 16 - ((1 + len(payload)) % 16)
    if padlen < 4:
        padlen += 16
    body = bytes([padlen]) + payload + bytes(padlen)
    return struct.pack('>I', len(body)), body


def _decoder(alg, key, iv):
    k = wire.Keys.__new__(wire.Keys)
    k.enc, k.cmp, k.kind, k.block = alg.decode(), 'none', 'gcm', 16
    k.iv, k.key = iv, key
    k.mac, k.macname, k.macsize, k.etm, k.mackey = None, alg.decode(), 16, False, b''
    k.rc4_skip = 0
    d = wire.Decoder('cs')
    d.version = b'SSH-2.0-x'
    d.stage(k)
    d._install()
    return d


def unit_case(alg, fixed, ctr, steps, salt=0):
    """Returns a list of failed clauses (empty: conforms)."""
    from asyncssh.encryption import get_encryption
    key = hashlib.sha256(b'nonce-key' + bytes([salt])).digest()[:ALGS[alg]]
    iv = concrete(fixed, ctr)
    bad = []
    payloads = [bytes([94]) + bytes([i, salt]) * (3 + i) for i in range(steps + 1)]
    # --- asyncssh seals, the independent decoder opens ---
    enc = get_encryption(alg, key, iv)
    dec = _decoder(alg, key, iv)
    wires = []
    for i, p in enumerate(payloads):
        hdr, body = _packet(p)
        data, mac = enc.encrypt_packet(i, hdr, body)
        wires.append(data + mac)
        try:
            got = dec.feed(data + mac)
        except wire.WireError as exc:
            bad.append(f'InStep(send): packet {i + 1} sealed by asyncssh does '
                       f'not open under the RFC 5647 nonce: {exc}')
            break
        if [g.payload for g in got] != [p]:
            bad.append(f'InStep(send): packet {i + 1} opened to '
                       f'{[g.payload for g in got]!r}')
            break
    # --- sealed independently, asyncssh opens ---
    rcv = get_encryption(alg, key, iv)
    ref = []
    for i, (p, nonce) in enumerate(zip(payloads, rfc_nonces(iv, len(payloads)))):
        hdr, body = _packet(p)
        ct = AESGCM(key).encrypt(nonce, body, hdr)
        w = hdr + ct
        ref.append(w)
        first, rest, mac = w[:16], w[16:-16], w[-16:]
        rcv.decrypt_header(i, first, 4)
        clear = rcv.decrypt_packet(i, first, rest, 4, mac)
        if clear is None:
            bad.append(f'InStep(recv): packet {i + 1} sealed under the RFC '
                       f'5647 nonce is refused by asyncssh')
            break
        if bytes(clear) != body:
            bad.append(f'InStep(recv): packet {i + 1} opened to other bytes')
            break
    else:
        # --- NonceFresh: every packet of the past, offered again, is refused ---
        for j, w in ((0, ref[0]), (len(ref) - 1, ref[-1])):
            probe = get_encryption(alg, key, iv)
            ok = True
            for i, w2 in enumerate(ref):
                first, rest, mac = w2[:16], w2[16:-16], w2[-16:]
                probe.decrypt_header(i, first, 4)
                if probe.decrypt_packet(i, first, rest, 4, mac) is None:
                    ok = False
                    break
            if not ok:
                break
            first, rest, mac = w[:16], w[16:-16], w[-16:]
            probe.decrypt_header(len(ref), first, 4)
            if probe.decrypt_packet(len(ref), first, rest, 4, mac) is not None:
                bad.append(f'NonceFresh: packet {j + 1} is accepted again '
                           f'after {len(ref)} packets')
                break
    return bad
