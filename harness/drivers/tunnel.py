"""Driver for specs/Forward/Tunnel.tla (X09): SSH connections opened through
another SSH connection, on the deterministic loop.

Fixture: a jump server (port 2222), a target server (2223) and a third
server (2224), all in memory; level 1 = client -> jump server, level i > 1 =
asyncssh.connect('127.0.0.1', 2221 + i, tunnel=<level i-1>).  Everything of
the higher levels rides on level 1's transport pair, which the driver
delivers by hand while a connect() is in flight (Progress = one round of
deliveries) or while an SFTP request is to stay in flight.

Model action        -> real call
  connect i         -> task asyncssh.connect(..., tunnel=conn[i-1])
  progress i        -> one delivery round on level 1's transports
  connected i       -> deliveries until the connect() task returns
  wait i w          -> pending stdout.read() of a process / SFTP stat() whose
                       reply is withheld / wait_closed()
  data i            -> a line through an echo process of the level
  kill i close|abort|carrier|server|cutc|cuts
                    -> conn.close() / conn.abort() / close of the channel
                       that carries i / cut of the socket between the jump
                       chain and i's server / cut of level 1's transport
"""

import asyncio

import asyncssh

from harness.vloop import new_loop, close_loop, Deadlock
from harness.drivers.forward import keys

BASE_PORT = 2221


class _Client(asyncssh.SSHClient):
    def __init__(self, world, level):
        self.world, self.level = world, level

    def connection_made(self, conn):
        self.world.made[self.level] = self.world.made.get(self.level, 0) + 1

    def connection_lost(self, exc):
        self.world.lost.setdefault(self.level, []).append(exc)


class TunnelWorld:
    def __init__(self, levels=3):
        world = self
        self.levels = levels
        self.loop = loop = new_loop()
        self.made, self.lost = {}, {}
        self.conn, self.task = {}, {}
        self.waiters = {}           # level -> {name: task}
        self.proc = {}
        self.carrier_id = {}
        self.killed = {}            # level -> how it was killed (first cause)
        self.handlers = set()
        self.release = asyncio.Event()
        self.echo_ok = True
        self.l1 = []
        k = keys()

        class Server(asyncssh.SSHServer):
            def begin_auth(self, username):
                return False

            def connection_requested(self, dest_host, dest_port, orig_host,
                                     orig_port):
                return True

        async def handler(process):
            world.handlers.add(asyncio.current_task())
            try:
                if process.command == 'echo':
                    async for line in process.stdin:
                        process.stdout.write('E:' + line)
                else:
                    await world.release.wait()
            except Exception:           # pylint: disable=broad-except
                pass
            process.exit(0)

        async def go():
            self.acceptors = []
            for i in range(1, levels + 1):
                self.acceptors.append(await asyncssh.listen(
                    '127.0.0.1', BASE_PORT + i, server_factory=Server,
                    server_host_keys=[k['host']], process_factory=handler,
                    sftp_factory=True))
            self.conn[1] = await asyncssh.connect(
                '127.0.0.1', BASE_PORT + 1, known_hosts=None, config=None,
                client_keys=None, client_factory=lambda: _Client(world, 1))
        loop.run_until_complete(go())
        loop.run_until_idle()
        self.ct, self.st = loop.net.all_transports[0], loop.net.all_transports[1]
        self.base_listeners = set(loop.net.listeners)

    def flag(self, clause, detail, cause=''):
        if not any(c == clause and k == cause for c, _, k in self.l1):
            self.l1.append((clause, detail, cause))

    # ------------------------------------------------------------------
    def manual(self, on):
        self.ct.auto = self.st.auto = not on

    def round(self):
        for t in (self.ct, self.st):
            if t.inq and not t.closed:
                self.loop.run_callback(t.deliver)
        self.loop.run_until_idle()

    def settle(self):
        self.manual(False)
        self.loop.run_until_idle()

    def connect(self, i):
        lower = self.conn[i - 1]
        before = set(lower._channels)
        self.manual(True)

        async def go():
            return await asyncssh.connect(
                '127.0.0.1', BASE_PORT + i, tunnel=lower, known_hosts=None,
                config=None, client_keys=None,
                client_factory=lambda: _Client(self, i))
        self.task[i] = self.loop.create_task(go())
        self.loop.run_until_idle()
        new = set(lower._channels) - before
        self.carrier_id[i] = next(iter(new)) if new else None

    def connected(self, i):
        t = self.task[i]
        self.manual(False)
        try:
            self.loop.run_until_complete(asyncio.wait([t]))
        except Deadlock:
            pass
        self.loop.run_until_idle()
        if t.done() and not t.cancelled() and t.exception() is None:
            self.conn[i] = t.result()
            return True
        return False

    def add_waiter(self, i, w):
        conn, loop = self.conn[i], self.loop
        self.manual(False)

        async def mk_proc():
            return await conn.create_process('wait')

        async def mk_sftp():
            return await conn.start_sftp_client()
        if w == 'read':
            p = loop.run_until_complete(mk_proc())
            loop.run_until_idle()
            coro = p.stdout.read(100)
        elif w == 'sftp':
            sftp = loop.run_until_complete(mk_sftp())
            loop.run_until_idle()
            self.manual(True)       # the reply is withheld
            coro = sftp.stat('/')
        else:
            coro = conn.wait_closed()
        self.waiters.setdefault(i, {})[w] = loop.create_task(coro)
        loop.run_until_idle()

    def data(self, i, n):
        conn, loop = self.conn[i], self.loop
        self.manual(False)

        async def go():
            p = self.proc.get(i)
            if p is None:
                p = self.proc[i] = await conn.create_process('echo')
            line = f'unit-{n}-' + 'x' * (37 * n) + '\n'
            p.stdin.write(line)
            return line, await p.stdout.readline()
        try:
            line, got = loop.run_until_complete(go())
        except (Deadlock, Exception) as exc:    # pylint: disable=broad-except
            self.flag('RelayFIFO', f'echo through level {i} failed: {exc!r}')
            return
        if got != 'E:' + line:
            self.flag('RelayFIFO', f'level {i}: sent {line[:20]!r}, got '
                      f'{got[:20]!r}')

    def kill(self, i, how):
        self.killed.setdefault(i, how)
        loop = self.loop
        if how == 'close':
            self.conn[i].close()
        elif how == 'abort':
            self.conn[i].abort()
        elif how == 'carrier':
            ch = self.conn[i - 1]._channels.get(self.carrier_id.get(i))
            if ch is not None:
                ch.close()
        elif how == 'server':
            if len(loop.net.all_transports) <= 2 * (i - 1) + 1:
                self.round()
            loop.net.all_transports[2 * (i - 1) + 1].cut()
        elif how == 'cutc':
            self.ct.cut()
        elif how == 'cuts':
            self.st.cut()
        self.settle()

    # ------------------------------------------------------------------
    def status(self, i):
        if i == 1:
            return 'dead' if self.lost.get(1) else 'up'
        t = self.task.get(i)
        if t is None:
            return 'none'
        if not t.done():
            return 'connecting'
        if t.cancelled() or t.exception() is not None:
            return 'dead'
        self.conn.setdefault(i, t.result())
        return 'dead' if self.lost.get(i) else 'up'

    def call(self, i):
        if i == 1:
            return 'ok'
        t = self.task.get(i)
        if t is None:
            return 'none'
        if not t.done():
            return 'pending'
        return 'raised' if (t.cancelled() or t.exception() is not None) \
            else 'ok'

    def observe(self):
        return {'st': [self.status(i) for i in range(1, self.levels + 1)],
                'call': [self.call(i) for i in range(1, self.levels + 1)],
                'lost': [len(self.lost.get(i, []))
                         for i in range(1, self.levels + 1)],
                'wait': [sorted(w for w, t in self.waiters.get(i, {}).items()
                                if not t.done())
                         for i in range(1, self.levels + 1)]}

    # ------------------------------------------------------------------
    def check(self):
        """monitors on what the application sees and on the loop's tables"""
        self.settle()
        n = self.levels
        for i in range(1, n + 1):
            lost = self.lost.get(i, [])
            if len(lost) > 1:
                self.flag('InnerEndsWithOuter', f'connection_lost of level '
                          f'{i} was called {len(lost)} times', 'lost-twice')
        for i in range(2, n + 1):
            if self.status(i - 1) != 'dead' or self.status(i) == 'none':
                continue
            # the level below is gone: nothing of level i may be left
            t = self.task[i]
            if not t.done():
                self.flag('ConnectFailsCleanly', f'connect() of level {i} is '
                          f'still pending although level {i - 1} has ended',
                          'connect-hangs')
                continue
            ok = not t.cancelled() and t.exception() is None
            lost = self.lost.get(i, [])
            if ok and len(lost) != 1:
                self.flag('InnerEndsWithOuter', f'level {i - 1} ended but '
                          f'connection_lost of level {i} was called '
                          f'{len(lost)} times', 'not-told')
            first = min((j for j in self.killed), default=None)
            if ok and lost and lost[0] is None and first is not None and \
                    first < i and i not in self.killed:
                self.flag('InnerEndsWithOuter', f'level {i} went down with '
                          f'level {first} but its connection_lost carried no '
                          'error', 'no-error')
            for w, wt in self.waiters.get(i, {}).items():
                if not wt.done():
                    self.flag('InnerEndsWithOuter', f'level {i - 1} ended '
                              f'but the {w} waiter of level {i} still hangs',
                              'waiter-hangs:' + w)
        for i in range(1, n + 1):
            if self.status(i) == 'dead':
                for w, wt in self.waiters.get(i, {}).items():
                    if not wt.done():
                        self.flag('InnerEndsWithOuter', f'level {i} ended '
                                  f'but its {w} waiter still hangs',
                                  'waiter-hangs:' + w)
        # a level that ended leaves the one below usable, its carrier released
        for i in range(2, n + 1):
            if self.status(i) == 'dead' and self.status(i - 1) == 'up':
                lower = self.conn[i - 1]
                if self.carrier_id.get(i) in lower._channels:
                    self.flag('OuterSurvivesInner', f'level {i} ended but '
                              f'the channel of level {i - 1} that carried '
                              'it stays open', 'carrier-left')
                self.probe(i - 1)

    def probe(self, i):
        conn, loop = self.conn[i], self.loop

        async def go():
            p = await conn.create_process('echo')
            p.stdin.write('probe\n')
            got = await p.stdout.readline()
            p.stdin.write_eof()
            await p.wait_closed()
            return got
        try:
            got = loop.run_until_complete(go())
        except (Deadlock, Exception) as exc:    # pylint: disable=broad-except
            got = repr(exc)
        loop.run_until_idle()
        if got != 'E:probe\n':
            self.flag('OuterSurvivesInner', f'level {i} is not usable after '
                      f'the level above it ended: {got!r}', 'lower-broken')

    def finish(self):
        """close whatever is still up, from the top; nothing may be left"""
        loop = self.loop
        self.check()
        self.release.set()
        for i in range(self.levels, 0, -1):
            if self.status(i) == 'up':
                self.conn[i].close()
                self.settle()
        self.check()
        for i in range(2, self.levels + 1):
            t = self.task.get(i)
            if t is not None and not t.done():
                self.flag('ConnectFailsCleanly', f'connect() of level {i} '
                          'never returned', 'connect-hangs')
        left = [t for t in loop.net.transports if not t.closed]
        if left:
            self.flag('NoLeakedTransport', f'{len(left)} transport(s) open '
                      'after every connection ended: ' +
                      ', '.join(type(t.protocol).__name__ for t in left))
        if set(loop.net.listeners) != self.base_listeners:
            self.flag('NoOrphanListener', 'listeners changed: ' +
                      str(set(loop.net.listeners) ^ self.base_listeners))
        pend = [t for t in asyncio.all_tasks(loop)
                if not t.done() and t not in self.handlers]
        if pend:
            self.flag('NoLeakedTask', f'{len(pend)} task(s) still pending: ' +
                      ', '.join(getattr(t.get_coro(), '__qualname__', '?')
                                for t in pend[:4]))
        for ch_owner in self.conn.values():
            if ch_owner._channels:
                self.flag('NoLeakedChannel', 'a closed connection still has '
                          f'{len(ch_owner._channels)} channel(s)')

    def stop(self):
        try:
            self.release.set()
            self.manual(False)
            for t in list(self.task.values()):
                t.cancel()
            for ws in self.waiters.values():
                for t in ws.values():
                    t.cancel()
            for c in self.conn.values():
                c.abort()
            for a in self.acceptors:
                a.close()
            self.loop.run_until_idle()
            for t in asyncio.all_tasks(self.loop):
                t.cancel()
            self.loop.run_until_idle()
        except BaseException:           # pylint: disable=broad-except
            pass
        close_loop(self.loop)


def replay(steps, levels=3):
    """steps: [(lbl, state)] of a Tunnel.tla behaviour or bare labels"""
    w = TunnelWorld(levels)
    res = {'l1': [], 'diverged': None, 'script': []}
    ndata = 0
    try:
        for n, step in enumerate(steps):
            lbl, st = step if isinstance(step, tuple) and len(step) == 2 \
                and isinstance(step[1], dict) else (step, None)
            op, i = lbl[0], lbl[1]
            div = None
            if op == 'connect':
                w.connect(i)
                res['script'].append(f'connect{i}')
            elif op == 'progress':
                w.round()
                res['script'].append(f'prog{i}')
            elif op == 'connected':
                ok = w.connected(i)
                res['script'].append(f'connected{i}={ok}')
                if not ok:
                    div = f'connect() of level {i} did not succeed'
            elif op == 'wait':
                w.add_waiter(i, lbl[2])
                res['script'].append(f'wait{i}:{lbl[2]}')
            elif op == 'data':
                ndata += 1
                w.data(i, ndata)
                res['script'].append(f'data{i}')
            elif op == 'kill':
                w.kill(i, lbl[2])
                res['script'].append(f'kill{i}:{lbl[2]}')
                w.check()
            if st is not None and div is None:
                got = w.observe()
                want = {'st': list(st['st']), 'call': list(st['call']),
                        'lost': list(st['lost'])}
                # a level whose connect() was still in flight may or may not
                # have had connection_made (hence one connection_lost) yet
                for j, c_ in enumerate(want['call']):
                    if c_ != 'ok' and j < len(got['lost']):
                        got['lost'][j] = want['lost'][j] = min(got['lost'][j], 1)
                for key in want:
                    if got[key][:levels] != want[key][:levels]:
                        div = f'{op} {i}: {key}: code={got[key]} ' \
                              f'model={want[key]}'
                        break
            if div and not res['diverged']:
                res['diverged'] = f'step {n}: {div}'
        w.finish()
        res['l1'] = list(w.l1)
        res['loop_exceptions'] = [repr(c.get('exception') or c.get('message'))
                                  for c in w.loop.exceptions]
    finally:
        w.stop()
    return res
