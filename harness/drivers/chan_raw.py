"""Raw-peer scenarios for channel flow control (C08) and hostile numeric
values (C10): a scripted client talks to a real asyncssh server whose session
writes data, with extreme window / packet-size values, and a peer that
ignores the window the server advertised."""

import signal

import asyncssh
from asyncssh.packet import Boolean, String, UInt32

from harness import rawpeer
from harness.sshpair import hostkey
from harness.vloop import new_loop, close_loop, Deadlock, Spin


class Watchdog(BaseException):
    pass


def _alarm(signum, frame):
    raise Watchdog('callback did not return within the watchdog time')


class RawWorld:
    def __init__(self, server_writes=0, pause=False, window=None,
                 max_pktsize=None, quirk='none'):
        self.loop = new_loop()
        self.loop.max_iterations = 200000
        self.server_writes = server_writes
        self.pause = pause
        self.srv_rx = bytearray()
        self.srv_events = []
        self.schan = None
        self.server_lost = []
        w = self

        class SS(asyncssh.SSHServerSession):
            def connection_made(self, chan):
                w.schan = chan

            def exec_requested(self, command):
                return True

            def session_started(self):
                if w.pause:
                    w.schan.pause_reading()
                if w.server_writes:
                    w.schan.write(bytes(range(256)) * (w.server_writes // 256)
                                  + bytes(range(w.server_writes % 256)))
                    w.schan.write_eof()

            def data_received(self, data, datatype):
                w.srv_rx += data

            def eof_received(self):
                w.srv_events.append('eof')
                return True

            def connection_lost(self, exc):
                w.srv_events.append(('chan_lost', type(exc).__name__
                                     if exc else None))

        class Srv(asyncssh.SSHServer):
            def connection_lost(self, exc):
                w.server_lost.append(exc)

            def begin_auth(self, username):
                return False

            def session_requested(self):
                return SS()

        kw = dict(server_factory=Srv, server_host_keys=[hostkey()],
                  encoding=None)
        if window is not None:
            kw['window'] = window
        if max_pktsize is not None:
            kw['max_pktsize'] = max_pktsize
        rkw = {}
        if quirk == 'dropbear_zlib':
            # a peer that says it is dropbear, with compression in effect
            kw['compression_algs'] = ['zlib']
            rkw = dict(client_version='dropbear_2022.83',
                       compression_algs=['zlib'])

        async def go():
            self.acc = await asyncssh.listen('127.0.0.1', 2222, **kw)
            self.raw = await rawpeer.raw_connect('127.0.0.1', 2222, **rkw)
            # none auth (server needs no auth)
            self.raw.raw_send(50, rawpeer.userauth_request('u', 'none'))

        self.loop.run_until_complete(go())
        self.loop.run_until_idle()
        self.inbox = self.raw.take()

    def step(self, pkttype=None, body=b'', watchdog=3.0):
        """Send one packet (or none) and run to idle under a watchdog."""
        old = signal.signal(signal.SIGVTALRM, _alarm)
        signal.setitimer(signal.ITIMER_VIRTUAL, watchdog)
        try:
            if pkttype is not None:
                self.loop.call_soon(self.raw.raw_send, pkttype, body)
            self.loop.run_until_idle()
            out = 'ok'
        except Watchdog:
            out = 'spin'
        except Spin:
            out = 'spin-iterations'
        finally:
            signal.setitimer(signal.ITIMER_VIRTUAL, 0)
            signal.signal(signal.SIGVTALRM, old)
        for c in list(self.loop.exceptions):
            if isinstance(c.get('exception'), Watchdog):
                self.loop.exceptions.remove(c)
                out = 'spin'
        new = self.raw.take()
        self.inbox += new
        return out, new

    def stop(self):
        try:
            self.raw.abort()
            self.acc.close()
            self.loop.run_until_idle()
        except BaseException:           # pylint: disable=broad-except
            pass
        close_loop(self.loop)


def open_session(w, window, pktsize, chan=7):
    out, new = w.step(90, String(b'session') + UInt32(chan) + UInt32(window)
                      + UInt32(pktsize))
    conf = [p for t, p in new if t == 91]
    if out != 'ok' or not conf:
        return out, None
    p = conf[0]
    return out, dict(peer_chan=int.from_bytes(p[5:9], 'big'),
                     peer_window=int.from_bytes(p[9:13], 'big'),
                     peer_pktsize=int.from_bytes(p[13:17], 'big'))


def exec_request(w, peer_chan):
    return w.step(98, UInt32(peer_chan) + String(b'exec') + Boolean(True)
                  + String(b'x'))


def extreme_size_cases(values=(0, 1, 2, 0xffffffff), nbytes=600,
                       quirks=('none',), pkts=None):
    """A peer advertising extreme window / max packet size values; the server
    writes nbytes.  quirks: what the peer says it is ('dropbear_zlib': the
    version string names dropbear and compression is on, which makes asyncssh
    lower the packet size by one).  Yields (case, violations list)."""
    for quirk, win, pkt in [(q, w_, p_) for q in quirks for w_ in values
                            for p_ in (pkts or values)]:
        if True:
            w = RawWorld(server_writes=nbytes, quirk=quirk)
            bad = []
            try:
                out, info = open_session(w, win, pkt)
                if out != 'ok':
                    bad.append(f'open: {out}')
                elif info is not None:
                    out, new = exec_request(w, info['peer_chan'])
                    if out != 'ok':
                        bad.append(f'C08/C10 server spins writing to a '
                                   f'channel with window={win} '
                                   f'max_pktsize={pkt}: {out}')
                    sent = 0
                    data_pkts = [p for t, p in w.inbox if t == 94]
                    for p in data_pkts:
                        n = int.from_bytes(p[5:9], 'big')
                        sent += n
                        if n > pkt:
                            bad.append(f'C08 NeverExceedPktSize: data packet '
                                       f'of {n} bytes > advertised {pkt}')
                        if n == 0 and not any('empty data' in b for b in bad):
                            bad.append('C08/C10 empty data packet sent')
                    if sent > win:
                        bad.append(f'C08 NeverExceedPeerWindow: {sent} bytes '
                                   f'sent into a window of {win}')
                    if len(data_pkts) > nbytes + 5:
                        bad.append(f'C08/C10 unbounded number of data '
                                   f'packets ({len(data_pkts)}) for '
                                   f'{nbytes} bytes')
                    # grant more window in small steps and check again
                    if out == 'ok' and pkt > 0 and win < nbytes:
                        for _ in range(3):
                            o2, new = w.step(93, UInt32(info['peer_chan'])
                                             + UInt32(5))
                            got = sum(int.from_bytes(p[5:9], 'big')
                                      for t, p in new if t == 94)
                            if o2 != 'ok' or got > 5:
                                bad.append(f'C08 NeverExceedPeerWindow: '
                                           f'{got} bytes after an adjust '
                                           f'of 5 ({o2})')
                if w.loop.exceptions:
                    bad.append('C10 exception reached the event loop: ' +
                               str(w.loop.exceptions[0].get('exception')))
            finally:
                w.stop()
            yield {'window': win, 'pktsize': pkt, 'quirk': quirk}, bad


def extreme_size_cases_one(quirk, win, pkt, nbytes=600):
    return extreme_size_cases((win,), nbytes, (quirk,), pkts=(pkt,))


def excess_cases(window=100):
    """A peer that ignores the window advertised by the server, with the
    server's reader paused or not, in one packet or across several, and
    packets larger than the advertised maximum."""
    for pause in (False, True):
        for shape in ('one-big', 'fill-then-one', 'many-small', 'ext-data',
                      'exact'):
            w = RawWorld(pause=pause, window=window, max_pktsize=64)
            bad = []
            try:
                out, info = open_session(w, 1000, 100)
                out, _ = exec_request(w, info['peer_chan'])
                pc = info['peer_chan']
                adv = info['peer_window']
                sent = 0
                adjusts = 0

                def send(n, ext=False):
                    nonlocal sent, adjusts
                    body = UInt32(pc) + (UInt32(1) if ext else b'') + \
                        String(b'z' * n)
                    o, new = w.step(95 if ext else 94, body)
                    sent += n
                    adjusts += sum(int.from_bytes(p[5:9], 'big')
                                   for t, p in new if t == 93)
                    return o

                if shape == 'one-big':
                    send(adv + 1)
                elif shape == 'fill-then-one':
                    send(adv // 2)
                    send(adv - adv // 2)
                    send(1)
                elif shape == 'many-small':
                    for _ in range(adv + 3):
                        send(1)
                        if w.server_lost:
                            break
                elif shape == 'ext-data':
                    send(adv // 2)
                    send(adv, ext=True)
                elif shape == 'exact':
                    send(adv // 2)
                    send(adv - adv // 2)
                granted = adv + adjusts
                lost = w.server_lost
                if shape == 'exact':
                    if lost and not pause:
                        bad.append(f'C08: data within the window rejected: '
                                   f'{lost[0]!r}')
                elif sent > granted and not lost:
                    bad.append(f'C08 RejectExcess: {sent} bytes sent into an '
                               f'advertised window of {granted} '
                               f'(reader paused={pause}, {shape}) and the '
                               f'connection is still up; session received '
                               f'{len(w.srv_rx)}')
                elif lost and not isinstance(lost[0], asyncssh.ProtocolError) \
                        and sent > granted:
                    bad.append(f'C08 RejectExcess: connection ended with '
                               f'{lost[0]!r} instead of a protocol error')
                if len(w.srv_rx) > granted:
                    bad.append(f'C08 NeverAcceptBeyondGrant: session got '
                               f'{len(w.srv_rx)} > {granted}')
                if w.loop.exceptions:
                    bad.append('C10 exception reached the event loop: ' +
                               str(w.loop.exceptions[0].get('exception')))
            finally:
                w.stop()
            yield {'paused': pause, 'shape': shape}, bad


def extreme_size_cases_client(quirk, win, pkt, nbytes=600):
    """The same with the roles swapped: a real CLIENT opens the channel and a
    raw server confirms it with extreme window / maximum packet size values
    (quirk 'dropbear_zlib': the server says it is dropbear and compression is
    on - the work-around on the confirmation path).  The client writes nbytes.
    Returns (case, violations)."""
    import asyncio
    loop = new_loop()
    loop.max_iterations = 200000
    bad = []
    sizes = []
    st = {}
    res = {}
    skw, ckw = {}, {}
    if quirk == 'dropbear_zlib':
        skw = dict(server_version='dropbear_2022.83',
                   compression_algs=['zlib'])
        ckw = dict(compression_algs=['zlib'])

    def on_conn(conn):
        res['rconn'] = conn

        def on_packet(t, payload):
            if t == 5:
                conn.raw_send(6, String(b'ssh-userauth'))
            elif t == 50:
                conn.raw_send(52, b'')
            elif t == 90:
                st['c'] = int.from_bytes(payload[12:16], 'big')
                conn.raw_send(91, UInt32(st['c']) + UInt32(3) + UInt32(win) +
                              UInt32(pkt))
            elif t == 98:
                conn.raw_send(99, UInt32(st['c']))
            elif t == 94:
                sizes.append(int.from_bytes(payload[5:9], 'big'))
        conn.on_packet = on_packet

    async def go():
        res['acc'] = await rawpeer.raw_listen(
            '127.0.0.1', 2222, on_conn, server_host_keys=[hostkey()], **skw)
        conn = await asyncssh.connect(
            '127.0.0.1', 2222, known_hosts=None, config=None,
            client_keys=None, username='u', **ckw)
        res['conn'] = conn
        chan, _ = await conn.create_session(asyncssh.SSHClientSession,
                                            command='x', encoding=None)
        chan.write(bytes(range(256)) * (nbytes // 256) +
                   bytes(range(nbytes % 256)))
        await asyncio.sleep(0.2)

    old = signal.signal(signal.SIGVTALRM, _alarm)
    signal.setitimer(signal.ITIMER_VIRTUAL, 3.0)
    try:
        loop.run_until_complete(go())
        loop.run_until_idle()
    except (Watchdog, Spin):
        bad.append(f'C08/C10 client spins writing to a channel confirmed '
                   f'with window={win} max_pktsize={pkt}')
    except (Deadlock, asyncssh.Error, OSError) as exc:
        bad.append(f'client session failed: {type(exc).__name__}: {exc}')
    finally:
        signal.setitimer(signal.ITIMER_VIRTUAL, 0)
        signal.signal(signal.SIGVTALRM, old)
    for c in list(loop.exceptions):
        if isinstance(c.get('exception'), Watchdog):
            loop.exceptions.remove(c)
            bad.append(f'C08/C10 client spins writing to a channel confirmed '
                       f'with window={win} max_pktsize={pkt}')
    for n in sizes:
        if n > pkt:
            bad.append(f'C08 NeverExceedPktSize: client sent a data packet of '
                       f'{n} bytes > advertised {pkt}')
            break
    if 0 in sizes:
        bad.append('C08/C10 empty data packet sent')
    if sum(sizes) > win:
        bad.append(f'C08 NeverExceedPeerWindow: client sent {sum(sizes)} '
                   f'bytes into a window of {win}')
    if len(sizes) > nbytes + 5:
        bad.append(f'C08/C10 unbounded number of data packets ({len(sizes)})')
    if loop.exceptions:
        bad.append('C10 exception reached the event loop: ' +
                   str(loop.exceptions[0].get('exception')))
    try:
        for k in ('conn', 'rconn'):
            if k in res:
                res[k].abort()
        if 'acc' in res:
            res['acc'].close()
        loop.run_until_idle()
    except BaseException:               # pylint: disable=broad-except
        pass
    close_loop(loop)
    return {'window': win, 'pktsize': pkt, 'quirk': quirk,
            'role': 'client'}, bad
