"""Driver for X07 (specs/Channel/ChanGate.tla): what a ROGUE peer's
channel-level messages do in every state of a channel.

A real endpoint (server with a raw client, or client with a raw server) is
driven into a state class (receive state x send state x reading x buffered x
request outstanding), the raw peer sends ONE message, and everything the
endpoint does is observed: session callbacks, packets it emits (hook
'pkt_out'), whether the connection ended and with which error, exceptions
that reached the loop, CPU-time watchdog.  Then the application resumes
reading (what was parked comes out) and the callbacks are observed again,
and finally the peer closes the channel (it must end in order).

Concrete values behind the abstract row (see ChanGate.tla):
  receive window W = 16 bytes, max packet size P = 8 bytes, the peer grants
  a send window of 0 (so everything the application writes stays unsent),
  one parked chunk = 1 byte b'a', unsent data = 2 writes of 1 byte.
"""

import asyncio
import signal

import asyncssh
from asyncssh import _verif
from asyncssh.packet import Boolean, String, UInt32

from harness import rawpeer
from harness.sshpair import hostkey
from harness.vloop import new_loop, close_loop, Spin
from harness.drivers.chan_raw import Watchdog, _alarm

W = 16              # receive window of the channel under test
P = 8               # its maximum packet size
RAWCH = 7           # the raw peer's own channel number
NEVER = 5           # a channel number that is never allocated
NAMES = {1: 'DISCONNECT', 3: 'UNIMPLEMENTED', 90: 'OPEN', 91: 'OPEN_CONF',
         92: 'OPEN_FAIL', 93: 'ADJ', 94: 'DATA', 95: 'EXT', 96: 'EOF',
         97: 'CLOSE', 98: 'REQUEST', 99: 'SUCCESS', 100: 'FAILURE'}
ROGUE = b'Z'        # payload byte of the message under test
PARKED = b'a'       # payload byte of data sent before it


class Log(list):
    """callback log of one session"""


def _mk_server_session(w, log, keep):
    class SS(asyncssh.SSHServerSession):
        def connection_made(self, chan):
            log.chan = chan
            log.append(('connection_made', 0))

        def exec_requested(self, command):
            log.append(('exec_requested', 0))
            return True

        def shell_requested(self):
            log.append(('shell_requested', 0))
            return True

        def session_started(self):
            log.append(('session_started', 0))

        def data_received(self, data, datatype):
            log.append(('data_received' if datatype is None
                        else 'ext_received', len(data)))
            log.rx += bytes(data)

        def eof_received(self):
            log.append(('eof_received', 0))
            return w.keep

        def terminal_size_changed(self, *a):
            log.append(('request_cb', 0))

        def connection_lost(self, exc):
            log.append(('connection_lost', type(exc).__name__ if exc else 0))
    return SS()


def _mk_client_session(w, log, keep):
    class CS(asyncssh.SSHClientSession):
        def connection_made(self, chan):
            log.chan = chan
            log.append(('connection_made', 0))

        def session_started(self):
            log.append(('session_started', 0))

        def data_received(self, data, datatype):
            log.append(('data_received' if datatype is None
                        else 'ext_received', len(data)))
            log.rx += bytes(data)

        def eof_received(self):
            log.append(('eof_received', 0))
            return w.keep

        def exit_status_received(self, status):
            log.append(('request_cb', 0))

        def connection_lost(self, exc):
            log.append(('connection_lost', type(exc).__name__ if exc else 0))
    return CS()


class World:
    """One endpoint under test + one raw peer on a fresh deterministic loop."""

    def __init__(self, role, keep=True, hold_open=False):
        self.role = role
        self.keep = keep
        self.hold_open = hold_open      # server: session_requested() returns a future
        self.loop = new_loop()
        self.loop.max_iterations = 200000
        self.logs = []                  # one Log per session, creation order
        self.lost = []                  # owner connection_lost arguments
        self.emitted = []               # (type, payload) written by the endpoint
        self.ep = None                  # endpoint connection under test
        self.raw = None
        self.open_futs = []
        self.creates = []               # client: create_session tasks
        self.spin = None
        w = self

        def new_log():
            log = Log()
            log.rx = bytearray()
            log.chan = None
            w.logs.append(log)
            return log

        self.new_log = new_log

        def sink(name, f):
            if name == 'pkt_out' and f.get('conn') is w.ep and \
                    f['pkttype'] != 2:
                w.emitted.append((f['pkttype'], bytes(f['payload'])))

        _verif.set_sink(sink)
        if role == 'server':
            self._start_server()
        else:
            self._start_client()

    # ---- set-up ----
    def _start_server(self):
        w = self

        class Srv(asyncssh.SSHServer):
            def connection_made(self, conn):
                w.ep = conn

            def connection_lost(self, exc):
                w.lost.append(exc)

            def begin_auth(self, username):
                return False

            def session_requested(self):
                sess = _mk_server_session(w, w.new_log(), w.keep)
                if w.hold_open:
                    fut = w.loop.create_future()
                    w.open_futs.append((fut, sess))
                    return fut
                return sess

        async def go():
            self.acc = await asyncssh.listen(
                '127.0.0.1', 2222, server_factory=Srv,
                server_host_keys=[hostkey()], encoding=None, window=W,
                max_pktsize=P)
            self.raw = await rawpeer.raw_connect('127.0.0.1', 2222)
            self.raw.raw_send(50, rawpeer.userauth_request('u', 'none'))

        self.loop.run_until_complete(go())
        self.loop.run_until_idle()
        self.raw.take()
        self.emitted.clear()

    def _start_client(self):
        w = self

        class Cli(asyncssh.SSHClient):
            def connection_lost(self, exc):
                w.lost.append(exc)

        def on_conn(conn):
            w.raw = conn

            def on_packet(t, payload):
                if t == 5:
                    conn.raw_send(6, String(b'ssh-userauth'))
                elif t == 50:
                    conn.raw_send(52, b'')
            conn.on_packet = on_packet

        async def go():
            self.acc = await rawpeer.raw_listen(
                '127.0.0.1', 2222, on_conn, server_host_keys=[hostkey()])
            self.ep = await asyncssh.connect(
                '127.0.0.1', 2222, known_hosts=None, config=None,
                client_keys=None, username='u', client_factory=Cli)

        self.loop.run_until_complete(go())
        self.loop.run_until_idle()
        self.raw.take()
        self.emitted.clear()

    # ---- running ----
    def step(self, fn=None, *args, watchdog=3.0):
        """Run fn(*args) as a loop callback, then run to idle under a
        CPU-time watchdog."""
        old = signal.signal(signal.SIGVTALRM, _alarm)
        signal.setitimer(signal.ITIMER_VIRTUAL, watchdog)
        out = 'ok'
        try:
            if fn is not None:
                self.loop.call_soon(fn, *args)
            self.loop.run_until_idle()
        except Watchdog:
            out = 'spin'
        except Spin:
            out = 'spin-iterations'
        finally:
            signal.setitimer(signal.ITIMER_VIRTUAL, 0)
            signal.signal(signal.SIGVTALRM, old)
        for c in list(self.loop.exceptions):
            if isinstance(c.get('exception'), Watchdog):
                self.loop.exceptions.remove(c)
                out = 'spin'
        if out != 'ok':
            self.spin = out
        return out

    def send(self, *pkts):
        """the raw peer sends these packets in ONE write burst (they arrive
        in one data_received call)"""
        def burst():
            for t, body in pkts:
                self.raw.raw_send(t, body)
        return self.step(burst)

    def app(self, fn, *args):
        """an application-side call on the endpoint under test"""
        res = {}

        def call():
            try:
                res['value'] = fn(*args)
            except Exception as exc:    # pylint: disable=broad-except
                res['error'] = exc
        self.step(call)
        return res

    # ---- channels ----
    def open_channel(self, rawch=RAWCH, start=True, confirm=True):
        """a new session channel of the endpoint under test; returns its
        Log (log.chan is the real channel once the session is attached) and
        the endpoint's channel number"""
        n0 = len(self.logs)
        if self.role == 'server':
            self.send((90, String(b'session') + UInt32(rawch) + UInt32(0) +
                       UInt32(32768)))
            if self.hold_open:
                return self.logs[n0], None
            conf = [p for t, p in self.raw.take() if t == 91]
            pc = int.from_bytes(conf[0][5:9], 'big')
            log = self.logs[n0]
            if start:
                self.send((98, UInt32(pc) + String(b'exec') + Boolean(True) +
                           String(b'cmd')))
                self.raw.take()
            return log, pc
        # client: the application calls create_session()
        log = self.new_log()
        log.create = 'pending'

        async def create():
            try:
                await self.ep.create_session(
                    lambda: _mk_client_session(self, log, self.keep), 'cmd',
                    window=W, max_pktsize=P, encoding=None)
                log.create = 'ok'
            except asyncssh.ChannelOpenError:
                log.create = 'err'
            except asyncssh.Error as exc:
                log.create = 'err:' + type(exc).__name__

        def begin():
            self.creates.append(asyncio.ensure_future(create()))
        self.step(begin)
        opens = [p for t, p in self.raw.take() if t == 90]
        pc = int.from_bytes(opens[-1][1 + 4 + 7:1 + 4 + 7 + 4], 'big')
        log.pc = pc
        if confirm:
            self.send((91, UInt32(pc) + UInt32(rawch) + UInt32(0) +
                       UInt32(32768)))
            if start:
                self.send((99, UInt32(pc)))
            self.raw.take()
        return log, pc

    def the_chan(self, pc):
        return self.ep._channels.get(pc)

    def project(self, pc):
        """abstract state of channel number pc of the endpoint"""
        ch = self.ep._channels.get(pc) if self.ep._channels else None
        if ch is None:
            return None
        rd = ch._recv_paused
        return {'rs': ch._recv_state, 'ss': ch._send_state,
                'rd': 'starting' if rd == 'starting' else
                      'paused' if rd else 'reading',
                'buf': [len(d) for d, _ in ch._recv_buf],
                'nsend': len(ch._send_buf),
                'req': bool(ch._request_waiters),
                'swin': ch._send_window, 'rwin': ch._recv_window}

    def ended(self):
        return bool(self.lost)

    def stop(self):
        _verif.set_sink(None)
        try:
            if self.role == 'client':
                self.ep.abort()
            self.raw.abort()
            self.acc.close()
            self.loop.run_until_idle()
        except BaseException:           # pylint: disable=broad-except
            pass
        try:
            for t in asyncio.all_tasks(self.loop):
                t.cancel()
            self.loop.run_until_idle()
        except BaseException:           # pylint: disable=broad-except
            pass
        close_loop(self.loop)


# ---------------------------------------------------------------------------
# rows of the decision table -> real runs
# ---------------------------------------------------------------------------

class SetupError(Exception):
    """the state class of a row could not be reached (machinery problem)"""


def _data(pc, n, byte=ROGUE):
    return 94, UInt32(pc) + String(byte * n)


def build_msg(row, pc, avail):
    """(type, body) of the message under test, for endpoint channel pc"""
    m, role = row['msg'], row['role']
    U, S, B = UInt32, String, Boolean
    if m == 'DATA_ZERO':
        return _data(pc, 0)
    if m == 'DATA_SMALL':
        return _data(pc, 1)
    if m == 'DATA_MAXPKT':
        return _data(pc, P)
    if m == 'DATA_BIGPKT':
        return _data(pc, P + 1)
    if m == 'DATA_EXACT':
        return _data(pc, avail)
    if m == 'DATA_OVER':
        return _data(pc, avail + 1)
    if m == 'DATA_TRAIL':
        return 94, U(pc) + S(ROGUE) + b'\xff'
    if m == 'EXT_STDERR':
        return 95, U(pc) + U(1) + S(ROGUE)
    if m == 'EXT_BADTYPE':
        return 95, U(pc) + U(2) + S(ROGUE)
    if m == 'EXT_OVER':
        return 95, U(pc) + U(1) + S(ROGUE * (avail + 1))
    if m == 'EOF':
        return 96, U(pc)
    if m == 'EOF_TRAIL':
        return 96, U(pc) + b'\x00'
    if m == 'CLOSE':
        return 97, U(pc)
    if m == 'ADJ_ONE':
        return 93, U(pc) + U(1)
    if m == 'ADJ_ALL':
        return 93, U(pc) + U(8)
    if m == 'ADJ_OVERFLOW':
        return 93, U(pc) + U(0xffffffff)
    if m.startswith('REQ_KNOWN'):
        want = B(m.endswith('_R'))
        if role == 'server':
            return 98, U(pc) + S(b'window-change') + want + U(80) + U(24) + \
                U(0) + U(0)
        return 98, U(pc) + S(b'exit-status') + want + U(3)
    if m.startswith('REQ_UNKNOWN'):
        return 98, U(pc) + S(b'bogus@x07') + B(m.endswith('_R'))
    if m == 'REQ_START':
        return 98, U(pc) + S(b'exec') + B(True) + S(b'again')
    if m == 'REQ_BADNAME':
        return 98, U(pc) + S(b'\xff\xfe') + B(True)
    if m == 'SUCCESS':
        return 99, U(pc)
    if m == 'FAILURE':
        return 100, U(pc)
    if m == 'OPEN_CONF':
        return 91, U(pc) + U(RAWCH) + U(0) + U(32768)
    if m == 'OPEN_FAIL':
        return 92, U(pc) + U(2) + S(b'no') + S(b'')
    if m == 'UNKNOWN_TYPE':
        return 101, U(pc)
    if m == 'TRUNC':
        return 94, b'\x00\x00'
    raise ValueError(m)


def _reach_known(w, row, rnd):
    """Drive a fresh channel of w into the state class of row, through the
    public API on the application side and honest messages on the peer's
    side; where several ways lead to the same class rnd picks one."""
    role, rs, ss, rd = row['role'], row['rs'], row['ss'], row['rd']
    buf = row['buf']
    locally_closed = ss in ('close_pending', 'closed') and \
        rs != 'close_pending'
    # an EOF can be parked on a server channel that was never started
    # (not for REQ_START: there "reading" has to mean "was started")
    unstarted = locally_closed and rs == 'eof_pending' and \
        role == 'server' and row['msg'] != 'REQ_START' and \
        rnd.random() < 0.5
    log, pc = w.open_channel(start=rd != 'starting' and not unstarted)
    ch = log.chan
    eof = (96, UInt32(pc))

    def send_side():
        # whatever the send state was, the peer's CLOSE closes it
        pick = rnd.choice(['open', 'eof', 'eof_pending']) \
            if rs == 'close_pending' else ss
        if pick == 'eof_pending':
            w.app(ch.write, b'x')
            w.app(ch.write, b'y')
        if pick in ('eof_pending', 'eof'):
            w.app(ch.write_eof)

    def recv_side():
        if buf:
            w.send(_data(pc, 1, PARKED))
        if rs in ('eof_pending', 'eof') or \
                (rs == 'close_pending' and rnd.random() < 0.5):
            w.send(eof)

    if locally_closed:
        # the receive side first: an EOF is parked / delivered before close()
        if rs == 'eof_pending':
            if unstarted:
                if rnd.random() < 0.5:
                    w.send(_data(pc, 1, PARKED))
                w.send(eof)
            else:
                w.app(ch.pause_reading)
                w.send(_data(pc, 1, PARKED))
                w.send(eof)
        elif rs == 'eof':
            w.send(eof)
        elif rnd.random() < 0.3:
            w.app(ch.pause_reading)
            if rnd.random() < 0.5:
                w.send(_data(pc, 1, PARKED))
        if ss == 'close_pending':
            w.app(ch.write, b'x')
            w.app(ch.write, b'y')
            w.app(ch.close)
        elif rnd.random() < 0.3:
            w.app(ch.write, b'x')       # unsent data thrown away by abort()
            w.app(ch.abort)
        else:
            w.app(rnd.choice([ch.close, ch.abort]))
        return log, pc
    if rd == 'paused':
        if rs == 'eof' and rnd.random() < 0.5:
            w.send(eof)                 # delivered, then paused
            w.app(ch.pause_reading)
            send_side()
            return log, pc
        w.app(ch.pause_reading)
    if rnd.random() < 0.5:
        send_side()
        recv_side()
    else:
        recv_side()
        send_side()
    if rs == 'close_pending':
        w.send((97, UInt32(pc)))
    return log, pc


def _names(emitted, rawch_ok):
    """emitted packets -> [(NAME, n)]; rawch_ok collects recipient numbers"""
    out = []
    for t, p in emitted:
        name = NAMES.get(t, f'T{t}')
        n = 0
        if 93 <= t <= 100:
            rawch_ok.append(int.from_bytes(p[1:5], 'big'))
        if t == 93:
            n = int.from_bytes(p[5:9], 'big')
        elif t == 94:
            n = int.from_bytes(p[5:9], 'big')
        elif t == 95:
            n = int.from_bytes(p[9:13], 'big')
        elif t == 1:
            n = int.from_bytes(p[1:5], 'big')
        out.append((name, n))
    return out


def run_row(row, pred, seed=0):
    """Materialise one row of the table against the real code.
    pred: the table's entry {'o': outcome record, 'later': [...], 'honest'}.
    Returns dict(obs=..., violations=[(clause, text)], divergences=[...],
    skipped=reason or None)."""
    import random
    rnd = random.Random(f'{seed}/{sorted(row.items())}')
    role, chan = row['role'], row['chan']
    o = pred['o']
    res = {'violations': [], 'divergences': [], 'skipped': None, 'obs': {}}
    w = World(role, keep=True)
    try:
        by = None            # bystander session (must hear nothing)
        old = None           # the session of a cleaned channel
        if chan == 'known':
            log, pc = _reach_known(w, row, rnd)
        elif chan == 'never':
            by, _ = w.open_channel()
            log, pc = None, NEVER
        elif chan in ('cleaned', 'reused'):
            by, _ = w.open_channel()
            old, pc = w.open_channel(rawch=RAWCH + 1)
            if rnd.random() < 0.5:
                w.app(old.chan.close)
                w.send((97, UInt32(pc)))
            else:
                w.send((97, UInt32(pc)))
            if w.project(pc) is not None or \
                    old[-1] != ('connection_lost', 0):
                raise SetupError(f'channel not cleaned: {list(old)}')
            log = None
            if chan == 'reused':
                # numbers only come round again after 2^32 opens: force it
                w.ep._next_recv_chan = pc
                log, pc2 = w.open_channel(rawch=RAWCH + 2)
                if pc2 != pc:
                    raise SetupError('number not reused')
        elif chan == 'closing':
            by, _ = w.open_channel()
            log, pc = w.open_channel(rawch=RAWCH + 1)
        elif chan == 'opening':
            by, _ = w.open_channel()
            if role == 'server':
                w.hold_open = True
                before = set(w.ep._channels)
                log, _ = w.open_channel(rawch=RAWCH + 1)
                new = set(w.ep._channels) - before
                if len(new) != 1:
                    raise SetupError('no channel being opened')
                pc = new.pop()
            else:
                log, pc = w.open_channel(rawch=RAWCH + 1, confirm=False)
        else:
            raise ValueError(chan)
        if w.ended() or w.loop.exceptions or w.spin:
            raise SetupError(f'set-up failed: {w.lost} {w.loop.exceptions} '
                             f'{w.spin}')
        pre = w.project(pc)
        if chan == 'known':
            want = {'rs': row['rs'], 'ss': row['ss'], 'rd': row['rd'],
                    'buf': [1] if row['buf'] else [],
                    'nsend': 2 if row['ss'] in ('eof_pending',
                                                'close_pending') else 0,
                    'req': row['req'], 'swin': 0, 'rwin': W}
            if pre != want:
                raise SetupError(f'state class not reached: {pre} != {want}')
        avail = W - (1 if row['buf'] and chan == 'known' else 0)
        t, body = build_msg(row, pc, avail)
        for lg in w.logs:
            lg.mark = len(lg)
            lg.rxmark = len(lg.rx)
        w.emitted.clear()
        _set_keep(w, row['keep'])
        # ---- the message ----
        if chan == 'closing':
            out = w.send((97, UInt32(pc)), (t, body))
        else:
            out = w.send((t, body))
        recips = []
        emitted = _names(w.emitted, recips)
        cbs = [list(x) for x in log[log.mark:]] if log is not None else []
        ended = w.ended()
        exc = w.lost[0] if w.lost else None
        disc = [n for name, n in emitted if name == 'DISCONNECT']
        emitted = [[a, b] for a, b in emitted if a != 'DISCONNECT']
        if ended and isinstance(exc, asyncssh.ProtocolError) and disc == [2]:
            cls = 'protocol_error'
        elif ended:
            cls = 'ended:' + (type(exc).__name__ if exc else 'None')
        elif ['UNIMPLEMENTED', 0] in emitted:
            cls = 'unimpl'
        else:
            cls = 'no_error'
        post = w.project(pc) if not ended else None
        obs = {'cls': cls, 'cb': cbs, 'out': emitted, 'post': post,
               'run': out, 'create': getattr(log, 'create', 'none')
               if log is not None else 'none',
               'loop_exceptions': [repr(c.get('exception') or c.get('message'))
                                   for c in w.loop.exceptions]}
        res['obs'] = obs
        V = res['violations']
        D = res['divergences']
        # ---- L1 monitors (observations only) ----
        if out != 'ok':
            V.append(('NoSpin', f'the endpoint did not come to rest: {out}'))
        if obs['loop_exceptions']:
            V.append(('NoLoopException', 'an exception reached the event '
                      f'loop: {obs["loop_exceptions"][0]}'))
        rogue_rx = [bytes(lg.rx[lg.rxmark:]) for lg in w.logs]
        peer_sent = 'none' if row['rs'] == 'open' else \
            'eof' if row['rs'] in ('eof_pending', 'eof') else 'close'
        if chan == 'known' and peer_sent != 'none':
            if any(ROGUE in r for r in rogue_rx):
                V.append(('NothingPastEof', f'data sent after the peer\'s '
                          f'{peer_sent.upper()} reached a session'))
            if any(c[0] == 'eof_received' for c in cbs) and \
                    row['rs'] != 'eof_pending':
                V.append(('NothingPastEof', 'a second eof_received'))
        if chan in ('never', 'cleaned', 'closing', 'opening') and \
                not pred['honest']:
            if any(ROGUE in r for r in rogue_rx):
                V.append(('UnknownChannel', 'data for a channel that is not '
                          'open reached a session'))
        if chan in ('never', 'cleaned') and cls != 'protocol_error':
            V.append(('UnknownChannel', f'a message for a channel that does '
                      f'not exist did not end the connection with a protocol '
                      f'error: {cls}'))
        for other in [by, old]:
            if other is None:
                continue
            extra = [x for x in other[other.mark:]
                     if x != ('connection_lost', 'ProtocolError')]
            if extra or (not ended and len(other) != other.mark):
                V.append(('Bystander', f'a session of ANOTHER channel was '
                          f'told {other[other.mark:]}'))
        if pred['honest'] and ended:
            V.append(('HonestAccepted', f'a message an honest peer may send '
                      f'in this state ended the connection: {exc!r}'))
        if row['msg'] in ('SUCCESS', 'FAILURE') and \
                any(a in ('SUCCESS', 'FAILURE') for a, _ in emitted):
            V.append(('NoReplyUnsolicited', f'a reply was answered: '
                      f'{emitted}'))
        if any(r != (RAWCH if chan == 'known' else r) for r in recips) and \
                chan == 'known':
            V.append(('Recipient', f'packets for recipient channels '
                      f'{recips}, the peer\'s channel is {RAWCH}'))
        # ---- the reaction is the table's ----
        exp_cls = o['cls'] if o['cls'] in ('protocol_error', 'unimpl') \
            else 'no_error'
        if o['why'] == 'start_refused' and \
                ['session_started', 0] in cbs:
            V.append(('StartOnce', 'a second exec request on a started '
                      'channel was handed to the application again: '
                      f'session heard {cbs} (RFC 4254 6.5: only one of '
                      'shell / exec / subsystem can succeed per channel)'))
        elif cls != exp_cls:
            V.append(('Reaction', f'table: {o["cls"]} ({o["why"]}); the '
                      f'endpoint: {cls} ({exc!r})'))
        elif log is not None:
            exp_cb = [list(x) for x in o['cb']]
            exp_out = [list(x) for x in o['out']]
            if o['cls'] == 'protocol_error':
                exp_cb = [['connection_lost', 'ProtocolError']]
                exp_out = []
            if chan == 'closing' or (chan == 'opening' and
                                     o['cls'] != 'accept'):
                # the clean-up of the half-closed channel / the waiting
                # open is not part of the table
                exp_cb = None
            if exp_cb is not None and cbs != exp_cb:
                V.append(('Reaction', f'session callbacks {cbs}, table '
                          f'({o["why"]}): {exp_cb}'))
            elif chan != 'closing' and emitted != exp_out:
                V.append(('Reaction', f'packets emitted {emitted}, table '
                          f'({o["why"]}): {exp_out}'))
            elif o['cls'] != 'protocol_error' and \
                    o['create'] != 'none' and obs['create'] != o['create']:
                V.append(('Reaction', f'create_session(): {obs["create"]}, '
                          f'table: {o["create"]}'))
        # projection of the state afterwards (conformance)
        if cls == exp_cls and o['cls'] != 'protocol_error' and \
                chan in ('known', 'reused'):
            if o['gone']:
                if post is not None:
                    D.append(f'channel still registered: {post}')
            elif post is None:
                D.append('channel gone, table keeps it')
            else:
                exp = {k: o[k] for k in ('rs', 'ss', 'rd', 'nsend', 'req',
                                         'rwin')}
                exp['buf'] = [n for _, n in o['buf']]
                if not o['wover']:
                    exp['swin'] = o['swin']
                got = {k: post[k] for k in exp}
                if got != exp:
                    D.append(f'state after: {got}, table: {exp}')
        # ---- afterwards: the application resumes reading ----
        if not ended and chan in ('known', 'reused') and post is not None \
                and post['rd'] != 'reading' and log.chan is not None:
            m2 = len(log)
            w.app(log.chan.resume_reading)
            later = [list(x) for x in log[m2:]]
            obs['later'] = later
            if any(ROGUE in bytes(lg.rx[lg.rxmark:]) for lg in w.logs) and \
                    peer_sent != 'none' and chan == 'known':
                V.append(('NothingPastEof', f'data sent after the peer\'s '
                          f'{peer_sent.upper()} reached a session when '
                          f'reading was resumed'))
            if w.loop.exceptions:
                V.append(('NoLoopException', 'an exception reached the '
                          'event loop after resume_reading(): ' +
                          repr(w.loop.exceptions[0].get('exception'))))
            if cls == exp_cls and later != [list(x) for x in pred['later']] \
                    and not V:
                V.append(('Reaction', f'after resume_reading() the session '
                          f'heard {later}, table: {pred["later"]}'))
        # ---- epilogue: the peer closes the channel ----
        epi = pred.get('epi') or {'cls': 'none'}
        if epi['cls'] != 'none' and not w.ended() and cls == exp_cls:
            m3 = len(log)
            w.emitted.clear()
            w.send((97, UInt32(pc)))
            ecb = [list(x) for x in log[m3:]]
            eout = [[a, b] for a, b in _names(w.emitted, [])]
            obs['epi'] = {'cb': ecb, 'out': eout,
                          'create': getattr(log, 'create', 'none')}
            if w.ended() or w.project(pc) is not None or \
                    ecb != [['connection_lost', 0]]:
                V.append(('ClosesCleanly', f'the peer\'s CLOSE afterwards '
                          f'did not end the channel in order: session heard '
                          f'{ecb}, connection ended: {w.lost!r}, channel '
                          f'still there: {w.project(pc) is not None}'))
            elif eout != [list(x) for x in epi['out']]:
                V.append(('ClosesCleanly', f'after the peer\'s CLOSE the '
                          f'endpoint emitted {eout}, table: {epi["out"]}'))
            elif epi['create'] != 'none' and \
                    obs['epi']['create'] != epi['create']:
                V.append(('Reaction', f'create_session() after the CLOSE: '
                          f'{obs["epi"]["create"]}, table: {epi["create"]}'))
            if w.loop.exceptions and not any(c == 'NoLoopException'
                                             for c, _ in V):
                V.append(('NoLoopException', 'an exception reached the '
                          'event loop after the closing CLOSE: ' +
                          repr(w.loop.exceptions[0].get('exception'))))
        # session language: nothing after connection_lost, no data after eof
        for lg in w.logs:
            names = [x[0] for x in lg]
            if 'connection_lost' in names and \
                    names.index('connection_lost') != len(names) - 1:
                V.append(('SessionOrder', f'callbacks after connection_lost: '
                          f'{names}'))
            if 'eof_received' in names and any(
                    n in ('data_received', 'ext_received')
                    for n in names[names.index('eof_received'):]):
                V.append(('SessionOrder', f'data after eof_received: '
                          f'{names}'))
        if V:
            D.clear()       # one report per row
        return res
    except SetupError as exc:
        res['skipped'] = str(exc)
        return res
    finally:
        w.stop()


def _set_keep(w, keep):
    w.keep = keep


# ---------------------------------------------------------------------------
# self-test: deliberately wrong copies of the real handlers
# ---------------------------------------------------------------------------

def _mutate(cls, name, old, new):
    """replace cls.name by a copy whose source has old -> new (also in the
    packet handler table); returns the undo function"""
    import inspect
    import textwrap
    fn = cls.__dict__[name]
    src = textwrap.dedent(inspect.getsource(fn))
    if old not in src:
        raise SetupError(f'mutant: {old!r} not in {cls.__name__}.{name}')
    ns = {}
    exec(compile(src.replace(old, new), f'<mutant {name}>', 'exec'),  # pylint: disable=exec-used
         fn.__globals__, ns)
    newfn = ns[name]
    handlers = cls.__dict__.get('_packet_handlers', {})
    keys = [k for k, v in handlers.items() if v is fn]
    setattr(cls, name, newfn)
    for k in keys:
        handlers[k] = newfn

    def undo():
        setattr(cls, name, fn)
        for k in keys:
            handlers[k] = fn
    return undo


def apply_mutant(name):
    from asyncssh.channel import SSHChannel
    from asyncssh.connection import SSHConnection
    C = SSHChannel
    table = {
        'data_after_eof': (C, '_process_data', "self._recv_state != 'open'",
                           "self._recv_state not in {'open', 'eof'}"),
        'data_after_eof_pending': (
            C, '_process_data', "self._recv_state != 'open'",
            "self._recv_state not in {'open', 'eof_pending'}"),
        'adjust_open_only': (
            C, '_process_window_adjust',
            "self._recv_state not in {'open', 'eof_pending', 'eof'}",
            "self._recv_state != 'open'"),
        'unknown_chan_ignored': (
            SSHConnection, '_recv_packet',
            "exc_reason = f'Invalid channel number {recv_chan} received'",
            "exc_reason = ''"),
        'unsolicited_ignored': (
            C, '_process_response',
            "raise ProtocolError('Unexpected channel response')", 'pass'),
        'no_drop_after_close': (
            C, '_accept_data',
            "if self._send_state in {'close_pending', 'closed'}:",
            'if False:'),
        'eof_twice': (C, '_process_eof', "self._recv_state != 'open'",
                      "self._recv_state not in {'open', 'eof'}"),
        'close_after_close': (
            C, '_process_close',
            "self._recv_state not in {'open', 'eof_pending', 'eof'}",
            "self._recv_state == 'closed'"),
        'window_off_by_one': (
            C, '_process_data',
            'datalen > self._recv_window - self._recv_buf_len',
            'datalen > self._recv_window - self._recv_buf_len + 1'),
        'request_after_close': (
            C, '_process_request',
            "self._recv_state not in {'open', 'eof_pending', 'eof'}",
            "self._recv_state == 'closed'"),
        'no_reply_close_pending': (
            C, '_report_response',
            "want_reply and self._send_state != 'closed'",
            "want_reply and self._send_state not in {'closed', "
            "'close_pending'}"),
        'no_credit_closing': (
            C, '_accept_data', "if self._send_state == 'close_pending':",
            'if False:'),
        'eof_while_paused_lost': (
            C, '_flush_recv_buf', "self._recv_paused != 'starting'",
            'not self._recv_paused'),
    }
    return _mutate(*table[name])


# (mutant, messages to try, clauses of which one must fire)
MUTANTS = [
    ('data_after_eof', ['DATA_SMALL'], ['NothingPastEof']),
    ('data_after_eof_pending', ['DATA_SMALL', 'DATA_EXACT'],
     ['NothingPastEof']),
    ('adjust_open_only', ['ADJ_ONE', 'ADJ_ALL'], ['HonestAccepted']),
    ('unknown_chan_ignored', ['DATA_SMALL', 'EOF', 'SUCCESS'],
     ['UnknownChannel']),
    ('unsolicited_ignored', ['SUCCESS', 'FAILURE'], ['Reaction']),
    ('no_drop_after_close', ['DATA_SMALL', 'EXT_STDERR'], ['Reaction']),
    ('eof_twice', ['EOF'], ['NothingPastEof']),
    ('close_after_close', ['CLOSE'], ['Reaction']),
    ('window_off_by_one', ['DATA_OVER'], ['Reaction']),
    ('request_after_close', ['REQ_KNOWN_R', 'REQ_UNKNOWN_N'], ['Reaction']),
    ('no_reply_close_pending', ['REQ_KNOWN_R', 'REQ_UNKNOWN_R'],
     ['Reaction']),
    ('eof_while_paused_lost', ['EOF'], ['Reaction']),
    ('no_credit_closing', ['DATA_SMALL', 'DATA_EXACT'], ['Reaction']),
]


def mutant_relevant(name, row):
    """rows on which the wrong rule differs from the right one"""
    if row['chan'] != 'known':
        return name == 'unknown_chan_ignored' and \
            row['chan'] in ('never', 'cleaned')
    rs, ss, rd = row['rs'], row['ss'], row['rd']
    return {
        'data_after_eof': rs == 'eof' and ss in ('open', 'eof'),
        'data_after_eof_pending': rs == 'eof_pending' and
        ss in ('open', 'eof'),
        'adjust_open_only': rs in ('eof', 'eof_pending'),
        'unknown_chan_ignored': False,
        'unsolicited_ignored': not row['req'],
        'no_drop_after_close': rs == 'open' and
        ss in ('closed', 'close_pending'),
        'eof_twice': rs == 'eof',
        'close_after_close': rs == 'close_pending',
        'window_off_by_one': rs == 'open',
        'request_after_close': rs == 'close_pending',
        'no_reply_close_pending': ss == 'close_pending',
        'eof_while_paused_lost': rs == 'open' and rd == 'paused' and
        not row['buf'],
        'no_credit_closing': rs == 'open' and ss == 'close_pending',
    }[name]
