"""Driver for specs/SftpIO/FileObj.tla: behaviours of the SFTPClientFile
state machine (open mode, then read / write / seek / tell / truncate / stat
in any order) chosen by TLC are run on a real SFTPClientFile against
asyncssh's own SFTP server (real file in a chroot), in binary mode and in
text mode with encodings whose encoded length differs from the character
count (utf-8 with 2-, 3- and 4-byte characters, utf-16 / utf-32 with and
without a byte-order mark).

Verdict: every returned value and the bytes of the real file are compared
with RefFile, a plain byte-level file written here (Python file semantics;
an explicit offset = seek there first; a read that returns nothing does not
move).  Conformance: RefFile against what TLC predicted.
"""

import os
import shutil

import asyncssh

NONE = -1


class RefFile:
    """Reference: bytes + one position"""

    def __init__(self, content, mode):
        self.mode = mode
        self.readable = mode in ('r', 'r+', 'w+', 'a+')
        self.writable = mode != 'r'
        self.append = mode in ('a', 'a+')
        self.data = bytearray(b'' if mode in ('w', 'w+') else content)
        self.pos = len(self.data) if self.append else 0

    def read(self, size, off):
        if not self.readable:
            return 'error'
        s = self.pos if off == NONE else off
        n = len(self.data) - s if size < 0 else size
        d = bytes(self.data[s:s + n]) if n > 0 else b''
        if d:
            self.pos = s + len(d)
        return d

    def write(self, b, off):
        if not self.writable:
            return 'error'
        if self.append:
            self.data += b
            self.pos = len(self.data)
        else:
            s = self.pos if off == NONE else off
            if len(self.data) < s:
                self.data += bytes(s - len(self.data))
            self.data[s:s + len(b)] = b
            self.pos = s + len(b)
        return len(b)

    def seek(self, k, whence):
        self.pos = k if whence == 0 else self.pos + k if whence == 1 \
            else len(self.data) + k
        return self.pos

    def truncate(self, size):
        if not self.writable:
            return 'error'
        t = self.pos if size == NONE else size
        if t <= len(self.data):
            del self.data[t:]
        else:
            self.data += bytes(t - len(self.data))
        return 'ok'


def alphabet(W, bom, rnd):
    """(encoding or None, function index -> character / byte)"""
    if bom == 2:
        return 'utf-16', lambda i: chr(0x100 + i)
    if bom == 4:
        return 'utf-32', lambda i: chr(0x100 + i)
    if W == 1:
        enc = rnd.choice([None, 'utf-8', 'latin-1'])
        return enc, lambda i: chr(ord('A') + i % 50)
    if W == 2:
        enc = rnd.choice(['utf-8', 'utf-16-le'])
        return enc, lambda i: chr(0xe0 + i % 30)
    if W == 3:
        return 'utf-8', lambda i: chr(0x20ac + i)
    enc = rnd.choice(['utf-8', 'utf-32-le'])
    return enc, lambda i: chr(0x1f600 + i)


def split_behaviour(steps):
    st0 = steps[0][1]
    case = {'W': st0['W'], 'bom': st0['bom'], 'mode': st0['mode'],
            'existed': st0['existed']}
    ops = []
    for lbl, st in steps[1:]:
        if lbl[0] == 'init':
            break
        ops.append((tuple(lbl), st['ret'], st['srv']))
        if st['open_'] == 'failed':
            break
    return case, ops


def run_behaviour(w, idx, case, ops, rnd):
    """w: sftp_tree.TreeWorld.  Returns dict(l1, diverged, trace)"""
    loop = w.loop
    W, bom, mode = case['W'], case['bom'], case['mode']
    enc, ch = alphabet(W, bom, rnd)
    block = rnd.choice([-1, 4, 4])
    errors = rnd.choice(['strict', 'strict', 'replace'])
    res = {'case': case, 'encoding': enc, 'block': block, 'l1': [],
           'diverged': None, 'trace': [],
           'ops': [list(o[0]) for o in ops]}
    d = os.path.join(w.remote, f'o{idx}')
    os.makedirs(d)
    path = os.path.join(d, 'file')
    plain = enc.replace('utf-16', 'utf-16-le').replace('utf-32', 'utf-32-le') \
        .replace('-le-le', '-le') if enc else None

    def enc_text(i0, n, with_bom):
        text = ''.join(ch(i0 + j) for j in range(n))
        if enc is None:
            return text.encode('latin-1'), text.encode('latin-1')
        return text, text.encode(enc if with_bom else plain)

    init_bytes = enc_text(40, 2, False)[1]
    if case['existed']:
        with open(path, 'wb') as f:
            f.write(init_bytes)
    ref = RefFile(init_bytes if case['existed'] else b'', mode)
    sftp = w.sftp('chroot', rnd.choice([3, 4, 6]))
    rpath = '/' + os.path.relpath(path, w.remote)
    idmap = {0: 0}
    for i, b in enumerate(init_bytes):
        idmap[i + 1] = b
    f = None
    nwr = 0
    try:
        for lbl, mret, msrv in ops:
            what = ' '.join(str(x) for x in lbl)
            try:
                if lbl[0] == 'open':
                    f = loop.run_until_complete(sftp.open(
                        rpath, mode if enc else mode + 'b', encoding=enc,
                        errors=errors, block_size=block, max_requests=3))
                    got = 'ok'
                elif lbl[0] == 'read':
                    got = loop.run_until_complete(
                        f.read(lbl[1], None if lbl[2] == NONE else lbl[2]))
                elif lbl[0] == 'write':
                    nwr += 1
                    payload, raw = enc_text(nwr * 3, lbl[1], True)
                    for i, b in enumerate(raw):
                        idmap[100 * nwr + i + 1] = b
                    got = loop.run_until_complete(
                        f.write(payload, None if lbl[2] == NONE else lbl[2]))
                elif lbl[0] == 'seek':
                    got = loop.run_until_complete(f.seek(lbl[1], lbl[2]))
                elif lbl[0] == 'tell':
                    got = loop.run_until_complete(f.tell())
                elif lbl[0] == 'truncate':
                    loop.run_until_complete(
                        f.truncate(None if lbl[1] == NONE else lbl[1]))
                    got = 'ok'
                elif lbl[0] == 'stat':
                    got = loop.run_until_complete(f.stat()).size
                else:
                    raise ValueError(lbl)
            except (asyncssh.Error, OSError, UnicodeError) as e:
                got = 'error'
                res['exc'] = repr(e)
            except Exception as e:      # pylint: disable=broad-except
                # neither a value nor a documented error
                past_end = lbl[0] == 'read' and lbl[1] < 0 and \
                    isinstance(e, OverflowError)
                res['l1'].append((
                    'ReadPastEnd' if past_end else 'FileObject',
                    f'{what}: raised {type(e).__name__}: {e} (neither a '
                    f'value nor an SFTP / OS error); a byte-level file '
                    f'position={ref.pos} length={len(ref.data)}'))
                break
            except BaseException as e:  # pylint: disable=broad-except
                res['l1'].append(('Hang', f'{what}: {type(e).__name__}'))
                break
            # ---- the reference ----
            if lbl[0] == 'open':
                bad = (mode == 'x' and case['existed']) or \
                    (mode in ('r', 'r+') and not case['existed'])
                want = 'error' if bad else 'ok'
            elif lbl[0] == 'read':
                want = ref.read(lbl[1], lbl[2])
                if isinstance(want, bytes) and enc:
                    try:
                        want = want.decode(enc, errors)
                    except UnicodeError:
                        want = 'error'
            elif lbl[0] == 'write':
                want = ref.write(raw, lbl[2])
            elif lbl[0] == 'seek':
                want = ref.seek(lbl[1], lbl[2])
            elif lbl[0] == 'tell':
                want = ref.pos
            elif lbl[0] == 'truncate':
                want = ref.truncate(lbl[1])
            else:
                want = len(ref.data)
            res['trace'].append((what, got if not isinstance(got, (str, bytes))
                                 or got in ('ok', 'error') else repr(got)))
            if got != want:
                res['l1'].append(('FileObject', f'{what}: returned {got!r}, '
                                  f'a byte-level file gives {want!r}'))
                break
            if got == 'error' and lbl[0] == 'open':
                break
            loop.run_until_idle()
            real = open(path, 'rb').read() if os.path.exists(path) else b''
            if real != bytes(ref.data):
                res['l1'].append(('FileObject', f'after {what}: the file '
                                  f'holds {real!r}, a byte-level file '
                                  f'{bytes(ref.data)!r}'))
                break
            # ---- conformance: the reference against TLC's prediction ----
            try:
                mbytes = bytes(idmap[i] for i in msrv)
            except KeyError:
                mbytes = None
            mval = mret[1] if mret[0] == 'int' else mret[0]
            if mbytes != bytes(ref.data) or \
                    (mret[0] in ('int', 'error', 'ok') and mval != want and
                     not (mret[0] == 'ok' and want == 'ok')):
                res['diverged'] = (f'{what}: table says file={msrv} '
                                   f'ret={mret}, reference file='
                                   f'{bytes(ref.data)!r} ret={want!r}')
                break
        if f is not None:
            try:
                loop.run_until_complete(f.close())
            except (asyncssh.Error, OSError):
                pass
    finally:
        shutil.rmtree(d, ignore_errors=True)
    return res
