"""Driver for specs/SftpIO/SftpTree.tla: every (tree, flags) case printed by
TLC is materialised in real directories under /verif/.work and run through
the real SFTPClient (get / put / copy, their m* glob forms) against the real
asyncssh SFTP server on the deterministic loop; the destination is compared
with the table (conformance) and judged by monitors that only look at the
two real file systems and at what the call reported (verdict).

Server: asyncssh's SFTPServer with a chroot, except when symbolic links have
to be read back from the server (get / copy without follow_symlinks): the
chroot server resolves relative link texts against the process working
directory (readlink, sftp.py; noted in DESIGN section 3, F9), so those cases
use the same server class without chroot and absolute paths.
"""

import os
import shutil
import stat
import tempfile

import asyncssh

from harness import tlc
from harness.vloop import new_loop, close_loop
from harness.drivers.sftp_io import NoAuthServer

BYTES = {0: 0, 1: 5, 2: 23}
MTIME0 = 1_500_000_000
ORDER = ['f', 'd', 'd/g', 'd/k', 'l', 'm']
MODES = {'f': 0o640, 'd': 0o750, 'd/g': 0o604, '': 0o710}


def content(p, n):
    k = sum(p.encode()) % 97
    return bytes((k + 7 * i) % 251 + 1 for i in range(n))


class TreeWorld:
    _key = None

    def __init__(self):
        if TreeWorld._key is None:
            TreeWorld._key = asyncssh.generate_private_key('ssh-ed25519')
        os.makedirs(tlc.WORK, exist_ok=True)
        self.top = tempfile.mkdtemp(prefix='C12tree', dir=tlc.WORK)
        self.remote = os.path.join(self.top, 'remote')
        self.local = os.path.join(self.top, 'local')
        os.makedirs(self.remote)
        os.makedirs(self.local)
        self.loop = new_loop()
        self.sessions = {}
        self.loop.run_until_complete(self._start())

    async def _start(self):
        root = self.remote

        def chrooted(chan):
            return asyncssh.SFTPServer(chan, chroot=root.encode())

        self.acc = []
        self.conns = {}
        for name, port, fac in (('chroot', 2225, chrooted),
                                ('plain', 2226, asyncssh.SFTPServer)):
            self.acc.append(await asyncssh.listen(
                '127.0.0.1', port, server_factory=NoAuthServer,
                server_host_keys=[TreeWorld._key], sftp_factory=fac,
                sftp_version=6))
            self.conns[name] = await asyncssh.connect(
                '127.0.0.1', port, known_hosts=None, config=None,
                client_keys=None, username='u')

    def sftp(self, server, version):
        key = (server, version)
        if key not in self.sessions:
            self.sessions[key] = self.loop.run_until_complete(
                self.conns[server].start_sftp_client(sftp_version=version))
        return self.sessions[key]

    def close(self):
        try:
            for c in self.conns.values():
                c.abort()
            for a in self.acc:
                a.close()
            self.loop.run_until_idle()
        except BaseException:           # pylint: disable=broad-except
            pass
        close_loop(self.loop)
        shutil.rmtree(self.top, ignore_errors=True)


def build_source(root, nodes):
    """nodes: {path: (t, sz, txt)}"""
    os.makedirs(root)
    for p in ORDER:
        if p not in nodes:
            continue
        t, sz, txt = nodes[p]
        full = os.path.join(root, p)
        if t == 'file':
            with open(full, 'wb') as f:
                f.write(content(p, BYTES[sz]))
            os.chmod(full, MODES[p])
        elif t == 'dir':
            os.mkdir(full)
        else:
            os.symlink(txt, full)
    for i, p in enumerate(reversed(ORDER + [''])):
        full = os.path.join(root, p) if p else root
        if p and p not in nodes:
            continue
        t = nodes[p][0] if p else 'dir'
        if t == 'dir':
            os.chmod(full, MODES[p])
        os.utime(full, (MTIME0 + 5, MTIME0 + 1000 * (i + 1)),
                 follow_symlinks=False)


def build_pre(base, pre, fsize=0):
    if pre == 'none':
        return
    os.makedirs(base, exist_ok=True)
    if pre in ('big_f', 'small_f', 'same_f'):
        n = 40 if pre == 'big_f' else fsize if pre == 'same_f' else \
            max(fsize - 3, 1 if fsize == 0 else 0)
        with open(os.path.join(base, 'f'), 'wb') as f:
            f.write(b'\xee' * n)
    elif pre == 'dir_f':
        os.mkdir(os.path.join(base, 'f'))
    elif pre == 'file_d':
        with open(os.path.join(base, 'd'), 'wb') as f:
            f.write(b'old-d')
    elif pre == 'ent_l':
        with open(os.path.join(base, 'l'), 'wb') as f:
            f.write(b'old-l')


def snapshot(root):
    """{relpath: ('dir',) | ('file', bytes) | ('link', text)} (root = '')"""
    out = {}
    if not os.path.lexists(root):
        return out

    def add(full, rel):
        st = os.lstat(full)
        if stat.S_ISLNK(st.st_mode):
            out[rel] = ('link', os.readlink(full))
        elif stat.S_ISDIR(st.st_mode):
            out[rel] = ('dir',)
            for n in sorted(os.listdir(full)):
                add(os.path.join(full, n), f'{rel}/{n}' if rel else n)
        else:
            with open(full, 'rb') as f:
                out[rel] = ('file', f.read())

    add(root, '')
    return out


def real_scope(srcroot, starts, follow, recurse):
    """What a correct walk visits, from the REAL source tree only: returns
    (paths {rel: kind}, may_fail).  may_fail: some entry legitimately cannot
    be transferred (dangling link followed, directory without recurse)."""
    paths, may_fail = {}, False

    def visit(full, rel):
        nonlocal may_fail
        st = os.lstat(full)
        if stat.S_ISLNK(st.st_mode):
            if not follow:
                paths[rel] = 'link'
                return
            if not os.path.exists(full):
                may_fail = True
                return
            st = os.stat(full)
        if stat.S_ISDIR(st.st_mode):
            if not recurse:
                may_fail = True
                return
            paths[rel] = 'dir'
            for n in sorted(os.listdir(full)):
                visit(os.path.join(full, n), f'{rel}/{n}' if rel else n)
        else:
            paths[rel] = 'file'

    for full, rel in starts:
        visit(full, rel)
    return paths, may_fail


def run_case(w, idx, nodes, fl, out, errs, fatal, sparse=True, version=3):
    """One table case.  Returns dict(l1=[(clause, text)], diverged=str|None)"""
    loop = w.loop
    op, mode, pre = fl['op'], fl['mode'], fl['pre']
    follow, recurse = fl['follow'], fl['recurse']
    res = {'l1': [], 'diverged': None, 'fl': fl, 'nodes': nodes,
           'sparse': sparse, 'version': version}
    has_link = any(t == 'link' for t, _, _ in nodes.values())
    server = 'plain' if (has_link and not follow and op in ('get', 'copy')) \
        else 'chroot'
    res['server'] = server
    cdir = f'c{idx}'
    rdir = os.path.join(w.remote, cdir)
    ldir = os.path.join(w.local, cdir)
    os.makedirs(rdir)
    os.makedirs(ldir)
    src_side = ldir if op == 'put' else rdir
    dst_side = ldir if op == 'get' else rdir
    srcroot = os.path.join(src_side, 'src')
    dstroot = os.path.join(dst_side, 'dst')
    build_source(srcroot, nodes)
    if mode != 'dir_new':
        os.makedirs(dstroot)
    base = dstroot if mode != 'dir_into' else os.path.join(dstroot, 'src')
    fsize = BYTES[nodes['f'][1]] if nodes.get('f', ('', 0))[0] == 'file' else 7
    build_pre(base, pre, fsize)
    before = snapshot(base)
    progress = []

    def rpath(full):
        """how the client names a path on the server"""
        if server == 'chroot':
            return '/' + os.path.relpath(full, w.remote)
        return full

    sname = srcroot if op == 'put' else rpath(srcroot)
    dname = dstroot if op == 'get' else rpath(dstroot)
    sftp = w.sftp(server, version)
    reported = []
    kw = dict(recurse=recurse, follow_symlinks=follow,
              preserve=fl['preserve'], sparse=sparse, block_size=8,
              max_requests=3,
              error_handler=(reported.append if fl['handler'] else None))
    if fl.get('progress'):
        kw['progress_handler'] = lambda sp, dp, done, total: \
            progress.append((sp, dp, done, total))
    one = 'l' if 'l' in nodes else 'f' if 'f' in nodes else \
        sorted(p for p in nodes if '/' not in p)[0]
    if mode == 'glob':
        fn = {'get': sftp.mget, 'put': sftp.mput, 'copy': sftp.mcopy}[op]
        arg = sname + '/*'
    else:
        fn = {'get': sftp.get, 'put': sftp.put, 'copy': sftp.copy}[op]
        arg = sname + ('/' + one if mode == 'one' else '')
    exc = None
    try:
        loop.run_until_complete(fn(arg, dname, **kw))
    except (OSError, asyncssh.Error) as e:
        exc = e
    except BaseException as e:          # pylint: disable=broad-except
        res['l1'].append(('Hang', f'the call did not finish: '
                          f'{type(e).__name__}: {e}'))
        return res
    loop.run_until_idle()
    after = snapshot(base)
    res['raised'] = repr(exc) if exc else None
    rep = set()
    for e in reported:
        sp = getattr(e, 'srcpath', b'?')
        sp = sp.decode() if isinstance(sp, bytes) else str(sp)
        rel = os.path.relpath(sp, sname) if not sp.endswith('*') else '*'
        rep.add('' if rel == '.' else rel)
    res['reported'] = sorted(rep)
    any_error = bool(exc) or bool(rep)

    # ---- monitors on the two real file systems ----
    starts = [(srcroot, '')] if mode in ('dir_new', 'dir_into') else \
        [(os.path.join(srcroot, one), one)] if mode == 'one' else \
        [(os.path.join(srcroot, n), n) for n in sorted(os.listdir(srcroot))]
    scope, may_fail = real_scope(srcroot, starts, follow, recurse)
    conflict = pre in ('dir_f', 'file_d', 'ent_l')
    changed = {p: v for p, v in after.items() if before.get(p) != v}
    for rel, v in sorted(changed.items()):
        if rel not in scope and not (rel == '' and v == ('dir',)):
            res['l1'].append(('NoExtraneous', f'{rel!r} appeared at the '
                              f'destination but is not an entry of the '
                              f'source walk'))
            continue
        sfull = os.path.join(srcroot, rel) if rel else srcroot
        covered = exc is not None or any(
            rel == r or rel.startswith(r + '/') or r == '' for r in rep)
        if v[0] == 'file' and not covered:
            with open(sfull, 'rb') as f:
                want = f.read()
            if v[1] != want:
                res['l1'].append(('SizeFromTarget' if len(v[1]) != len(want)
                                  else 'TreeReproduced',
                                  f'file {rel!r}: destination has '
                                  f'{len(v[1])} bytes {v[1][:16]!r}, the '
                                  f'source object has {len(want)} bytes '
                                  f'{want[:16]!r}, and no error was '
                                  f'reported for it'))
        if v[0] == 'link':
            if follow:
                res['l1'].append(('TreeReproduced', f'{rel!r} was recreated '
                                  f'as a link although links are followed'))
            elif not os.path.islink(sfull) or os.readlink(sfull) != v[1]:
                res['l1'].append(('TreeReproduced', f'link {rel!r} -> '
                                  f'{v[1]!r} differs from the source'))
    # ResultEqualsSource: every file the walk covers holds the source's bytes
    # at the end, whether or not the call had to change it
    for rel, kind in sorted(scope.items()):
        if kind != 'file' or exc is not None or rel in changed or \
                any(rel == r or rel.startswith(r + '/') or r == ''
                    for r in rep):
            continue
        got = after.get(rel)
        if got is not None and got[0] == 'file':
            with open(os.path.join(srcroot, rel) if rel else srcroot,
                      'rb') as f:
                want = f.read()
            if got[1] != want:
                res['l1'].append(('ResultEqualsSource', f'file {rel!r}: the '
                                  f'destination still holds {len(got[1])} '
                                  f'bytes {got[1][:12]!r} from before the '
                                  f'call, the source has {len(want)} bytes, '
                                  f'and no error was reported'))
    if fl.get('progress') and not any_error:
        # the handler's reports: per file monotone, the last one complete,
        # at least one also for an empty file
        per = {}
        for sp, dp, done, total in progress:
            per.setdefault(sp, []).append((done, total))
        for rel, kind in sorted(scope.items()):
            if kind != 'file':
                continue
            sp = (sname + ('/' + rel if rel else '')).encode()
            size = os.path.getsize(os.path.join(srcroot, rel))
            reps = per.get(sp, [])
            ok = bool(reps) and reps[-1] == (size, size) and \
                all(a[0] <= b[0] for a, b in zip(reps, reps[1:]))
            if not ok:
                res['l1'].append(('ProgressReports', f'file {rel!r} of '
                                  f'{size} bytes: progress reports {reps}'))
    if not any_error:
        for rel, kind in sorted(scope.items()):
            got = after.get(rel)
            if got is None or got[0] != kind:
                res['l1'].append(('ErrorsReported', f'{rel!r} ({kind}) did '
                                  f'not arrive (destination has '
                                  f'{got[0] if got else "nothing"}) and no '
                                  f'error was reported'))
        if fl['preserve']:
            for rel, kind in sorted(scope.items()):
                if kind == 'link' or rel not in after:
                    continue
                s = os.stat(os.path.join(srcroot, rel) if rel else srcroot)
                d = os.stat(os.path.join(base, rel) if rel else base)
                if stat.S_IMODE(s.st_mode) != stat.S_IMODE(d.st_mode) or \
                        int(s.st_mtime) != int(d.st_mtime):
                    res['l1'].append((
                        'Preserve', f'{rel!r}: mode/mtime '
                        f'{stat.S_IMODE(d.st_mode):o}/{int(d.st_mtime)} at '
                        f'the destination, {stat.S_IMODE(s.st_mode):o}/'
                        f'{int(s.st_mtime)} at the source'))
    elif not may_fail and not conflict and \
            not (mode == 'glob' and not nodes):
        res['l1'].append(('SpuriousFailure', f'every entry of the source '
                          f'can be transferred and nothing is in the way at '
                          f'the destination, but the call reported '
                          f'{res["raised"] or sorted(rep)}'))

    # ---- conformance with the table ----
    if not res['l1']:
        want_raise = fatal or (bool(errs) and not fl['handler'])
        if bool(exc) != want_raise:
            res['diverged'] = (f'raised={res["raised"]} but the table says '
                               f'raised={want_raise} (errs={sorted(errs)})')
        elif fl['handler'] and not fatal and rep != set(errs):
            res['diverged'] = (f'error handler got {sorted(rep)}, the table '
                               f'says {sorted(errs)}')
        elif not want_raise:
            exp = dict(before)
            for x in out:
                if x['t'] == 'dir':
                    exp[x['p']] = ('dir',)
                elif x['t'] == 'link':
                    exp[x['p']] = ('link', x['txt'])
                else:
                    exp[x['p']] = ('file', content(x['from'], x['n']))
            if exp != after:
                diff = sorted(set(exp.items()) ^ set(after.items()))[:4]
                res['diverged'] = f'destination differs from the table: {diff}'
    shutil.rmtree(rdir, ignore_errors=True)
    shutil.rmtree(ldir, ignore_errors=True)
    return res


def parse_row(row):
    """<<"CASE", nodes, fl, Out, Errs, fatal>> -> python values"""
    nodes = {x[0]: (x[1], x[2], x[3]) for x in row[1]['$set']}
    out = row[3]['$set']
    errs = set(row[4]['$set'])
    return nodes, row[2], out, errs, row[5]
