"""Driver for specs/Channel/Text.tla: text-mode channels.

recv_case: a real asyncssh endpoint (client receiving stdout/stderr from a
raw server, or server receiving stdin from a raw client) is fed exactly the
packets of a TLC-generated script; what its session sees is compared with
what was written.

send_case: a real asyncssh sender writes the model's writes through a tiny
window / packet size; the packets it emits (pkt_out hook) must be one of the
model's FifoSender scripts and the real receiver must see what was written."""

import asyncssh
from asyncssh.packet import Boolean, String, UInt32

from harness import rawpeer
from harness.sshpair import hostkey, Pair, NoAuthServer
from harness.vloop import new_loop, close_loop, Deadlock

# one distinct character per (index, width)
_BASE = {'utf-8': {1: 0x61, 2: 0xe0, 3: 0x20ac, 4: 0x1f600},
         'utf-16-le': {2: 0x100, 4: 0x1f600},
         'utf-16-be': {2: 0x100, 4: 0x1f600},
         'utf-32-le': {4: 0x1f600}}


def char(enc, k, w):
    c = chr(_BASE[enc][w] + k)
    assert len(c.encode(enc)) == w
    return c


def widths_for(enc):
    return sorted(_BASE[enc])


def flatten(writes):
    """[(dt, [w..])..] -> [(dt, w)] numbered from 1 as in Text.tla"""
    return [(dt, w) for dt, ws in writes for w in ws]


def script_bytes(script, chars, enc):
    """model packets [{dt, b: [(k, i)..]}] -> [(dt, bytes)]"""
    out = []
    for p in script:
        raw = bytes(char(enc, k, chars[k - 1][1]).encode(enc)[i - 1]
                    for k, i in p['b'])
        out.append((p['dt'], raw))
    return out


def expected(chars, enc):
    return {dt: ''.join(char(enc, k + 1, w) for k, (d, w) in enumerate(chars)
                        if d == dt) for dt in (0, 1)}


def recv_case(script, chars, enc='utf-8', role='client', errors='strict'):
    """Feed the packets of `script` to a real text-mode session."""
    loop = new_loop()
    got = {0: [], 1: []}
    order = []
    st = {'eof': False, 'lost': None, 'closed': False}
    pkts = script_bytes(script, chars, enc)
    res = {}

    def on_data(data, datatype):
        dt = 0 if datatype is None else 1
        got[dt].append(data)
        order.append((dt, data))

    try:
        if role == 'client':
            class CS(asyncssh.SSHClientSession):
                def data_received(self, data, datatype):
                    on_data(data, datatype)

                def eof_received(self):
                    st['eof'] = True

                def connection_lost(self, exc):
                    st['closed'] = True
                    st['lost'] = type(exc).__name__ if exc else None

            def on_conn(conn):
                def on_packet(t, payload):
                    if t == 5:
                        conn.raw_send(6, String(b'ssh-userauth'))
                    elif t == 50:
                        conn.raw_send(52, b'')
                    elif t == 90:
                        res['peer_chan'] = int.from_bytes(payload[12:16], 'big')
                        conn.raw_send(91, UInt32(res['peer_chan']) + UInt32(7) +
                                      UInt32(1 << 20) + UInt32(1 << 15))
                    elif t == 98:
                        conn.raw_send(99, UInt32(res['peer_chan']))
                        c = res['peer_chan']
                        for dt, raw in pkts:
                            if dt == 0:
                                conn.raw_send(94, UInt32(c) + String(raw))
                            else:
                                conn.raw_send(95, UInt32(c) + UInt32(1) +
                                              String(raw))
                        conn.raw_send(96, UInt32(c))
                        conn.raw_send(97, UInt32(c))
                conn.on_packet = on_packet
                res['rconn'] = conn

            async def go():
                res['acc'] = await rawpeer.raw_listen(
                    '127.0.0.1', 2222, on_conn, server_host_keys=[hostkey()])
                conn = await asyncssh.connect(
                    '127.0.0.1', 2222, known_hosts=None, config=None,
                    client_keys=None, username='u')
                res['conn'] = conn
                chan, _ = await conn.create_session(
                    CS, command='x', encoding=enc, errors=errors)
                await chan.wait_closed()
        else:
            class SS(asyncssh.SSHServerSession):
                def exec_requested(self, command):
                    return True

                def data_received(self, data, datatype):
                    on_data(data, datatype)

                def eof_received(self):
                    st['eof'] = True

                def connection_lost(self, exc):
                    st['closed'] = True
                    st['lost'] = type(exc).__name__ if exc else None

            class Srv(asyncssh.SSHServer):
                def begin_auth(self, username):
                    return False

                def session_requested(self):
                    return SS()

            async def go():
                res['acc'] = await asyncssh.listen(
                    '127.0.0.1', 2222, server_factory=Srv,
                    server_host_keys=[hostkey()], encoding=enc, errors=errors)
                raw = await rawpeer.raw_connect('127.0.0.1', 2222)
                res['rconn'] = raw

            loop.run_until_complete(go())
            raw = res['rconn']
            loop.run_until_idle()
            loop.run_callback(raw.raw_send, 50,
                              rawpeer.userauth_request('u', 'none'))
            loop.run_callback(raw.raw_send, 90, rawpeer.session_open(chan=5))
            conf = [p for t, p in raw.take() if t == 91]
            c = int.from_bytes(conf[0][5:9], 'big')
            loop.run_callback(raw.raw_send, 98, UInt32(c) + String(b'exec') +
                              Boolean(True) + String(b'cmd'))
            for dt, rawb in pkts:
                assert dt == 0
                loop.run_callback(raw.raw_send, 94, UInt32(c) + String(rawb))
            loop.run_callback(raw.raw_send, 96, UInt32(c))
            loop.run_callback(raw.raw_send, 97, UInt32(c))
            loop.run_until_idle()
            go = None
        outcome = 'ok'
        if go is not None:
            try:
                loop.run_until_complete(go())
            except Deadlock:
                outcome = 'stall'
            except asyncssh.Error as exc:
                outcome = 'error:' + type(exc).__name__
            loop.run_until_idle()
    finally:
        exc_ctx = [str(c.get('exception') or c.get('message'))
                   for c in loop.exceptions]
        try:
            for k in ('conn', 'rconn'):
                if k in res:
                    res[k].abort()
            if 'acc' in res:
                res['acc'].close()
            loop.run_until_idle()
        except BaseException:           # pylint: disable=broad-except
            pass
        close_loop(loop)
    return {'got': {d: ''.join(got[d]) for d in got}, 'order': order,
            'eof': st['eof'], 'closed': st['closed'], 'lost': st['lost'],
            'outcome': outcome,
            'loop_exceptions': exc_ctx}


def send_case(writes, chars, enc, win, pkt, role='server'):
    """Real sender, real receiver; returns what was received and the packets
    the sender emitted as [(dt, bytes)]."""
    got = {0: [], 1: []}
    st = {}
    texts = []
    k = 0
    for dt, ws in writes:
        s = ''
        for w in ws:
            k += 1
            s += char(enc, k, w)
        texts.append((dt, s))

    class CS(asyncssh.SSHClientSession):
        def connection_made(self, chan):
            self.chan = chan

        def session_started(self):
            if role == 'client':
                for dt, s in texts:
                    self.chan.write(s)
                self.chan.write_eof()

        def data_received(self, data, datatype):
            got[0 if datatype is None else 1].append(data)

        def eof_received(self):
            st['eof'] = True

    class SS(asyncssh.SSHServerSession):
        def connection_made(self, chan):
            self.chan = chan

        def exec_requested(self, command):
            return True

        def session_started(self):
            if role == 'server':
                for dt, s in texts:
                    if dt == 0:
                        self.chan.write(s)
                    else:
                        self.chan.write_stderr(s)
                self.chan.write_eof()

        def data_received(self, data, datatype):
            got[0 if datatype is None else 1].append(data)

        def eof_received(self):
            st['eof'] = True
            if role == 'client':
                self.chan.exit(0)

    class Srv(NoAuthServer):
        def session_requested(self):
            return SS()

    skw = dict(encoding=enc)
    ckw = {}
    if role == 'client':
        skw.update(window=win, max_pktsize=pkt)
    p = Pair(server_cls=Srv, server_kw=skw).start()
    mark = len(p.events)
    try:
        async def go():
            kw = dict(encoding=enc)
            if role == 'server':
                kw.update(window=win, max_pktsize=pkt)
            chan, _ = await p.conn.create_session(CS, command='x', **kw)
            await chan.wait_closed()
        try:
            p.run(go())
            outcome = 'closed'
        except BaseException as exc:    # Deadlock included
            outcome = type(exc).__name__
    finally:
        exc_ctx = [str(c.get('exception') or c.get('message'))
                   for c in p.loop.exceptions]
        sender = 's' if role == 'server' else 'c'
        emitted = []
        for side, name, f in p.events[mark:]:
            if side == sender and name == 'pkt_out':
                pl = f['payload']
                if f['pkttype'] == 94:
                    n = int.from_bytes(pl[5:9], 'big')
                    emitted.append((0, pl[9:9 + n]))
                elif f['pkttype'] == 95:
                    n = int.from_bytes(pl[9:13], 'big')
                    emitted.append((1, pl[13:13 + n]))
        p.stop()
    return {'got': {d: ''.join(got[d]) for d in got}, 'eof': st.get('eof'),
            'outcome': outcome, 'emitted': emitted,
            'loop_exceptions': exc_ctx}
