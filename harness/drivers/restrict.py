"""Driver for specs/Auth/Restrict.tla (C05, clause "the restrictions attached
to the accepted credential are the ones enforced afterwards").

A table row of the specification is an abstract credential (method,
authorized_keys entries, certificate contents, application callbacks, client
address, user name) plus the specification's verdicts.  `run_case`
materialises the credential with real keys / certificates / authorized_keys
text, starts a real asyncssh server on the deterministic loop, lets a real asyncssh client authenticate with the
credential and then attempt every post-authentication operation, and reports
what the *server application* and the *client* saw:

  accepted                 the client was admitted (auth_completed ran)
  ops[op]                  the request reached the point where the decision is
                           handed to the application (pty_requested /
                           connection_requested / server_requested / ...
                           callback ran; for agent and X11 forwarding: the
                           listener exists and the client got SUCCESS)
  started[req]             what the server session was asked to run for the
                           client's exec / shell / subsystem request
  env                      environment the server session saw

Rows of specs/Auth/RestrictSeq.tla (case['steps'], case['files']) are request
SEQUENCES on one connection: the server installs per-user authorized keys in
begin_auth, a raw peer (harness/rawpeer.py) sends every USERAUTH_REQUEST with
its own user name and credential - publickey query / signed / wrong
signature (plain key or certificate), right / wrong password - and records
each reply (out['replies']); after USERAUTH_SUCCESS the same connection
object is switched back to an ordinary asyncssh client connection, so that
the probes above are shared.
"""

import os
import shutil
import tempfile
import time
from hashlib import sha256

import asyncssh
from asyncssh.channel import SSHClientChannel
from asyncssh.packet import Boolean, Byte, MPInt, String, UInt32
from asyncssh.public_key import SSHKeyPair, SSHLocalKeyPair
from asyncssh.public_key import decode_ssh_public_key

from harness import rawpeer, tlc
from harness.vloop import new_loop, close_loop, Deadlock

PERMS = ['pty', 'agent-forwarding', 'X11-forwarding', 'port-forwarding',
         'user-rc']
# operation -> permission consulted (as in OpenSSH and as coded)
OP_PERM = {'pty': 'pty', 'agent': 'agent-forwarding', 'x11': 'X11-forwarding',
           'direct-tcpip': 'port-forwarding', 'tcpip-forward': 'port-forwarding',
           'direct-streamlocal': 'port-forwarding',
           'streamlocal-forward': 'port-forwarding'}
PERM_OPS = list(OP_PERM)
RAW_OPS = ('pty', 'x11', 'agent')

USER = 'alice'
CIPHER = 'aes128-gcm@openssh.com'       # cheapest per packet in this build
SERVER_ADDR = ('127.0.0.1', 2222)
_keys = {}
_cert_cache = {}


def K():
    if not _keys:
        for n in ('host', 'user', 'ca', 'otherca', 'other'):
            _keys[n] = asyncssh.generate_private_key('ssh-ed25519')
    return _keys


# ---------------------------------------------------------------------------
# FIDO security keys, simulated in software (PROTOCOL.u2f): the "token" holds
# an Ed25519 / P-256 private key and produces the U2F-shaped signature over
#   SHA256(application) || flags || counter || SHA256(message)
# with the flags byte (user presence 0x01, user verification 0x04), counter
# and application chosen by the row.
# ---------------------------------------------------------------------------

SK_UP, SK_UV = 0x01, 0x04
SK_APP, SK_OTHER_APP = 'ssh:', 'ssh:other'
SK_ALGS = {'sk-ed25519': b'sk-ssh-ed25519@openssh.com',
           'sk-ecdsa': b'sk-ecdsa-sha2-nistp256@openssh.com'}


class SoftToken:
    def __init__(self, ktype):
        from cryptography.hazmat.primitives import serialization as ser
        from cryptography.hazmat.primitives.asymmetric import ec, ed25519
        self.ktype, self.alg = ktype, SK_ALGS[ktype]
        if ktype == 'sk-ed25519':
            self._priv = ed25519.Ed25519PrivateKey.generate()
            self._pub = String(self._priv.public_key().public_bytes(
                ser.Encoding.Raw, ser.PublicFormat.Raw))
        else:
            self._priv = ec.generate_private_key(ec.SECP256R1())
            self._pub = String(b'nistp256') + String(
                self._priv.public_key().public_bytes(
                    ser.Encoding.X962, ser.PublicFormat.UncompressedPoint))
        self.pubkey = self.public(SK_APP)

    def public(self, application):
        """The public key as an SSHKey (the application id is part of it)."""
        return decode_ssh_public_key(String(self.alg) + self._pub +
                                     String(application))

    def sign(self, data, flags, counter, application):
        signed = sha256(application.encode()).digest() + Byte(flags) + \
            UInt32(counter) + sha256(data).digest()
        if self.ktype == 'sk-ed25519':
            sig = self._priv.sign(signed)
        else:
            from cryptography.hazmat.primitives import hashes
            from cryptography.hazmat.primitives.asymmetric import ec, utils
            r, s_ = utils.decode_dss_signature(
                self._priv.sign(signed, ec.ECDSA(hashes.SHA256())))
            sig = MPInt(r) + MPInt(s_)
        return String(self.alg) + String(sig) + Byte(flags) + UInt32(counter)


class SoftSKPair(SSHKeyPair):
    """What the client holds: the token, optionally a certificate over its
    public key, and how the token is going to answer."""

    def __init__(self, token, cert, sig, kapp=SK_APP):
        alg = token.alg
        super().__init__(alg, alg, (alg,), (alg,),
                         token.public(kapp).public_data, None, cert)
        self._token = token
        self._flags = (SK_UP if sig['up'] else 0) | (SK_UV if sig['uv'] else 0)
        other = SK_OTHER_APP if kapp == SK_APP else SK_APP
        self._app = kapp if sig['app'] == 'same' else other

    def sign(self, data):
        return self._token.sign(data, self._flags, 7, self._app)


def token(ktype):
    K()
    if ktype not in _keys:
        _keys[ktype] = SoftToken(ktype)
    return _keys[ktype]


def user_public(ktype='ed25519', kapp=SK_APP):
    if ktype in SK_ALGS:
        return token(ktype).public(kapp)
    return K()['user'].convert_to_public()


def pub(name, ktype='ed25519', kapp=SK_APP):
    """authorized_keys text of the named key; for a security-key row "user"
    is the token's key as the client presents it and "user-otherapp" the
    same public value under the other application id."""
    if name in ('user', 'user-otherapp') and ktype in SK_ALGS:
        other = SK_OTHER_APP if kapp == SK_APP else SK_APP
        key = token(ktype).public(kapp if name == 'user' else other)
    else:
        key = K()['other' if name == 'user-otherapp' else name]
    return key.export_public_key('openssh').decode().strip()


def scratch():
    d = os.path.join(tlc.WORK, f'C05r_tmp_{os.getpid()}')
    os.makedirs(d, exist_ok=True)
    return d


# ---------------------------------------------------------------------------
# credential materialisation
# ---------------------------------------------------------------------------

def quote(v):
    return '"' + v.replace('\\', '\\\\').replace('"', '\\"') + '"'


def entry_line(e, keyname, ktype='ed25519', kapp=SK_APP):
    """authorized_keys line for an abstract entry e (dict with flags: list of
    flag tokens in order, cmd, open: list of 'host:port', frm: list of from=
    values, princ: list of principals= values, env: list of 'N=V', ca: bool)."""
    opts = []
    if e.get('ca'):
        opts.append('cert-authority')
    opts += list(e.get('flags', ()))
    if e.get('cmd') is not None:
        opts.append('command=' + quote(e['cmd']))
    for o in e.get('open', ()):
        opts.append('permitopen=' + quote(o))
    for f in e.get('frm', ()):
        opts.append('from=' + quote(f))
    for p in e.get('princ', ()):
        opts.append('principals=' + quote(p))
    for v in e.get('env', ()):
        opts.append('environment=' + quote(v))
    if keyname is None:
        return ','.join(opts)
    line = pub(keyname, ktype, kapp)
    return (','.join(opts) + ' ' if opts else '') + line


def make_cert(c, ktype='ed25519', kapp=SK_APP):
    """Real OpenSSH user certificate for the abstract certificate c."""
    key = (tuple(sorted(c.get('ext', ()))), c.get('force'),
           tuple(c.get('src') or ()), tuple(c.get('principals', ())),
           c.get('valid', 'ok'), c.get('ctype', 'user'), c.get('ca', 'ca'),
           ktype, kapp, bool(c.get('notouch')))
    subject = user_public(ktype, kapp)
    if key in _cert_cache:
        return _cert_cache[key]
    now = int(time.time())
    after, before = {'ok': (0, 0xffffffffffffffff),
                     'expired': (now - 7200, now - 3600),
                     'notyet': (now + 3600, now + 7200),
                     'window': (now - 3600, now + 3600)}[c.get('valid', 'ok')]
    ca = K()[c.get('ca', 'ca')]
    ext = set(c.get('ext', ()))
    if c.get('ctype', 'user') == 'host':
        cert = ca.generate_host_certificate(
            subject, 'row', principals=list(c.get('principals', ())),
            valid_after=after, valid_before=before)
    else:
        cert = ca.generate_user_certificate(
            subject, 'row', principals=list(c.get('principals', ())),
            valid_after=after, valid_before=before,
            force_command=c.get('force'), source_address=c.get('src') or None,
            permit_x11_forwarding='X11-forwarding' in ext,
            permit_agent_forwarding='agent-forwarding' in ext,
            permit_port_forwarding='port-forwarding' in ext,
            permit_pty='pty' in ext, permit_user_rc='user-rc' in ext,
            touch_required=not c.get('notouch'))
    _cert_cache[key] = cert
    return cert


# ---------------------------------------------------------------------------
# one row against the real server
# ---------------------------------------------------------------------------

class _CliSession(asyncssh.SSHClientSession):
    pass


class _TCPSession(asyncssh.SSHTCPSession):
    pass


def run_case(case, ops=PERM_OPS, requests=(), dests=(), client_env=None):
    """case: dict(method='publickey'|'password', entries=[entry...],
    cert=None|dict, cb_key=bool, cb_ca=bool, user, addr), or for request
    sequences dict(files={user: [entry...]}, steps=[dict(kind, user,
    cred=None|cert dict)], cb_key, cb_ca, addr).
    ops: permission-guarded operations to attempt;
    requests: session requests ('exec:<cmd>', 'shell', 'subsystem:<name>');
    dests: extra direct-tcpip destinations 'host:port' (permitopen rows)."""
    loop = new_loop()
    log = []
    w = {'accepted': False, 'sconn': None}
    method = case.get('method', 'publickey')
    user = case.get('user', USER)
    steps = case.get('steps')           # request sequence from a raw client
    files = None                        # user -> SSHAuthorizedKeys
    k = K()
    ktype = case.get('ktype', 'ed25519')
    kapp = case.get('kapp', SK_APP)
    user_pub = user_public(ktype, kapp)
    cas = {n: k[n].convert_to_public() for n in ('ca', 'otherca')}

    class Sess(asyncssh.SSHServerSession):
        def connection_made(self, chan):
            self.chan = chan

        def pty_requested(self, term_type, term_size, term_modes):
            log.append(('pty', term_type))
            return True

        def shell_requested(self):
            log.append(('start', 'shell', None))
            return True

        def exec_requested(self, command):
            log.append(('start', 'exec', command))
            return True

        def subsystem_requested(self, subsystem):
            log.append(('start', 'subsystem', subsystem))
            return True

        def session_started(self):
            log.append(('env', dict(self.chan.get_environment())))
            log.append(('chan-command', self.chan.get_command()))
            self.chan.exit(0)

    class Srv(asyncssh.SSHServer):
        def connection_made(self, conn):
            w['sconn'] = conn

        def begin_auth(self, username):
            if files is not None:
                # per-user authorized keys, as an application does it
                w['sconn'].set_authorized_keys(files.get(username))
            return True

        def auth_completed(self):
            w['accepted'] = True
            w['granted'] = w['sconn'].get_extra_info('username')

        def password_auth_supported(self):
            return method == 'password' or steps is not None

        def validate_password(self, username, password):
            return password == 'pw-' + username

        def public_key_auth_supported(self):
            return True

        def validate_public_key(self, username, key):
            log.append(('cb_key', username))
            return bool(case.get('cb_key')) and key == user_pub

        def validate_ca_key(self, username, key):
            log.append(('cb_ca', username))
            return bool(case.get('cb_ca')) and key == cas['ca']

        def session_requested(self):
            return Sess()

        def connection_requested(self, dest_host, dest_port, orig_host,
                                 orig_port):
            log.append(('direct-tcpip', dest_host, dest_port))
            return False

        def server_requested(self, listen_host, listen_port):
            log.append(('tcpip-forward', listen_host, listen_port))
            return False

        def unix_connection_requested(self, dest_path):
            log.append(('direct-streamlocal', dest_path))
            return False

        def unix_server_requested(self, listen_path):
            log.append(('streamlocal-forward', listen_path))
            return False

    lines = [entry_line(e, e.get('key', 'ca' if e.get('ca') else 'user'),
                        ktype, kapp)
             for e in case.get('entries', ())]
    skw = {}
    out = {'accepted': False, 'server_accepted': False, 'granted': None,
           'ops': {}, 'started': {}, 'dests': {}, 'errors': [], 'cb': [],
           'loop_exceptions': []}
    try:
        if lines:
            skw['authorized_client_keys'] = asyncssh.import_authorized_keys(
                '\n'.join(lines) + '\n')
        if case.get('files') is not None:
            files = {}
            for u, ents in case['files'].items():
                if ents:
                    files[u] = asyncssh.import_authorized_keys('\n'.join(
                        entry_line(e, e['key']) for e in ents) + '\n')
    except Exception as exc:            # pylint: disable=broad-except
        out['errors'].append(f'import_authorized_keys: '
                             f'{type(exc).__name__}: {exc}')
        close_loop(loop)
        return out
    ckw = dict(client_keys=None, agent_path=None)
    if method == 'password':
        ckw['password'] = 'pw-' + user
    elif ktype in SK_ALGS:
        cert = case.get('cert')
        ckw['client_keys'] = [SoftSKPair(
            token(ktype),
            None if cert is None else make_cert(cert, ktype, kapp),
            case.get('sig') or dict(up=True, uv=False, app='same'), kapp)]
    elif case.get('cert') is not None:
        # the certificate ONLY (a (key, cert) tuple would make the client
        # offer the plain key as well: a second credential)
        ckw['client_keys'] = [SSHLocalKeyPair(
            k['user'], None, make_cert(case['cert']), None)]
    else:
        ckw['client_keys'] = [k['user']]
    addr = case.get('addr')
    if addr:
        ckw['local_addr'] = (addr, 0)
    tmp = scratch()
    old_tmp = tempfile.tempdir
    tempfile.tempdir = tmp

    async def raw_requests(conn, names):
        """pty-req / x11-req / auth-agent-req on ONE real client session
        channel (the high-level client API needs a local X display / agent
        to send the latter two); returns the server's replies."""
        chan = SSHClientChannel(conn, loop, 'strict', None, 'strict',
                                2 * 1024 * 1024, 32768)
        await chan._open(b'session')
        chan._session = _CliSession()
        res = {}
        for n in names:
            if n == 'pty':
                res[n] = await chan._make_request(
                    b'pty-req', String('vt100'), UInt32(80), UInt32(24),
                    UInt32(0), UInt32(0), String(b'\x00'))
            elif n == 'x11':
                res[n] = await chan._make_request(
                    b'x11-req', Boolean(False), String('MIT-MAGIC-COOKIE-1'),
                    String('00112233445566778899aabbccddeeff'), UInt32(0))
            elif n == 'agent':
                res[n] = await chan._make_request(
                    b'auth-agent-req@openssh.com')
        res['agent_path'] = w['sconn'].get_agent_path()
        chan.close()
        return res

    async def attempt(conn, op):
        mark = len(log)
        reply = None
        try:
            if op == 'pty-api':
                chan, _ = await conn.create_session(_CliSession, 'true',
                                                    term_type='vt100')
                await chan.wait_closed()
                reply = 'ok'
            elif op == 'direct-tcpip':
                await conn.create_connection(_TCPSession, 'dest.example', 80)
            elif op == 'tcpip-forward':
                await conn.create_server(lambda h, p: _TCPSession(),
                                         'listen.example', 8080)
            elif op == 'direct-streamlocal':
                await conn.create_unix_connection(_TCPSession, '/dest.sock')
            elif op == 'streamlocal-forward':
                await conn.create_unix_server(lambda: _TCPSession(),
                                              '/listen.sock')
        except asyncssh.ChannelOpenError as exc:
            reply = f'open-error:{exc.code}'
        except asyncssh.ChannelListenError:
            reply = 'listen-error'
        seen = [e for e in log[mark:] if e[0] == op.replace('-api', '')]
        return bool(seen), reply

    def keypair(cred):
        return SSHLocalKeyPair(k['user'], None,
                               None if cred is None else make_cert(cred),
                               None)

    def step_body(sid, st):
        if st['kind'] in ('password', 'badpw'):
            pw = 'pw-' + st['user'] + ('' if st['kind'] == 'password'
                                       else '-wrong')
            return rawpeer.password_request(st['user'], pw)
        kp = keypair(st['cred'])
        signed = st['kind'] != 'query'
        body = rawpeer.userauth_request(
            st['user'], b'publickey', Boolean(signed), String(kp.algorithm),
            String(kp.public_data))
        if signed:
            if st['kind'] == 'badsig':
                sid = sid[:-1] + bytes([sid[-1] ^ 1])
            body += String(kp.sign(String(sid) + Byte(50) + body))
        return body

    async def raw_steps():
        """The request sequence, sent by a raw peer (own user name and
        credential per request, query / signed / bad signature); after
        USERAUTH_SUCCESS the connection object goes back to being an
        ordinary asyncssh client connection for the probes."""
        rkw = {'local_addr': (case['addr'], 0)} if case.get('addr') else {}
        raw = await rawpeer.raw_connect(*SERVER_ADDR, **rkw)
        w['raw'] = raw
        out['replies'] = []
        for st in steps:
            fut = loop.create_future()

            def on_packet(t, _payload, fut=fut):
                if t in (51, 52, 60) and not fut.done():
                    fut.set_result(t)
            raw.on_packet = on_packet
            raw.raw_send(50, step_body(raw._session_id, st))
            t = await fut
            out['replies'].append({51: 'fail', 52: 'success',
                                   60: 'pk_ok'}[t])
            if t == 52:
                break
        raw.on_packet = None
        out['replies'] += ['skipped'] * (len(steps) - len(out['replies']))
        if out['replies'].count('success') == 0:
            raw.abort()
            return None
        raw.take()
        raw.raw = False
        raw._channels = raw._saved_channels
        raw._auth = None
        return raw

    async def go():
        acc = await asyncssh.listen(
            *SERVER_ADDR, server_factory=Srv, server_host_keys=[k['host']],
            x11_forwarding=True, x11_auth_path=os.path.join(tmp, 'Xauthority'),
            encryption_algs=[CIPHER], compression_algs=["none"],
            **skw)
        if steps is not None:
            conn = await raw_steps()
            if conn is None:
                acc.close()
                return
        else:
            try:
                conn = await asyncssh.connect(
                    *SERVER_ADDR, known_hosts=None, config=None,
                    username=user, **ckw)
            except asyncssh.PermissionDenied:
                acc.close()
                return
        out['accepted'] = True
        raw = [o for o in ops if o in RAW_OPS]
        if raw:
            mark = len(log)
            r = await raw_requests(conn, raw)
            if 'pty' in r:
                out['ops']['pty'] = any(e[0] == 'pty' for e in log[mark:])
                if out['ops']['pty'] != bool(r['pty']):
                    out['errors'].append(f'pty reply {r["pty"]} but '
                                         f'pty_requested ran: '
                                         f'{out["ops"]["pty"]}')
            if 'x11' in r:
                out['ops']['x11'] = bool(r['x11'])
            if 'agent' in r:
                out['ops']['agent'] = bool(r['agent'])
                if bool(r['agent']) != (r['agent_path'] is not None):
                    out['errors'].append(f'agent reply {r["agent"]} but '
                                         f'listener {r["agent_path"]}')
        for op in ops:
            if op in RAW_OPS:
                continue
            seen, reply = await attempt(conn, op)
            out['ops'][op] = seen
            out.setdefault('op_replies', {})[op] = reply
        for d in dests:
            host, port = d.rsplit(':', 1)
            mark = len(log)
            code = None
            try:
                await conn.create_connection(_TCPSession, host, int(port))
            except asyncssh.ChannelOpenError as exc:
                code = exc.code
            out['dests'][d] = (any(e[0] == 'direct-tcpip'
                                   for e in log[mark:]), code)
        for req in requests:
            mark = len(log)
            kw = {}
            if client_env:
                kw['env'] = client_env
            try:
                if req == 'shell':
                    chan, _ = await conn.create_session(_CliSession, **kw)
                elif req.startswith('exec:'):
                    chan, _ = await conn.create_session(_CliSession, req[5:],
                                                        **kw)
                else:
                    chan, _ = await conn.create_session(
                        _CliSession, subsystem=req.split(':', 1)[1], **kw)
                await chan.wait_closed()
            except asyncssh.ChannelOpenError as exc:
                out['errors'].append(f'{req}: {exc.code} {exc.reason}')
            st = [e for e in log[mark:] if e[0] == 'start']
            env = [e for e in log[mark:] if e[0] == 'env']
            out['started'][req] = {
                'start': list(st[0][1:]) if st else None,
                'n': len(st), 'env': env[0][1] if env else None}
        conn.close()
        await conn.wait_closed()
        acc.close()

    try:
        loop.run_until_complete(go())
    except Deadlock:
        out['errors'].append('hung')
    except Exception as exc:            # pylint: disable=broad-except
        out["errors"].append(f"{type(exc).__name__}: {exc}")
    finally:
        tempfile.tempdir = old_tmp
    out['granted'] = w.get('granted')
    out['server_accepted'] = w['accepted']
    out['cb'] = [e[0] for e in log if e[0] in ('cb_key', 'cb_ca')]
    out['loop_exceptions'] = [str(c.get('exception') or c.get('message'))
                              for c in loop.exceptions]
    close_loop(loop)
    return out


# ---------------------------------------------------------------------------
# specification row -> case
# ---------------------------------------------------------------------------

CMD_TEXT = {'kc': 'key-cmd --x', 'kp': 'ca-entry-cmd',
            'cc': 'cert-cmd --y', 'empty': '',
            'kq': 'k,c "q" \\x no-pty,y', 'rc': 'requested-cmd'}
ENV_TEXT = {'kv': 'key-value', 'cv': 'client-value', '-': None}


def cmd_text(name):
    return CMD_TEXT.get(name, name)


def env_text(name):
    return ENV_TEXT.get(name, name)


def req_name(kind, arg):
    if kind == 'shell':
        return 'shell'
    return f'{kind}:{cmd_text(arg) if kind == "exec" else arg}'


def _set(v):
    return v['$set'] if isinstance(v, dict) and '$set' in v else list(v)


def _plist(pl):
    return ','.join(('!' if i['neg'] else '') + i['pat'] for i in pl)


def _entry(e):
    return dict(
        ca=e['ca'], key=e['key'], flags=list(e['flags']),
        cmd=None if e['cmd'] == '-' else cmd_text(e['cmd']),
        open=sorted(f'{d["h"]}:{d["p"]}' for d in _set(e['open'])),
        frm=[_plist(pl) for pl in e['frm']],
        princ=[_plist(pl) for pl in e['princ']],
        env=[] if e['env'] == '-' else ['N=' + env_text(e['env'])])


def _cert(c):
    if not c['present']:
        return None
    return dict(ext=sorted(_set(c['ext'])),
                force=None if c['force'] == '-' else cmd_text(c['force']),
                src=sorted(_set(c['src'])),
                principals=sorted(_set(c['principals'])),
                valid=c['valid'], ctype=c['ctype'], ca=c['ca'],
                notouch=c.get('notouch', False))


HIST_DESTS = ['h1:80', 'h2:22']


def to_hist_case(h, pool):
    """Row of specs/Auth/RestrictSeq.tla (parsed) + the printed pools ->
    (case, keyword arguments)."""
    files, certs = pool
    case = dict(
        files={'alice': [_entry(e) for e in files[h['fa']]],
               'bob': [_entry(e) for e in files[h['fb']]]},
        cb_key=h['cbkey'], cb_ca=h['cbca'], addr='10.0.0.5',
        steps=[dict(kind=st['kind'], user=st['user'], name=st['cred'],
                    cred=None if st['cred'] in ('-', 'key')
                    else _cert(certs[st['cred']])) for st in h['steps']],
        names=dict(fa=h['fa'], fb=h['fb']))
    kw = dict(ops=[o for o in PERM_OPS if o != 'direct-tcpip'],
              dests=HIST_DESTS,
              requests=[req_name('exec', 'rc'), 'shell', 'subsystem:sub'])
    return case, kw


def describe_hist(case):
    st = ' ; '.join(f'{s["kind"]}({s["user"]}'
                    f'{"" if s["name"] == "-" else "," + s["name"]})'
                    for s in case['steps'])
    return (f'alice:{case["names"]["fa"]} bob:{case["names"]["fb"]}'
            f'{" cb_key" if case["cb_key"] else ""}'
            f'{" cb_ca" if case["cb_ca"] else ""} | {st}')


def to_case(cred):
    """TLC row (parsed record) -> (case for run_case, keyword arguments)."""
    entries = [_entry(e) for e in cred['entries']]
    cert = _cert(cred['cert'])
    case = dict(method=cred['method'], entries=entries, cert=cert,
                cb_key=cred['cbkey'], cb_ca=cred['cbca'], user=cred['user'],
                addr=cred['addr'], ktype=cred.get('ktype', 'ed25519'),
                kapp=cred.get('kapp', SK_APP), sig=cred.get('sig'))
    kw = {'ops': PERM_OPS}
    sec = cred['sec']
    if sec == 'sk':
        kw['ops'] = ['pty']             # admission is what these rows judge
    if sec == 'cmd':
        kw['ops'] = PERM_OPS + ['pty-api']
        kw['requests'] = [req_name('exec', 'rc'), 'shell', 'subsystem:sub']
        if cred['cenv'] != '-':
            kw['client_env'] = {'N': env_text(cred['cenv'])}
    if sec == 'mix':
        kw['requests'] = [req_name('exec', 'rc'), 'shell', 'subsystem:sub']
    if sec in ('open', 'mix'):
        # the generic destination is not on any permitopen list
        kw['ops'] = [o for o in PERM_OPS if o != 'direct-tcpip']
        kw['dests'] = ['h1:80', 'h1:81', 'h2:22', 'h2:80', 'h3:80']
    return case, kw


def describe(case):
    parts = [case['method'], case['user'] + '@' + case['addr']]
    for e in case['entries']:
        parts.append('entry(' + entry_line(e, None) + ' <' + e['key'] + '>)')
    c = case['cert']
    if case.get('ktype', 'ed25519') in SK_ALGS:
        g = case['sig']
        parts.insert(1, f'{case["ktype"]}({case.get("kapp", SK_APP)})'
                        f'[up={int(g["up"])},uv={int(g["uv"])}'
                        f',app={g["app"]}]')
    if c is not None:
        extra = [f'{k}={c[k]}' for k in ('force', 'src') if c[k]]
        if c.get('notouch'):
            extra.append('no-touch-required')
        if c['valid'] != 'ok' or c['ctype'] != 'user' or c['ca'] != 'ca':
            extra.append(f'{c["valid"]}/{c["ctype"]}/{c["ca"]}')
        parts.append('cert{' + ','.join(c['ext']) + '}' +
                     'principals=' + ','.join(c['principals']) +
                     (' ' + ' '.join(extra) if extra else ''))
    else:
        parts.append('no-cert')
    if case['cb_key']:
        parts.append('cb_key')
    if case['cb_ca']:
        parts.append('cb_ca')
    return ' '.join(parts)


def cred_class(case):
    c = case['cert']
    if case['method'] == 'password':
        return 'password'
    cert = 'nocert' if c is None else 'cert-empty' if not c['ext'] else \
        'cert-all' if len(c['ext']) >= 4 else 'cert-some'
    return ('entry' if case['entries'] else 'callback') + '/' + cert


def replay(rep):
    """Re-run a stored replay (replays/C05/<hash>.json, kind 'restrict')."""
    return run_case(rep['case'], **rep['kw'])


def cleanup():
    shutil.rmtree(os.path.join(tlc.WORK, f'C05r_tmp_{os.getpid()}'),
                  ignore_errors=True)
