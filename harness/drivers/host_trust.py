"""Driver for the HostTrust specification (C04).

Materialises one abstract case of specs/HostTrust -- known_hosts lines
[marker, match, key], target port class, trust mode, callback answers and
the server's presentation [kind, key, ca, type, win, princ, certSig, holds]
-- into real keys, certificates, known_hosts text and a real connection
attempt over the in-memory network, and reports what both ends observed.
"""

import base64
import hashlib
import hmac
import os

import asyncssh
import asyncssh.public_key as _pk

from harness.vloop import new_loop, close_loop, Deadlock
from harness.drivers import handshake as H

HOST = 'gw.example.test'
ALIAS = 'alias.example.test'
ADDR = '10.1.2.3'
import time as _time
# the harness clock starts at the real time the process started (whatever
# froze a clock at import / start time froze it here) and is advanced
# between connection attempts
NOW = int(_time.time())
FAR = 10 ** 7
TICKS = [0, 3600, 90000, 17, 86400 * 40]
PORTS = {'def': 22, 'nondef': 2222}
PASSWORD = 'correct horse battery'


class _Clock:
    """Stands in for the `time` module inside asyncssh.public_key so that
    certificate validity is judged at a fixed instant (boundaries exact)."""

    def __init__(self, real):
        self._real = real
        self.now = None

    def time(self):
        return self._real.time() if self.now is None else self.now

    def __getattr__(self, name):
        return getattr(self._real, name)


if not isinstance(_pk.time, _Clock):
    _pk.time = _Clock(_pk.time)
clock = _pk.time

# ---------------------------------------------------------------------------
# key material (cached per key type)
# ---------------------------------------------------------------------------

KEYTYPES = {'ed25519': ('ssh-ed25519', {}),
            'ecdsa': ('ecdsa-sha2-nistp256', {}),
            'rsa': ('ssh-rsa', {'key_size': 2048})}
_keys = {}


def key(kid, ktype):
    if (kid, ktype) not in _keys:
        alg, kw = KEYTYPES[ktype]
        _keys[kid, ktype] = asyncssh.generate_private_key(alg, **kw)
    return _keys[kid, ktype]


def pubtext(k):
    return k.export_public_key('openssh').decode().split()[:2]


# ---------------------------------------------------------------------------
# known_hosts text
# ---------------------------------------------------------------------------

def hashed(name, salt=None):
    salt = salt or os.urandom(20)
    h = hmac.new(salt, name.encode(), hashlib.sha1).digest()
    return '|1|%s|%s' % (base64.b64encode(salt).decode(),
                         base64.b64encode(h).decode())


def pattern_forms(match, port, lookup_host, real_host):
    """Spellings of a host pattern with the given abstract match class for a
    connection to lookup_host (name or alias) / ADDR at `port`.
    -> list of (form name, pattern text)."""
    Hn, A, P = lookup_host, ADDR, PORTS[port]
    dom = Hn.split('.', 1)[1]
    first = Hn.split('.', 1)[0]
    if port == 'def':
        name = [('plain', Hn), ('addr', A), ('list', f'zz.example,{Hn}'),
                ('hashed', hashed(Hn)), ('hashed-addr', hashed(A)),
                ('wild-prefix', f'{first}.*'), ('wild-suffix', f'*.{dom}'),
                ('wild-q', Hn[:2] + '?' + Hn[3:]),
                ('wild-addr', '10.1.2.?'),
                ('neg-other', f'{Hn},!zz.example'),
                ('neg-other-cidr', f'{first}*,!192.168.0.0/16')]
        both = [('cidr', '10.1.0.0/16'), ('cidr32', '10.1.2.3/32'),
                ('star', '*'), ('cidr-list', 'zz.example,10.0.0.0/8')]
        portf = [('bracket-otherport', f'[{Hn}]:2222'),
                 ('hashed-otherport', hashed(f'[{Hn}]:2222')),
                 ('bracket-addr-otherport', f'[{A}]:2222')]
        none = [('other', 'zz.example'), ('other-addr', '10.1.2.4'),
                ('negated', f'*,!{Hn}'), ('negated-addr', f'{Hn},!{A}'),
                ('negated-only', f'!{Hn}'),
                ('negated-cidr', '10.1.0.0/16,!10.1.2.0/24'),
                ('negated-wild', f'*.{dom},!{first}.*'),
                ('hashed-other', hashed('zz.example')),
                ('bracket-22', f'[{Hn}]:22'), ('other-cidr', '10.2.0.0/16'),
                ('case', Hn.upper())]
        if real_host != Hn:
            none.append(('real-name-not-alias', real_host))
        return {'name': name + both[:0], 'both': both, 'port': portf,
                'none': none}[match]
    name = [('plain', Hn), ('addr', A), ('hashed', hashed(Hn)),
            ('hashed-addr', hashed(A)), ('wild-prefix', f'{first}.*'),
            ('wild-suffix', f'*.{dom}'), ('list', f'zz.example,{Hn}'),
            ('wild-addr', '10.1.2.?'), ('neg-other', f'{Hn},!zz.example')]
    both = [('cidr', '10.1.0.0/16'), ('star', '*'),
            ('wild-contains', f'*{Hn}*'), ('cidr-list', 'zz.example,10.0.0.0/8')]
    portf = [('bracket', f'[{Hn}]:{P}'), ('bracket-addr', f'[{A}]:{P}'),
             ('hashed-bracket', hashed(f'[{Hn}]:{P}')),
             ('hashed-bracket-addr', hashed(f'[{A}]:{P}')),
             ('bracket-wildport', f'[{Hn}]:*'),
             ('bracket-wildhost', f'[*]:{P}'),
             ('bracket-list', f'zz.example,[{Hn}]:{P}'),
             ('bracket-neg-other', f'[{Hn}]:{P},![zz.example]:{P}')]
    none = [('other', 'zz.example'), ('bracket-otherport', f'[{Hn}]:{P + 1}'),
            ('bracket-otherhost', f'[zz.example]:{P}'),
            ('negated', f'*,!*{first}*,!*{A}*'),
            ('negated-cidr', '10.1.0.0/16,!10.1.2.3/32'),
            ('hashed-otherport', hashed(f'[{Hn}]:{P + 1}')),
            ('bracket-negated', f'[*]:{P},![{Hn}]:{P},![{A}]:{P}'),
            ('other-cidr', '10.2.0.0/16')]
    if real_host != Hn:
        none.append(('real-name-not-alias', f'[{real_host}]:{P}'))
    return {'name': name, 'both': both, 'port': portf, 'none': none}[match]


# ---------------------------------------------------------------------------
# the server's presentation
# ---------------------------------------------------------------------------

def window(win, t):
    """[valid_after, valid_before) of an abstract window around clock t;
    windows that end reach far back, windows that begin reach far ahead."""
    return {'in': (t - FAR, t + FAR), 'startsNow': (t, t + FAR),
            'endsNext': (t - FAR, t + 1), 'notYet': (t + 1, t + FAR),
            'endsNow': (t - FAR, t), 'expired': (t - FAR, t - 1)}[win]


def abs_window(win):
    """Windows of the `time` focus: absolute, laid around the clock at
    start (model unit = 1000 s); the clock then moves over them."""
    U = 1000
    return {'in': (NOW - 2 * U, NOW + 7 * U), 'startsNow': (NOW, NOW + 7 * U),
            'endsNext': (NOW - 2 * U, NOW + U),
            'notYet': (NOW + U, NOW + 7 * U),
            'endsNow': (NOW - 2 * U, NOW),
            'expired': (NOW - 2 * U, NOW - U)}[win]


ADDR6 = 'fd00::1:2:3'
JUMP = '10.9.9.9'


def via_forms(via, name, addr):
    """Spellings of a pattern that matches through the name as dialled,
    through the text of the address, through a CIDR range, or everywhere
    but in a CIDR range."""
    v6 = ':' in addr
    if via == 'name':
        first, dom = name.split('.', 1)
        return [('plain', name), ('hashed', hashed(name)),
                ('wild-prefix', f'{first}.*'), ('wild-suffix', f'*.{dom}'),
                ('list', f'zz.example,{name}'),
                ('neg-other', f'{name},!zz.example')]
    if via == 'addrtext':
        wild = addr[:-1] + '?'
        return [('addr', addr), ('hashed-addr', hashed(addr)),
                ('wild-addr', wild), ('list-addr', f'zz.example,{addr}'),
                ('wild-addr-star', addr[:-1] + '*')]
    nets = ['fd00::/16', 'fd00::1:2:3/128', 'fd00:0:0:0:0:1:2:0/112'] if v6 \
        else ['10.1.0.0/16', '10.1.2.3/32', '10.0.0.0/8']
    if via == 'cidr':
        return [(f'cidr-{n}', n) for n in nets] + \
            [('cidr-list', f'zz.example,{nets[0]}'),
             # an address literal inside a pattern entry is a host route
             ('literal-as-cidr', f'{addr},!zz.example')]
    return [(f'negcidr-{n}', f'*,!{n}') for n in nets] + \
        [('negcidr-literal', f'*,!{addr}')]


def make_presentation(pres, ktype, catype, principal_host, variant,
                      real_host=None, t=None, absolute=False):
    """-> (keypair to give the server, description dict)."""
    k1 = key('K1', ktype)
    k2 = key('K2', ktype)
    info = {}
    if pres['kind'] == 'key':
        kp = asyncssh.load_keypairs([k1])[0]
    else:
        ca = key(pres['ca'], catype)
        va, vb = abs_window(pres['win']) if absolute else \
            window(pres['win'], NOW if t is None else t)
        princ = {'covers': [[principal_host], ['zz.example', principal_host]
                            ][variant % 2],
                 'other': [['zz.example'], [ADDR + '9'],
                           [principal_host + '.evil'],
                           ['*.' + (principal_host.split('.', 1) + ['example'])[1]]
                           ][variant % 4],
                 'empty': []}[pres['princ']]
        if pres['princ'] == 'other' and principal_host == ADDR:
            princ = ['zz.example']
        if pres['princ'] == 'other' and real_host not in (None,
                                                         principal_host):
            # host_key_alias in use: the certificate must name the alias;
            # naming the real host (or its address) is not enough
            princ = [[real_host], [real_host, ADDR]][variant % 2]
        if pres['type'] == 'host':
            cert = ca.generate_host_certificate(
                k1, 'host-id', principals=princ, valid_after=va,
                valid_before=vb)
        else:
            cert = ca.generate_user_certificate(
                k1, 'user-id', principals=princ, valid_after=va,
                valid_before=vb)
        info['principals'] = princ
        info['window'] = (va - NOW, vb - NOW)
        info['clock'] = (NOW if t is None else t) - NOW
        kp = [p for p in asyncssh.load_keypairs([(k1, cert)])
              if p.has_cert][0]
        if not pres['certSig']:
            blob = bytearray(kp.public_data)
            v = variant % 3
            if v == 0:
                blob[-2] ^= 0x01                  # in the CA's signature
            elif v == 1:
                i = bytes(blob).find(b'host-id' if pres['type'] == 'host'
                                     else b'user-id')
                blob[i] ^= 0x01                   # signed content changed
            else:
                blob[-40] ^= 0x80
            kp.public_data = bytes(blob)
            info['cert_tamper'] = v
    if not pres['holds']:
        # the server lies about which key it holds: it presents K1's public
        # key / certificate but can only sign with K2's private key
        alg = kp.sig_algorithm
        kp.sign = lambda data, _k=k2, _kp=kp: _k.sign(data, _kp.sig_algorithm)
    return kp, info


# ---------------------------------------------------------------------------
# one attempt
# ---------------------------------------------------------------------------

class Result:
    pass


# client options that must not change the decision on plain keys and
# OpenSSH certificates: only X.509 is switched on/off by them, or only the
# FORM in which the known hosts are handed over changes
OPTION_SETTINGS = [
    {'x509': 'none'}, {'x509': 'empty'},
    {'paths': 'empty'}, {'paths': 'none'},
    {'x509': 'none', 'paths': 'empty'},
    {'purposes': 'any'}, {'purposes': 'none'},
    {'kh': 'path'}, {'kh': 'object'}, {'kh': 'bytes'}, {'kh': 'pathlist'},
    {'kh': 'callable'}, {'kh': 'tuple'}, {'kh': 'tuple7'},
    {'kh': 'tuple', 'x509': 'none'}, {'kh': 'callable', 'x509': 'none'},
    {'kh': 'object', 'x509': 'none', 'hkalgs': 'default'},
    {'hkalgs': 'default'}, {'hkalgs': 'all'}, {'hkalgs': 'auto'},
    {'hkalgs': 'all', 'x509': 'none'}, {'hkalgs': 'auto', 'x509': 'none'},
    {'hkalgs': 'restricted'},
]


def attempt(case, variant=0, workdir=None, opt=None):
    """case: dict(lines=[{marker,match,key}], port, mode, cbKey, cbCA, pres)
    variant: integer choosing spellings / key types / API forms.
    opt: one of OPTION_SETTINGS (overrides what variant would choose)."""
    v = variant
    opt = opt or {}
    ktype = ['ed25519', 'ecdsa', 'rsa', 'ed25519'][v % 4]
    catype = ['ed25519', 'rsa', 'ecdsa'][(v // 4) % 3]
    use_alias = (v // 3) % 5 == 1
    by_addr = (v // 3) % 5 == 2 and not use_alias
    real_host = ADDR if by_addr else HOST
    shape = case.get('shape', 'na')
    listen_addr = ADDR
    if shape != 'na':
        # connection shape x form of the host as dialled
        use_alias = False
        by_addr = case['hostform'] != 'name'
        listen_addr = ADDR6 if case['hostform'] == 'ip6' else ADDR
        real_host = listen_addr if by_addr else HOST
    lookup_host = ALIAS if use_alias else real_host
    port = case['port']
    P = PORTS[port]
    pres = case['pres']

    # ---- known_hosts text ----
    text = []
    forms = []
    lines = list(case['lines'])
    if case.get('shuffle'):
        # the table lists a *set* of lines: the order in the file is ours
        import random as _random
        _random.Random(v).shuffle(lines)
    for i, ln in enumerate(lines):
        if shape != 'na':
            opts = via_forms(ln['via'], lookup_host, listen_addr)
        else:
            opts = pattern_forms(ln['match'], port, lookup_host, real_host)
        if by_addr and shape == 'na':
            # name == address: an address literal inside a *pattern* entry
            # (one with * ? ! /) is a /32 CIDR pattern and matches whatever
            # the port is; upper-casing does nothing
            opts = [o for o in opts if o[0] not in ('neg-other', 'case')]
        ff = case.get('force_forms')
        fname, pat = opts[(ff[i] if ff else v + 7 * i) % len(opts)]
        kt = catype if ln['key'].startswith('CA') else ktype
        ktxt = ' '.join(pubtext(key(ln['key'], kt)))
        marker = {'plain': '', 'ca': '@cert-authority ',
                  'revoked': '@revoked '}[ln['marker']]
        text.append(f'{marker}{pat} {ktxt} comment{i}')
        forms.append(fname)
    per_line = list(zip(lines, text))
    if v % 7 == 3:
        text.insert(0, '# a comment line')
        text.append('')
    if v % 11 == 5:
        text.append('zz.example ssh-ed25519 AAAAnotbase64!!')   # unparsable
    kh_text = '\n'.join(text) + '\n'

    # the clock at this connection attempt
    if case.get('now') is not None and case.get('time_focus'):
        clock_t = NOW + (case['now'] - 2) * 1000
    else:
        clock_t = NOW + TICKS[(v // 7) % len(TICKS)]
    kp, info = make_presentation(pres, ktype, catype, lookup_host, v,
                                 real_host, t=clock_t,
                                 absolute=bool(case.get('time_focus')))

    r = Result()
    r.forms = forms
    r.kh_text = kh_text
    r.info = dict(info, ktype=ktype, catype=catype, alias=use_alias,
                  by_addr=by_addr)
    r.server_begin_auth = 0
    r.server_passwords = []
    r.server_lost = None
    r.cb_calls = []
    r.client_auth_events = []
    r.accepted = False
    r.exc = None
    r.hung = False

    class Server(asyncssh.SSHServer):
        def connection_lost(self, exc):
            r.server_lost = ('clean',) if exc is None else \
                (type(exc).__name__, str(exc))

        def begin_auth(self, username):
            r.server_begin_auth += 1
            return True

        def password_auth_supported(self):
            return True

        def validate_password(self, username, password):
            r.server_passwords.append(password)
            return password == PASSWORD

    class Client(asyncssh.SSHClient):
        def validate_host_public_key(self, host, addr, port_, key_):
            r.cb_calls.append(('key', host, addr, port_))
            return case['cbKey']

        def validate_host_ca_key(self, host, addr, port_, key_):
            r.cb_calls.append(('ca', host, addr, port_))
            return case['cbCA']

        def auth_banner_received(self, msg, lang):
            r.client_auth_events.append('banner')

        def auth_completed(self):
            r.client_auth_events.append('auth_completed')

    tmp = None
    ckw = {}
    srcdir = None
    home_before = os.environ.get('HOME')
    sources = case.get('userSet', 'na') != 'na'
    config_arg = None
    if sources:
        # ---- where the trust data comes from: default file / config -----
        import tempfile
        srcdir = tempfile.mkdtemp(prefix='src_', dir=workdir)
        home = os.path.join(srcdir, 'home')
        os.makedirs(os.path.join(home, '.ssh'))
        u, g = case['userSet'], case['globalSet']
        paths = {'udef': os.path.join(home, '.ssh', 'known_hosts'),
                 'ucfg1': os.path.join(srcdir, 'user_hosts_1'),
                 'ucfg2': os.path.join(srcdir, 'user_hosts_2'),
                 'gcfg1': os.path.join(srcdir, 'global_hosts_1'),
                 'gcfg2': os.path.join(srcdir, 'global_hosts_2'),
                 'decoy': os.path.join(srcdir, 'decoy_hosts')}
        exists = {'udef': True, 'ucfg1': u in ('one', 'two'),
                  'ucfg2': u == 'two', 'gcfg1': g in ('one', 'two'),
                  'gcfg2': g == 'two', 'decoy': True}
        content = {k: [] for k in paths}
        for ln, t in per_line:
            content[ln['src']].append(t)
        # a file that would accept the server, named only in a block which
        # does not apply to this host
        for kid, mk in (('K1', ''), ('CA1', '@cert-authority ')):
            kt = catype if kid.startswith('CA') else ktype
            content['decoy'].append(
                f'{mk}* ' + ' '.join(pubtext(key(kid, kt))))
        if not content['udef'] and v % 2 == 0:
            exists['udef'] = False          # no default file at all
        for k, pth in paths.items():
            if exists[k]:
                with open(pth, 'w') as f:
                    f.write(''.join(x + '\n' for x in content[k]))
        ud = {'unset': None, 'none': 'UserKnownHostsFile none',
              'one': f'UserKnownHostsFile {paths["ucfg1"]}',
              'two': f'UserKnownHostsFile {paths["ucfg1"]} '
                     f'{paths["ucfg2"]}'}[u]
        gd = {'unset': None, 'one': f'GlobalKnownHostsFile {paths["gcfg1"]}',
              'two': f'GlobalKnownHostsFile {paths["gcfg1"]} '
                     f'{paths["gcfg2"]}'}[g]
        decoy = (f'Host zz.example\n  UserKnownHostsFile {paths["decoy"]}\n'
                 f'  GlobalKnownHostsFile {paths["decoy"]}\n')
        pv = (v // 5) % 5
        ind = lambda d: f'  {d}\n' if d else ''
        top = lambda d: f'{d}\n' if d else ''
        cfgs = []
        if pv == 0:
            cfgs = [top(ud) + top(gd)]
        elif pv == 1:
            cfgs = [decoy + 'Host *\n' + ind(gd) + ind(ud)]
        elif pv == 2:
            # first value wins: a later "Host *" block changes nothing
            # for an option the host's own block has set
            later = ''
            if ud and gd:
                later = decoy.replace('zz.example', '*')
            cfgs = [decoy + f'Host {real_host}\n' + ind(ud) + ind(gd) +
                    later]
        elif pv == 3:
            cfgs = [top(ud) + f'Match host {real_host}\n' + ind(gd)]
        else:
            cfgs = [top(ud) + decoy, 'Host *\n' + ind(gd)]
        config_arg = []
        for n, txt in enumerate(cfgs):
            pth = os.path.join(srcdir, f'ssh_config_{n}')
            with open(pth, 'w') as f:
                f.write(txt)
            config_arg.append(pth)
        os.environ['HOME'] = home
        r.kh_text = ''.join(
            f'--- {k}{"" if exists[k] else " (absent)"}\n' +
            ''.join(x + '\n' for x in content[k]) for k in paths) + \
            ''.join(f'--- config {n}\n{t}' for n, t in enumerate(cfgs))
        r.info['sources'] = {'user': u, 'global': g, 'placement': pv}
    khform = opt.get('kh') or ['bytes', 'path', 'object', 'bytes',
                               'bytes'][v % 5]
    if khform in ('path', 'pathlist') and (not workdir or sources):
        khform = 'bytes'
    if case['mode'] == 'none':
        kh = None
        khform = 'None'
    elif khform in ('path', 'pathlist'):
        tmp = os.path.join(workdir, f'kh_{os.getpid()}_{v}')
        with open(tmp, 'w') as f:
            f.write(kh_text)
        kh = tmp if khform == 'path' else [tmp]
    elif khform == 'object':
        kh = asyncssh.import_known_hosts(kh_text)
    elif khform in ('callable', 'tuple', 'tuple7'):
        # the sets the lookup yields (from the specification), as keys
        def keys_of(ids):
            return [key(k, catype if k.startswith('CA') else ktype)
                    .convert_to_public() for k in ids]
        sets = (keys_of(case['trusted']), keys_of(case['cas']),
                keys_of(case['revoked']))
        if khform == 'tuple7':
            sets = sets + ([], [], [], [])
        if khform == 'callable':
            kh = lambda h, a, p, _s=sets: _s
        else:
            kh = sets
    else:
        kh = kh_text.encode()
    hk = opt.get('hkalgs') or ('all' if (v // 2) % 2 == 0 else 'auto')
    base = {'ed25519': ['ssh-ed25519'],
            'ecdsa': ['ecdsa-sha2-nistp256'],
            'rsa': ['rsa-sha2-256', 'rsa-sha2-512']}[ktype]
    certs = {'ed25519': ['ssh-ed25519-cert-v01@openssh.com'],
             'ecdsa': ['ecdsa-sha2-nistp256-cert-v01@openssh.com'],
             'rsa': ['rsa-sha2-256-cert-v01@openssh.com',
                     'rsa-sha2-512-cert-v01@openssh.com']}[ktype]
    if hk == 'all':
        ckw['server_host_key_algs'] = certs + base
    elif hk == 'default':
        ckw['server_host_key_algs'] = 'default'
    elif hk == 'restricted':
        # the type of the server's key / certificate is not offered
        other = {'ed25519': 'ecdsa-sha2-nistp384', 'ecdsa': 'ssh-ed25519',
                 'rsa': 'ssh-ed25519'}[ktype]
        ckw['server_host_key_algs'] = [
            other + '-cert-v01@openssh.com', other]
    offer_all = hk in ('all', 'default')
    x = opt.get('x509', 'default')
    if x == 'none':
        ckw['x509_trusted_certs'] = None
    elif x == 'empty':
        ckw['x509_trusted_certs'] = []
    xp = opt.get('paths', 'default')
    if xp == 'empty':
        ckw['x509_trusted_cert_paths'] = []
    elif xp == 'none':
        ckw['x509_trusted_cert_paths'] = None
    pu = opt.get('purposes', 'default')
    if pu == 'any':
        ckw['x509_purposes'] = 'any'
    elif pu == 'none':
        ckw['x509_purposes'] = None
    r.info['opt'] = dict(opt, kh=khform, hkalgs=hk)
    if use_alias:
        ckw['host_key_alias'] = ALIAS
    r.info['offer_all'] = offer_all

    mitm = H.Mitm('ecdh', ())
    loop = new_loop()
    loop.net.dns[HOST] = ADDR
    if shape != 'tunnel':
        mitm.install(loop)
    r.info['shape'] = (shape, case.get('hostform'))
    r.jump_forwarded = []

    class Jump(asyncssh.SSHServer):
        """Jump host: no authentication, forwards direct-tcpip."""

        def begin_auth(self, username):
            return False

        def connection_requested(self, dest_host, dest_port, orig_host,
                                 orig_port):
            r.jump_forwarded.append((dest_host, dest_port))
            return True
    clock.now = clock_t
    st = {}

    async def go():
        st['acc'] = await asyncssh.listen(
            listen_addr, P, server_factory=Server, server_host_keys=[kp],
            kex_algs=['curve25519-sha256'])
        tun = {}
        if shape == 'tunnel':
            # a real tunnelled connection: through another SSH connection
            # (no peer address of its own at the inner client)
            st['jacc'] = await asyncssh.listen(
                JUMP, 22, server_factory=Jump,
                server_host_keys=[key('JUMP', 'ed25519')])
            st['jump'] = await asyncssh.connect(
                JUMP, 22, known_hosts=None, config=None, client_keys=None,
                username='j')
            tun = {'tunnel': st['jump']}
        if sources:
            src_kw = {'config': config_arg}     # known_hosts not given
        else:
            src_kw = {'known_hosts': kh, 'config': None}
        conn = await asyncssh.connect(
            real_host, P, client_keys=None,
            client_factory=Client, username='u', password=PASSWORD,
            kex_algs=['curve25519-sha256'], **src_kw, **ckw, **tun)
        st['conn'] = conn
        r.peer_addr = getattr(conn, '_peer_addr', None)
        r.accepted = True
        return conn

    try:
        try:
            loop.run_until_complete(go())
        except Deadlock:
            r.hung = True
        except Exception as exc:            # pylint: disable=broad-except
            r.exc = exc
        if 'conn' in st:
            st['conn'].abort()
        if 'jump' in st:
            st['jump'].abort()
        if 'jacc' in st:
            st['jacc'].close()
        if 'acc' in st:
            st['acc'].close()
        try:
            loop.max_time = loop.time() + 1000
            loop.run_until_idle(advance_time=True)
        except BaseException:               # pylint: disable=broad-except
            pass
        r.loop_exceptions = [str(c.get('exception') or c.get('message'))
                             for c in loop.exceptions]
    finally:
        clock.now = None
        close_loop(loop)
        if srcdir:
            import shutil
            if home_before is None:
                os.environ.pop('HOME', None)
            else:
                os.environ['HOME'] = home_before
            shutil.rmtree(srcdir, ignore_errors=True)
        if tmp:
            try:
                os.remove(tmp)
            except OSError:
                pass
    r.client_types = mitm.client_cleartext_types()
    r.client_sent_newkeys = 21 in r.client_types
    r.mitm_errors = mitm.errors
    r.exc_class = type(r.exc).__name__ if r.exc is not None else None
    return r
