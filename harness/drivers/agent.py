"""X04 driver - the SSH agent client of asyncssh and agent forwarding.

A scriptable in-memory ssh-agent (FakeAgent: real wire format, OpenSSH store
semantics; the DRIVER decides when a request is looked at, how the answer is
cut into deliveries, which fault is injected and when the connection ends)
listens on an in-memory UNIX endpoint of the virtual loop.  Behaviours of
specs/Agent/Agent.tla are replayed

  * Part "client": into a real SSHAgentClient used by several caller tasks,
    (transport 'unix') straight over asyncio.open_unix_connection, or
    (transport 'fwd') on the server side of a real client/server Pair, over
    open_agent_connection(), the client relaying to the fake agent;
  * Part "fwd": into a real Pair - sessions with / without auth-agent-req,
    agent channels opened through open_agent_connection(), through the
    listener's path, or by a server that ignores its own gate; raw bytes
    relayed between a server-side end and the fake agent, ends and closes.

Observation.  The only instrumentation is around the stream pair the client
gets from its connection attempt (documented monkeypatch, this file only):
asyncssh.agent.open_agent is wrapped so that (a) the attempt waits for the
driver (Reconnect is a step of its own) and (b) reader and writer are handed
out inside Tap proxies which log, per call of readexactly()/write(), the task
that made it.  With transport 'fwd' no patch is needed: the object given to
SSHAgentClient as agent_path is an adapter with the same two additions.

L1 monitors (violations) are evaluated on what the callers were given, what
the fake agent received / answered and the tap logs; they do not consult the
model.  L2 (divergences) compares the projected state with the model after
every step.
"""

import asyncio
import hashlib
import os
import random
import shutil
import tempfile

import asyncssh
from asyncssh import agent as _agentmod
from asyncssh import _verif
from asyncssh.agent import SSHAgentClient, SSHAgentKeyPair
from asyncssh.packet import PacketDecodeError

from harness.vloop import new_loop, close_loop, Deadlock

# ----------------------------------------------------------------------
# wire format (independent of asyncssh.packet)
# ----------------------------------------------------------------------


def u32(n):
    return int(n).to_bytes(4, 'big')


def sstr(b):
    if isinstance(b, str):
        b = b.encode()
    return u32(len(b)) + b


class Rd:
    def __init__(self, data):
        self.d, self.i = bytes(data), 0

    def left(self):
        return len(self.d) - self.i

    def byte(self):
        if self.left() < 1:
            raise ValueError('short')
        self.i += 1
        return self.d[self.i - 1]

    def u32(self):
        if self.left() < 4:
            raise ValueError('short')
        self.i += 4
        return int.from_bytes(self.d[self.i - 4:self.i], 'big')

    def string(self):
        n = self.u32()
        if self.left() < n:
            raise ValueError('short')
        self.i += n
        return self.d[self.i - n:self.i]

    def rest(self):
        r = self.d[self.i:]
        self.i = len(self.d)
        return r


REQ_TYPE = {'list': (11,), 'sign': (13,), 'add': (17, 25), 'remove': (18,),
            'removeall': (19,), 'lock': (22,), 'unlock': (23,),
            'query': (27,), 'scadd': (20, 26), 'scremove': (21,)}
SC_PROVIDER, SC_PIN = 'x04-provider', '1234'
T_FAILURE, T_SUCCESS, T_IDS, T_SIG = 5, 6, 12, 14
EXTS = [b'query', b'session-bind@openssh.com']
LOCK_PASS = 'right'
ALG = {'sha1': b'ssh-rsa', 's256': b'rsa-sha2-256', 's512': b'rsa-sha2-512'}
FLAG = {'sha1': 0, 's256': 2, 's512': 4}

_KEYS = {}


def keys():
    """name -> dict(priv, blob, comment, alg, ident)"""
    if not _KEYS:
        ed = asyncssh.generate_private_key('ssh-ed25519', comment='ed-key')
        rsa = asyncssh.generate_private_key('ssh-rsa', key_size=1024,
                                            comment='rsa-key')
        ca = asyncssh.generate_private_key('ssh-ed25519')
        cert = ca.generate_user_certificate(rsa, 'x04-cert', principals=['u'])
        edr = Rd(ed.public_data)
        edr.string()
        rr = Rd(rsa.public_data)
        rr.string()
        rr.string()
        _KEYS['ed'] = dict(priv=ed, blob=ed.public_data, comment=b'ed-key',
                           alg=b'ssh-ed25519', ident=edr.string())
        _KEYS['rsa'] = dict(priv=rsa, blob=rsa.public_data, comment=b'rsa-key',
                            alg=b'ssh-rsa', ident=rr.string())
        _KEYS['cert'] = dict(priv=None, blob=cert.public_data,
                             comment=b'cert-key',
                             alg=b'ssh-rsa-cert-v01@openssh.com', ident=None)
    return _KEYS


RSA3 = (b'rsa-sha2-256', b'rsa-sha2-512', b'ssh-rsa')


def expected_attrs(name):
    """what an SSHAgentKeyPair built for this identity must say"""
    k = keys()[name]
    if name == 'ed':
        sig, host = (k['alg'],), (k['alg'],)
    elif name == 'rsa':
        sig, host = RSA3, RSA3
    else:
        sig, host = RSA3, (k['alg'],)
    return dict(algorithm=k['alg'], public_data=k['blob'],
                key_public_data=k['blob'], comment=k['comment'],
                sig_algorithms=tuple(sig), host_key_algorithms=tuple(host),
                has_cert=name == 'cert')


def sig_bytes(name, data, flags):
    """the signature the fake agent produces (symbolic, but it names the key,
    the data and the hash the flags select the way ssh-agent does)"""
    k = keys()[name]
    if name in ('rsa', 'cert'):
        alg = b'rsa-sha2-256' if flags & 2 else \
            b'rsa-sha2-512' if flags & 4 else b'ssh-rsa'
    else:
        alg = k['alg']
    body = b'X04SIG|' + hashlib.sha256(k['blob']).hexdigest()[:12].encode() + \
        b'|' + data + b'|' + str(flags).encode()
    return sstr(alg) + sstr(body)


# ----------------------------------------------------------------------
# the fake agent
# ----------------------------------------------------------------------

class AgentConn(asyncio.Protocol):
    """one connection accepted by the fake agent"""

    def __init__(self, agent):
        self.agent = agent
        self.idx = len(agent.conns)
        agent.conns.append(self)
        self.inbuf = bytearray()
        self.parsed = 0             # bytes of inbuf cut into frames
        self.frames = []            # [dict(off, body, done)]
        self.out = []               # undelivered tokens: bytes | None (= EOF)
        self.sent = []              # [(serial, bytes)] handed to the transport
        self.eof_in = self.lost = self.closed_by_us = self.closing = False
        self.t = None
        self.raw_in = []            # relay part: chunks as received

    def connection_made(self, transport):
        self.t = transport

    def data_received(self, data):
        self.inbuf += data
        self.raw_in.append(bytes(data))
        if self.agent.auto:         # answer at once, whole frames
            while self.pending():
                self.agent.anon -= 1
                self.agent.process(self, self.agent.anon, 'none', None, 1)
                self.deliver(len(self.out))

    def eof_received(self):
        self.eof_in = True
        return self.agent.keep_half_open

    def connection_lost(self, exc):
        self.lost = True

    # ---- requests --------------------------------------------------------
    def parse(self):
        while len(self.inbuf) - self.parsed >= 4:
            n = int.from_bytes(self.inbuf[self.parsed:self.parsed + 4], 'big')
            if len(self.inbuf) - self.parsed - 4 < n:
                break
            body = bytes(self.inbuf[self.parsed + 4:self.parsed + 4 + n])
            self.frames.append(dict(off=self.parsed, body=body, done=False,
                                    n=n))
            self.parsed += 4 + n

    def pending(self):
        self.parse()
        if self.closing:            # it has stopped reading
            for f in self.frames:
                f['done'] = True
        return [f for f in self.frames if not f['done']]

    def partial(self):
        self.parse()
        return len(self.inbuf) - self.parsed

    # ---- answers ---------------------------------------------------------
    def queue_frame(self, serial, frame, units, rng, ntok=None, eof=False):
        cuts = cut_points(len(frame), units, rng)
        toks = [frame[a:b] for a, b in zip([0] + cuts, cuts + [len(frame)])]
        if ntok is not None:
            toks = toks[:ntok]
        self.out += [(serial, t) for t in toks]
        if eof:
            self.out.append(None)

    def deliver(self, n):
        """hand the next n tokens to the transport as ONE write"""
        took = []
        while n > 0 and self.out and self.out[0] is not None:
            took.append(self.out.pop(0))
            n -= 1
        if took and not self.t.is_closing():
            for s, b in took:
                if self.sent and self.sent[-1][0] == s:
                    self.sent[-1] = (s, self.sent[-1][1] + b)
                else:
                    self.sent.append((s, b))
            self.t.write(b''.join(b for _, b in took))
        return len(took)

    def deliver_eof(self):
        if self.out and self.out[0] is None:
            self.out.pop(0)
        self.close()

    def close(self):
        self.closed_by_us = self.closing = True
        if self.t is not None:
            self.t.close()


def cut_points(n, units, rng):
    """units - 1 distinct cut positions in 1..n-1; half of the time one of
    them falls inside the 4-byte length"""
    units = min(units, n)
    if units <= 1:
        return []
    cuts = set()
    if rng.random() < 0.5:
        cuts.add(rng.randint(1, min(3, n - 1)))
    if rng.random() < 0.25 and n > 4:
        cuts.add(4)
    while len(cuts) < units - 1:
        cuts.add(rng.randint(1, n - 1))
    return sorted(cuts)[:units - 1]


class FakeAgent:
    ORDER = ('ed', 'rsa', 'cert')

    def __init__(self, loop, path, init_store=(), rng=None):
        self.loop, self.path = loop, path
        self.rng = rng or random.Random(0)
        self.store = {k: 'plain' for k in init_store}
        self.locked = False
        self.conns = []
        self.server = None
        self.keep_half_open = False
        self.answers = {}           # serial -> dict(...)
        self.seen = {}              # serial -> parsed request
        self.anon = 0
        self.auto = False
        self.real_sign = False

    def start(self):
        async def go():
            self.server = await self.loop.create_unix_server(
                lambda: AgentConn(self), self.path)
        self.loop.run_until_complete(go())

    def stop(self):
        if self.server is not None:
            self.server.close()
            self.server = None

    @property
    def listening(self):
        return self.server is not None

    # ---- semantics (OpenSSH ssh-agent) -------------------------------------
    def key_of_blob(self, blob):
        for name, k in keys().items():
            if k['blob'] == blob:
                return name
        return None

    def parse_request(self, body):
        """-> dict(type, kind, ...) ; raises ValueError when malformed"""
        r = Rd(body)
        t = r.byte()
        q = dict(type=t, kind='?')
        if t == 11:
            q['kind'] = 'list'
        elif t == 13:
            q.update(kind='sign', blob=r.string(), data=r.string(),
                     flags=r.u32())
            q['key'] = self.key_of_blob(q['blob'])
        elif t in (17, 25):
            alg = r.string()
            nf = {b'ssh-ed25519': 2, b'ssh-rsa': 6}.get(alg)
            if nf is None:
                raise ValueError(f'add: algorithm {alg!r}')
            fields = [r.string() for _ in range(nf)]
            comment = r.string()
            ident = fields[0]
            name = [n for n, k in keys().items() if k['ident'] == ident]
            cons, life = 'plain', None
            while r.left():
                c = r.byte()
                if c == 1:
                    life = r.u32()
                    cons = 'life'
                elif c == 2:
                    cons = 'confirm'
                else:
                    raise ValueError(f'add: constraint {c}')
            q.update(kind='add', key=name[0] if name else None,
                     comment=comment, cons=cons, life=life,
                     constrained=t == 25)
        elif t == 18:
            q.update(kind='remove', blob=r.string())
            q['key'] = self.key_of_blob(q['blob'])
        elif t == 19:
            q['kind'] = 'removeall'
        elif t in (22, 23):
            q.update(kind='lock' if t == 22 else 'unlock',
                     passphrase=r.string())
        elif t == 27:
            q.update(kind='query', ext=r.string())
        elif t in (20, 26, 21):
            q.update(kind='scremove' if t == 21 else 'scadd',
                     provider=r.string(), pin=r.string(),
                     constrained=t == 26)
            cons, life = 'plain', None
            while r.left():
                c = r.byte()
                if c == 1:
                    life = r.u32()
                    cons = 'life'
                elif c == 2:
                    cons = 'confirm'
                else:
                    raise ValueError(f'smartcard: constraint {c}')
            q.update(cons=cons, life=life)
        if r.left():
            raise ValueError(f'{q["kind"]}: {r.left()} trailing bytes')
        return q

    def execute(self, q):
        """carry the request out -> (type, payload, value)"""
        kind, lk = q['kind'], self.locked
        ok, no = (T_SUCCESS, b'', None), (T_FAILURE, b'', None)
        if kind == 'list':
            ids = [] if lk else [n for n in self.ORDER if n in self.store]
            pl = u32(len(ids)) + b''.join(
                sstr(keys()[n]['blob']) + sstr(keys()[n]['comment'])
                for n in ids)
            return T_IDS, pl, ids
        if kind == 'sign':
            if lk or q['key'] not in self.store:
                return no
            if self.real_sign:
                name = 'rsa' if q['key'] == 'cert' else q['key']
                alg = keys()[name]['alg']
                if name == 'rsa':
                    alg = b'rsa-sha2-256' if q['flags'] & 2 else \
                        b'rsa-sha2-512' if q['flags'] & 4 else b'ssh-rsa'
                sig = keys()[name]['priv'].sign(q['data'], alg)
            else:
                sig = sig_bytes(q['key'], q['data'], q['flags'])
            return T_SIG, sstr(sig), sig
        if kind == 'add':
            if lk or q['key'] is None:
                return no
            self.store[q['key']] = q['cons']
            return ok
        if kind == 'remove':
            if lk or q['key'] not in self.store:
                return no
            del self.store[q['key']]
            return ok
        if kind == 'removeall':
            if lk:
                return no
            self.store.clear()
            return ok
        if kind == 'lock':
            if lk:
                return no
            self.locked = True
            return ok
        if kind == 'unlock':
            if lk and q['passphrase'] == LOCK_PASS.encode():
                self.locked = False
                return ok
            return no
        if kind in ('scadd', 'scremove'):
            return no if lk or q['provider'] != SC_PROVIDER.encode() else ok
        if kind == 'query':
            if lk or q.get('ext') != b'query':
                return no
            return T_SUCCESS, b''.join(sstr(e) for e in EXTS), list(EXTS)
        return no

    def bad_body(self, kind, honest):
        """a frame of the type the caller expects whose body does not parse"""
        v = self.rng.randrange(2)
        k = keys()['ed']
        one = sstr(k['blob']) + sstr(k['comment'])
        if kind == 'list':
            return bytes([T_IDS]) + (u32(2) + one if v else u32(1) + one + b'X')
        if kind == 'sign':
            return bytes([T_SIG]) + (sstr(b'sig') + b'X' if v else
                                     u32(9) + b'sig')
        if kind == 'query':
            return bytes([T_SUCCESS]) + (u32(10) + b'ab' if v else
                                         sstr(b'\xff\xfe'))
        return bytes([T_SUCCESS]) + b'X'

    def process(self, conn, serial, fault='none', k=None, units=2):
        """look at the oldest request of conn; answer it (with the fault)"""
        f = conn.pending()[0]
        f['done'] = True
        rec = dict(serial=serial, conn=conn.idx, fault=fault, req=None,
                   rtype=None, value=None, frame=b'', complete=False,
                   malformed=None)
        try:
            q = self.parse_request(f['body'])
        except ValueError as exc:
            q = dict(kind='?', type=f['body'][0] if f['body'] else None)
            rec['malformed'] = str(exc)
        rec['req'] = q
        does = fault in ('none', 'trunc', 'over')
        ends = fault in ('trunc', 'over', 'close')
        if does:
            t, pl, val = self.execute(q)
            body = bytes([t]) + pl
            rec.update(rtype=t, value=val)
        elif fault == 'wrong':
            body = bytes([99])
            rec['rtype'] = 99
        elif fault == 'bad':
            body = self.bad_body(q['kind'], None)
            rec['rtype'] = body[0]
        elif fault == 'zero':
            body = b''
        else:
            body = None
        if body is not None:
            if fault == 'over':
                frame = u32(len(body) + self.rng.choice(
                    [1, 7, 1000, 0x7ffffff0])) + body
            else:
                frame = u32(len(body)) + body
            rec['frame'] = frame
            conn.queue_frame(serial, frame, units, self.rng,
                             ntok=k if fault == 'trunc' else None, eof=ends)
            rec['complete'] = not ends
            rec['will_send'] = sum(len(b) for s, b in
                                   [x for x in conn.out if x is not None]
                                   if s == serial)
        else:
            conn.out.append(None)
            rec['will_send'] = 0
        if ends:
            conn.closing = True
        self.answers[serial] = rec
        return rec

    def execute_only(self, conn, frame, serial):
        """a request left on a dropped connection is carried out, no answer"""
        frame['done'] = True
        try:
            q = self.parse_request(frame['body'])
        except ValueError:
            return
        self.execute(q)
        self.answers.setdefault(serial, dict(serial=serial, conn=conn.idx,
                                             fault='orphan', req=q,
                                             rtype=None, value=None,
                                             frame=b'', complete=False,
                                             malformed=None, will_send=0))


# ----------------------------------------------------------------------
# taps around the client's stream pair
# ----------------------------------------------------------------------

class TapReader:
    def __init__(self, inner, world, cid):
        self._inner, self._world, self._cid = inner, world, cid

    async def readexactly(self, n):
        w = self._world
        who = w.serial_of_task()
        try:
            data = await self._inner.readexactly(n)
        except BaseException as exc:
            part = getattr(exc, 'partial', b'') or b''
            w.rlog.append((self._cid, who, bytes(part), type(exc).__name__))
            raise
        w.rlog.append((self._cid, who, bytes(data), None))
        return data

    def __getattr__(self, name):
        return getattr(self._inner, name)


class TapWriter:
    def __init__(self, inner, world, cid):
        self._inner, self._world, self._cid = inner, world, cid

    def write(self, data):
        w = self._world
        w.wlog.append((self._cid, w.serial_of_task(), bytes(data)))
        return self._inner.write(data)

    def close(self):
        self._world.closes.append((self._cid, self._world.serial_of_task()))
        return self._inner.close()

    def __getattr__(self, name):
        return getattr(self._inner, name)


# ----------------------------------------------------------------------
# Part "client"
# ----------------------------------------------------------------------

FAIL_TEXT = {'sign': 'Unable to sign with requested key',
             'add': 'Unable to add key', 'remove': 'Key not found',
             'removeall': 'Unable to remove all keys',
             'lock': 'Unable to lock SSH agent',
             'unlock': 'Unable to unlock SSH agent',
             'scadd': 'Unable to add keys', 'scremove': 'Keys not found'}
SUCC_OPS = ('add', 'remove', 'removeall', 'lock', 'unlock', 'scadd',
            'scremove')


def py_decode(kind, rtype, payload_ok=True):
    """outcome class a caller of `kind` must get from a complete frame of
    type rtype (the agent protocol as documented for asyncssh's API)"""
    if rtype == T_IDS:
        return 'ok' if kind == 'list' else 'unk'
    if rtype == T_SIG:
        return 'ok' if kind == 'sign' else 'unk'
    if rtype == T_SUCCESS:
        return 'ok' if kind in SUCC_OPS or kind == 'query' else 'unk'
    if rtype == T_FAILURE:
        return 'ok' if kind == 'query' else 'unk' if kind == 'list' else 'fail'
    return 'unk'


class CallRec:
    def __init__(self, idx, serial, op):
        self.idx, self.serial, self.op = idx, serial, op
        self.task = None
        self.kind = op['k']
        self.outcome = None         # (class, value / text)
        self.cancelled_by_harness = False
        self.gates = 0
        self.data = b'data-%d' % serial
        self.want_flags = 0


class ClientWorld:
    """one SSHAgentClient, NC caller slots, one fake agent"""

    def __init__(self, transport='unix', init_store=('ed',), units=2, seed=0,
                 workdir=None):
        self.transport = transport
        self.units = units
        self.rng = random.Random(seed)
        self.path = f'/x04/agent-{os.getpid()}'
        self.calls = {}             # serial -> CallRec
        self.current = {}           # caller idx -> CallRec
        self.by_task = {}
        self.gates = []             # [(serial, future)] connection attempts
        self.connects = []          # [(cid, serial)] streams handed out
        self.next_agent, self.dead = 0, 0
        self.wlog, self.rlog, self.closes = [], [], []
        self.l1 = []
        self.l2 = []
        self.notes = []
        self.touched = set()
        self.pair = None
        self.tmp = None
        self.release = None
        self._old_open = None
        self._old_tmp = None
        if transport == 'unix':
            self.loop = new_loop()
            self.agent = FakeAgent(self.loop, self.path, init_store, self.rng)
            self.agent.start()
            self._patch()
            self.client = SSHAgentClient(self.path)
        elif transport == 'fwd':
            self._start_pair(workdir, init_store)
            self.client = SSHAgentClient(_Adapter(self))
        else:
            # 'fwdpath': a process on the server connects to the path of
            # the agent listener (what SSH_AUTH_SOCK points to over there)
            self._start_pair(workdir, init_store)
            self._patch()
            self.client = SSHAgentClient(
                self.pair.sconn.get_agent_path() or '/x04/no-listener')

    # ---- plumbing ----------------------------------------------------------
    def serial_of_task(self):
        try:
            t = asyncio.current_task()
        except RuntimeError:
            t = None
        c = self.by_task.get(t)
        return c.serial if c else None

    async def _gate(self):
        s = self.serial_of_task()
        c = self.calls.get(s)
        if c is not None:
            c.gates += 1
        fut = self.loop.create_future()
        self.gates.append((s, fut))
        try:
            await fut
        finally:
            self.gates[:] = [g for g in self.gates if g[1] is not fut]
        return s

    def new_cid(self, serial):
        """identity of a stream pair handed to the client: the index of the
        connection the fake agent accepts for it, negative when it cannot
        reach the agent (path of the forwarding listener, agent down)"""
        if self.agent.listening:
            cid = self.next_agent
            self.next_agent += 1
        else:
            self.dead += 1
            cid = -self.dead
        self.connects.append((cid, serial))
        return cid

    def _patch(self):
        world = self
        self._old_open = _agentmod.open_agent
        orig = self._old_open

        async def gated_open(agent_path):
            s = await world._gate()
            reader, writer = await orig(agent_path)
            cid = world.new_cid(s)
            return TapReader(reader, world, cid), TapWriter(writer, world, cid)

        _agentmod.open_agent = gated_open

    def _start_pair(self, workdir, init_store):
        from harness.sshpair import Pair
        self.tmp = tempfile.mkdtemp(prefix='X04c', dir=workdir)
        self._old_tmp = tempfile.tempdir
        tempfile.tempdir = self.tmp
        world = self

        async def handler(process):
            await world.release.wait()
            process.exit(0)

        self.pair = Pair(server_kw=dict(agent_forwarding=True,
                                        process_factory=handler),
                         client_kw=dict(agent_path=None,
                                        agent_forwarding=self.path))
        self.loop = self.pair.loop
        self.agent = FakeAgent(self.loop, self.path, init_store, self.rng)
        self.agent.start()
        self.pair.start()
        self.release = asyncio.Event()

        async def go():
            self.proc = await self.pair.conn.create_process('wait',
                                                            encoding=None)
        self.loop.run_until_complete(go())
        self.loop.run_until_idle()

    def stop(self):
        try:
            for c in self.calls.values():
                if c.task is not None and not c.task.done():
                    c.task.cancel()
            for _, fut in list(self.gates):
                if not fut.done():
                    fut.cancel()
            try:
                self.client.close()
            except Exception:           # pylint: disable=broad-except
                pass
            self.agent.stop()
            for c in self.agent.conns:
                c.close()
            self.loop.run_until_idle()
        except BaseException:           # pylint: disable=broad-except
            pass
        if self._old_open is not None:
            _agentmod.open_agent = self._old_open
        if self.pair is not None:
            if self.release is not None:
                self.release.set()
            self.pair.stop()
            tempfile.tempdir = self._old_tmp
            shutil.rmtree(self.tmp, ignore_errors=True)
        else:
            close_loop(self.loop)

    def flag(self, clause, detail, defect='none'):
        if not any(c == clause and d == defect for c, _, d in self.l1):
            self.l1.append((clause, detail, defect))

    # ---- operations ----------------------------------------------------------
    def _coro(self, c):
        cl, op, kk = self.client, c.op, keys()
        kind, name, a = op['k'], op['key'], op['a']

        def kp():
            k = kk[name]
            return SSHAgentKeyPair(cl, k['alg'], k['blob'], k['comment'])

        async def run():
            if kind == 'list':
                res = await (cl.get_keys() if name == '-' else
                             cl.get_keys([kk[name]['blob']]))
                return [dict(algorithm=x.algorithm, public_data=x.public_data,
                             key_public_data=x.key_public_data,
                             comment=x.get_comment_bytes(),
                             sig_algorithms=tuple(x.sig_algorithms),
                             host_key_algorithms=tuple(x.host_key_algorithms),
                             has_cert=x.has_cert, agent=x._agent is cl,
                             keytype=x.get_key_type()) for x in res]
            if kind == 'sign':
                if not a:
                    return await cl.sign(kk[name]['blob'], c.data)
                pair = kp()
                for alg in a:
                    pair.set_sig_algorithm(ALG[alg])
                return await pair.sign_async(c.data)
            if kind == 'add':
                return await cl.add_keys(
                    [kk[name]['priv']],
                    lifetime=60 if a[0] == 'life' else None,
                    confirm=a[0] == 'confirm')
            if kind == 'remove':
                if c.serial % 2:
                    return await kp().remove()
                return await cl.remove_keys([kp()])
            if kind == 'removeall':
                return await cl.remove_all()
            if kind == 'lock':
                return await cl.lock(LOCK_PASS)
            if kind == 'unlock':
                return await cl.unlock(a[0])
            if kind == 'query':
                return await cl.query_extensions()
            if kind == 'scadd':
                return await cl.add_smartcard_keys(
                    SC_PROVIDER, SC_PIN,
                    lifetime=60 if a[0] == 'life' else None,
                    confirm=a[0] == 'confirm')
            if kind == 'scremove':
                return await cl.remove_smartcard_keys(SC_PROVIDER, SC_PIN)
            raise AssertionError(kind)

        async def wrapped():
            try:
                val = await run()
            except asyncio.CancelledError:
                c.outcome = ('cancel', None)
                raise
            except PacketDecodeError as exc:
                c.outcome = ('dec', str(exc))
            except ValueError as exc:
                text = str(exc)
                if text.startswith('Unknown SSH agent response'):
                    c.outcome = ('unk', text)
                elif text == FAIL_TEXT.get(kind):
                    c.outcome = ('fail', text)
                elif text == 'Invalid extension type name':
                    c.outcome = ('dec', text)
                else:
                    c.outcome = ('lost', text)
            except asyncssh.ChannelOpenError as exc:
                c.outcome = ('lost', f'ChannelOpenError: {exc.reason}')
                if self.transport != 'fwd':
                    c.outcome = ('exc', repr(exc))
                else:
                    self.notes.append('ChannelOpenError')
            except BaseException as exc:    # pylint: disable=broad-except
                c.outcome = ('exc', f'{type(exc).__name__}: {exc}')
            else:
                c.outcome = ('ok', val)
        return wrapped()

    def call(self, idx, op):
        serial = len(self.calls) + 1
        c = CallRec(idx, serial, op)
        if op['k'] == 'sign' and op['a']:
            c.want_flags = FLAG[op['a'][-1]]
        self.calls[serial] = c
        self.current[idx] = c
        c.task = self.loop.create_task(self._coro(c))
        self.by_task[c.task] = c
        self.loop.run_until_idle()
        return c

    # ---- agent side ----------------------------------------------------------
    def serial_of_frame(self, conn, frame):
        """which call wrote the request that starts at frame['off']"""
        pos = 0
        for cid, s, data in self.wlog:
            if cid != conn.idx:
                continue
            if pos <= frame['off'] < pos + len(data):
                return s
            pos += len(data)
        return None

    def active_conn(self):
        """the connection the client is (or was last) writing on"""
        if self.wlog:
            cid = self.wlog[-1][0]
            if 0 <= cid < len(self.agent.conns):
                return self.agent.conns[cid]
        return self.agent.conns[-1] if self.agent.conns else None

    def find_request(self, serial):
        for conn in self.agent.conns:
            for f in conn.pending():
                if self.serial_of_frame(conn, f) == serial:
                    return conn, f
        return None, None

    def process(self, serial, fault, k):
        """the agent answers request `serial` (and, the protocol being
        positional, every older request of that connection before it)"""
        conn, f = self.find_request(serial)
        if conn is None:
            return f'process {serial}: the agent holds no such request'
        note = None
        while True:
            g = conn.pending()[0]
            s = self.serial_of_frame(conn, g)
            if g is f:
                self.agent.process(conn, serial, fault, k, self.units)
                break
            note = (f'process {serial}: request {s} is still ahead of it on '
                    f'connection {conn.idx}')
            self.agent.process(conn, s if s is not None else -1, 'none',
                               None, self.units)
        return note

    def orphan(self, serial, execute=True):
        conn, f = self.find_request(serial)
        if conn is None:
            return None if serial in self.agent.answers else \
                f'orphan {serial}: the agent holds no such request'
        if conn is self.active_conn() and not conn.lost and not conn.eof_in:
            # the code kept the connection: it will be answered in turn
            return f'orphan {serial}: its connection {conn.idx} is still in use'
        if execute:
            self.agent.execute_only(conn, f, serial)
        else:
            f['done'] = True
        return None

    def deliver(self, n):
        conn = self.out_conn()
        if conn is None:
            return 'deliver: nothing to deliver'
        got = conn.deliver(n)
        self.loop.run_until_idle()
        return None if got == n else f'deliver {n}: only {got} tokens'

    def out_conn(self):
        for conn in self.agent.conns:
            if conn.out and not conn.lost:
                return conn
        for conn in self.agent.conns:
            if conn.out:
                return conn
        return None

    def deliver_eof(self):
        conn = self.out_conn()
        if conn is None or conn.out[0] is not None:
            return 'delivereof: no end of file at the head of the queue'
        conn.deliver_eof()
        self.loop.run_until_idle()
        return None

    def agent_closes(self):
        conn = self.active_conn()
        if conn is None or conn.lost or conn.closing:
            return 'agentcloses: no open connection'
        conn.closing = True
        conn.out.append(None)
        return None

    def reconnect(self, idx):
        c = self.current.get(idx)
        for s, fut in self.gates:
            if c is not None and s == c.serial and not fut.done():
                fut.set_result(None)
                self.loop.run_until_idle()
                return None
        return f'reconnect {idx}: no connection attempt is waiting'

    def cancel(self, idx):
        c = self.current.get(idx)
        if c is None or c.task.done():
            return f'cancel {idx}: not in a call'
        c.cancelled_by_harness = True
        c.where = self.where(c)
        c.task.cancel()
        self.loop.run_until_idle()
        if c.where == 'sent' and self.client._writer is not None:
            # the rule of the pinned tree: the connection is kept although
            # an answer is outstanding on it (the model drops it)
            self.touched.add('cancel_keeps_connection')
        return None

    def user_close(self):
        self.client.close()
        self.loop.run_until_idle()

    def listen(self, on):
        if on and not self.agent.listening:
            self.agent.start()
        elif not on:
            self.agent.stop()
        self.loop.run_until_idle()

    # ---- projection ----------------------------------------------------------
    def where(self, c):
        if c.task.done():
            return 'done'
        if any(s == c.serial for s, _ in self.gates):
            return 'conn'
        if any(s == c.serial for _, s, _ in self.wlog):
            return 'sent'
        return 'wait'

    def project(self):
        pcs = {}
        for idx, c in self.current.items():
            pcs[idx] = self.where(c)
        conn = self.active_conn()
        return dict(pc=pcs,
                    conn='open' if self.client._writer is not None else 'none',
                    store=dict(self.agent.store), locked=self.agent.locked,
                    c2a=len(conn.pending()) if conn is not None and
                    not conn.lost and not conn.closed_by_us else 0)

    def compare_outcome(self, idx, mk, mv):
        """the outcome of caller idx's current call against the model's"""
        c = self.current.get(idx)
        if c is None:
            return f'caller {idx}: no call'
        ck = c.outcome[0] if c.outcome else None
        if ck != mk:
            return (f'caller {idx} ({c.kind}): outcome {ck} '
                    f'({str(c.outcome[1])[:50] if c.outcome else ""}), '
                    f'model {mk}')
        if mk == 'ok' and c.kind == 'list':
            names = [self.agent.key_of_blob(d['public_data'])
                     for d in c.outcome[1]]
            if sorted(names) != mv['ids']:
                return f'caller {idx}: list {names}, model {mv["ids"]}'
        if mk == 'ok' and c.kind == 'sign':
            want = sig_bytes(mv['key'], c.data, mv['fl'])
            if c.outcome[1] != want:
                return (f'caller {idx}: signature is not that of '
                        f'{mv["key"]} with flags {mv["fl"]}')
        return None

    # ---- L1 ----------------------------------------------------------------
    def judge(self):
        """monitors over the whole run; fills self.l1"""
        ag = self.agent
        cancelled = {s for s, c in self.calls.items()
                     if c.cancelled_by_harness and
                     getattr(c, 'where', '') == 'sent'}
        # -- framing and content of every request --------------------------
        for conn in ag.conns:
            if conn.partial():
                self.flag('Framing', f'connection {conn.idx}: {conn.partial()} '
                          'bytes that are not a complete length-prefixed '
                          'request')
            for f in conn.frames:
                s = self.serial_of_frame(conn, f)
                c = self.calls.get(s)
                if c is None:
                    self.flag('Framing', f'connection {conn.idx}: a request '
                              'written outside any call')
                    continue
                body = f['body']
                if not body or body[0] not in REQ_TYPE[c.kind]:
                    self.flag('RequestRight', f'{c.kind} sent message type '
                              f'{body[:1].hex()}')
                    continue
                try:
                    q = ag.parse_request(body)
                except ValueError as exc:
                    self.flag('RequestRight', f'{c.kind} request malformed: '
                              f'{exc}')
                    continue
                self.check_request(c, q)
        # -- one connection attempt per call, only inside calls -----------
        for s, c in self.calls.items():
            if c.gates > 1:
                self.flag('ConnectOnce', f'call {s} ({c.kind}) made {c.gates} '
                          'connection attempts')
        for cid, s in self.connects:
            if s is None:
                self.flag('ConnectLazy', 'a connection was opened outside any '
                          'call')
        # -- positional pairing: what each caller consumed -----------------
        writes = {}                 # cid -> [serial] in write order
        for cid, s, data in self.wlog:
            writes.setdefault(cid, [])
            if not writes[cid] or writes[cid][-1] != s:
                writes[cid].append(s)
        touch = {}                  # serial -> [(owner of the frame, bytes)]
        for conn in ag.conns:
            owners = [(s, len(b)) for s, b in conn.sent]
            oi, used = 0, 0
            for cid, s, data, exc in self.rlog:
                if cid != conn.idx:
                    continue
                n = len(data)
                while n > 0 and oi < len(owners):
                    own, ln = owners[oi]
                    take = min(n, ln - used)
                    if take > 0:
                        touch.setdefault(s, []).append((own, take, cid))
                    n -= take
                    used += take
                    if used == ln:
                        oi, used = oi + 1, 0
        own_got = {s: sum(n for o, n, _ in t if o == s)
                   for s, t in touch.items()}
        # the answer a caller goes by is the last frame it read from (one
        # that first reads and discards a stale answer is in order)
        desync = {}                 # cid -> defect that put it out of step
        foreign = set()
        for s in sorted(touch):
            own, take, cid = touch[s][-1]
            if own == s:
                continue
            cs, co = self.calls.get(s), self.calls.get(own)
            if cs is None or cs.outcome is None or \
                    cs.outcome[0] not in ('ok', 'fail', 'unk', 'dec'):
                continue            # its outcome does not come from a frame
            foreign.add(s)
            # once a connection is out of step it stays so: whoever uses it
            # after a caller was cancelled with its answer outstanding
            order = writes.get(cid, [])
            before = order[:order.index(s)] if s in order else order
            defect = desync.setdefault(
                cid, 'cancel_keeps_connection'
                if own in cancelled or any(e in cancelled for e in before)
                else 'none')
            self.flag(
                'OwnResponse',
                f'call {s} ({cs.kind if cs else "?"}, caller '
                f'{cs.idx if cs else "?"}) was given the answer to call {own} '
                f'({co.kind if co else "?"}, caller {co.idx if co else "?"}'
                f'{", cancelled while waiting for it" if own in cancelled else ""}'
                f'): the last {take} bytes it read are that frame\'s',
                defect)
        # -- a request is written only on a connection in step --------------
        for cid, order in writes.items():
            for j, s in enumerate(order):
                for e in order[:j]:
                    ce = self.calls.get(e)
                    if ce is None or e == s:
                        continue
                    ans = ag.answers.get(e)
                    full = ans is not None and ans['complete'] and \
                        own_got.get(e, 0) >= len(ans['frame'])
                    if full:
                        continue
                    oc = ce.outcome[0] if ce.outcome else None
                    if oc == 'lost' and e not in foreign:
                        self.flag('NoUseOfBroken', f'call {s} wrote its '
                                  f'request on connection {cid} after call {e} '
                                  'had been told that this connection ended')
                    elif e in cancelled or oc is None or cid in desync:
                        # how the implementation keeps callers apart is its
                        # business (the model: never): not a verdict
                        self.l2.append(
                            f'call {s} wrote its request on connection {cid} '
                            f'while the answer to call {e} '
                            f'({"cancelled" if e in cancelled else oc or "waiting"}) '
                            'was outstanding')
        # -- every caller: the outcome of ITS request ------------------------
        for s, c in self.calls.items():
            if c.outcome is None:
                if c.task is not None and c.task.done() and \
                        not c.task.cancelled() and c.task.exception():
                    c.outcome = ('exc', repr(c.task.exception()))
                else:
                    continue
            oc, val = c.outcome
            if oc == 'exc':
                self.flag('ErrorClass', f'call {s} ({c.kind}) raised {val}; '
                          'the documented failure is ValueError')
                continue
            if oc == 'cancel':
                if not c.cancelled_by_harness:
                    self.flag('ErrorClass', f'call {s} ({c.kind}) was '
                              'cancelled by nobody')
                continue
            if s in foreign:
                continue            # its input was somebody else's answer
            ans = ag.answers.get(s)
            got = own_got.get(s, 0)
            if ans is None or not ans['complete'] or ans['fault'] == 'zero' \
                    or got < len(ans['frame']):
                want = 'lost'
            elif ans['fault'] == 'bad':
                want = 'dec'
            elif ans['fault'] == 'wrong':
                want = 'unk'
            else:
                want = py_decode(c.kind, ans['rtype'])
            # the property speaks of success / documented failure: the finer
            # classes (which ValueError) only matter to the model comparison
            coarse = lambda x: 'error' if x in ('fail', 'unk', 'dec', 'lost') \
                else x
            if coarse(oc) != coarse(want):
                self.flag('OutcomeOfOwn', f'call {s} ({c.kind} '
                          f'{c.op["key"]}): outcome {oc} ({str(val)[:60]}), '
                          f'the agent\'s handling of this request '
                          f'({self.describe(ans)}) means {want}')
                continue
            if oc == 'ok':
                self.check_value(c, ans, val)
        # -- loop exceptions ---------------------------------------------------
        for ctx in self.loop.exceptions:
            self.flag('Exception', repr(ctx.get('exception') or
                                        ctx.get('message'))[:200])

    @staticmethod
    def describe(ans):
        if ans is None:
            return 'never looked at'
        return (f'fault={ans["fault"]} type={ans["rtype"]} '
                f'complete={ans["complete"]}')

    def check_request(self, c, q):
        kk, op = keys(), c.op
        name = op['key']
        if c.kind == 'sign':
            if q['blob'] != kk[name]['blob']:
                self.flag('RequestRight', f'sign names key '
                          f'{q["key"]}, not {name}')
            if q['data'] != c.data:
                self.flag('RequestRight', 'sign carries other data')
            if q['flags'] != c.want_flags:
                seq = list(op['a'])
                defect = 'keypair_flags_accumulate' if len(seq) > 1 and \
                    q['flags'] == (2 * ('s256' in seq) + 4 * ('s512' in seq)) \
                    else 'none'
                self.flag('FlagsRight', f'sign with {name} after '
                          f'set_sig_algorithm{tuple(seq)} sent flags '
                          f'{q["flags"]}, the selected algorithm '
                          f'{ALG[seq[-1]].decode() if seq else "-"} needs '
                          f'{c.want_flags}', defect)
        elif c.kind == 'add':
            want = op['a'][0]
            if q['key'] != name:
                self.flag('RequestRight', f'add uploads {q["key"]}, not {name}')
            if q['cons'] != want or q['constrained'] != (want != 'plain') or \
                    (want == 'life' and q['life'] != 60):
                self.flag('RequestRight', f'add {want}: constraints '
                          f'{q["cons"]} life={q["life"]} type={q["type"]}')
            if q['comment'] != kk[name]['comment']:
                self.flag('RequestRight', f'add comment {q["comment"]!r}')
        elif c.kind == 'remove':
            if q['blob'] != kk[name]['blob']:
                self.flag('RequestRight', f'remove names {q["key"]}, not '
                          f'{name}')
        elif c.kind in ('lock', 'unlock'):
            want = LOCK_PASS if c.kind == 'lock' else op['a'][0]
            if q['passphrase'] != want.encode():
                self.flag('RequestRight', f'{c.kind} passphrase '
                          f'{q["passphrase"]!r}')
        elif c.kind == 'query':
            if q['ext'] != b'query':
                self.flag('RequestRight', f'query extension {q["ext"]!r}')
        elif c.kind in ('scadd', 'scremove'):
            want = op['a'][0] if c.kind == 'scadd' else 'plain'
            if q['provider'] != SC_PROVIDER.encode() or \
                    q['pin'] != SC_PIN.encode() or q['cons'] != want or \
                    q['constrained'] != (want != 'plain') or \
                    (want == 'life' and q['life'] != 60):
                self.flag('RequestRight', f'{c.kind} {want}: provider '
                          f'{q["provider"]!r} pin {q["pin"]!r} constraints '
                          f'{q["cons"]} life={q["life"]} type={q["type"]}')

    def check_value(self, c, ans, val):
        if c.kind == 'list':
            only = c.op['key']
            def norm(d):
                d = dict(d)
                for f in ('sig_algorithms', 'host_key_algorithms'):
                    d[f] = sorted(d[f])
                return d
            want = [norm(expected_attrs(n)) for n in ans['value']
                    if only in ('-', n)]
            got = [norm({k: v for k, v in d.items() if k in want[0]})
                   for d in val] if want else list(val)
            if got != want:
                self.flag('ListIsStore', f'get_keys returned '
                          f'{[d.get("comment") for d in val]}, the agent held '
                          f'{ans["value"]} (or attributes differ: '
                          f'{_diff(got, want)})')
            elif not all(d['agent'] and d['keytype'] == 'agent' for d in val):
                self.flag('ListIsStore', 'key pairs not bound to the agent')
        elif c.kind == 'sign':
            want = sig_bytes(c.op['key'], c.data, c.want_flags)
            if val != want and ans['value'] == val:
                pass                # the request check names the culprit
            elif val != ans['value']:
                self.flag('SignNamesKey', f'sign returned {val[:40]!r}, the '
                          f'agent signed {ans["value"][:40]!r}')
        elif c.kind == 'query':
            got = [x.encode() if isinstance(x, str) else x for x in val]
            want = ans['value'] or []
            if got != want:
                self.flag('OutcomeOfOwn', f'query_extensions returned {val}')
        elif val is not None:
            self.flag('OutcomeOfOwn', f'{c.kind} returned {val!r}')


def _diff(got, want):
    for g, w in zip(got, want):
        for k in w:
            if g.get(k) != w[k]:
                return f'{k}: {g.get(k)!r} != {w[k]!r}'
    return f'{len(got)} entries, {len(want)} expected'


class _Adapter:
    """agent_path object for transport 'fwd': what SSHAgentClient.connect()
    needs from an SSHServerConnection, plus the driver's gate and taps"""

    def __init__(self, world):
        self.world = world

    async def open_agent_connection(self):
        w = self.world
        s = await w._gate()
        reader, writer = await w.pair.sconn.open_agent_connection()
        cid = w.new_cid(s)
        return TapReader(reader, w, cid), TapWriter(writer, w, cid)


INTERNAL = ('acquire', 'start', 'receive', 'fail')


def _op(o):
    return dict(k=o['k'], key=o['key'], a=list(o['a']))


def model_res(r):
    """model result record -> (class, comparable value)"""
    k = r['k']
    if k != 'ok':
        return k, None
    return k, dict(ids=sorted(r['ids']['$set']) if isinstance(r['ids'], dict)
                   else sorted(r['ids']), key=r['key'], fl=r['fl'])


def replay_client(steps, transport='unix', init_store=('ed',), units=2,
                  seed=0, workdir=None):
    """steps: [(lbl, state)] of an Agent.tla behaviour (Part = "client",
    RTC = TRUE) or bare labels.  -> dict(l1, divergences, script, ...)"""
    w = ClientWorld(transport, init_store, units, seed, workdir)
    res = dict(l1=[], divergences=[], script=[], outcomes={}, transport=transport)
    try:
        n = len(steps)
        for j, step in enumerate(steps):
            lbl, st = step if isinstance(step, tuple) and len(step) == 2 \
                and isinstance(step[1], dict) else (step, None)
            kind = lbl[0]
            div = None
            if kind == 'receive':
                div = w.compare_outcome(lbl[1], *model_res(lbl[2]))
            elif kind == 'fail':
                div = w.compare_outcome(lbl[1], 'lost', None)
            elif kind in INTERNAL or kind == 'init':
                pass
            elif kind == 'call':
                c = w.call(lbl[1], _op(lbl[2]))
                res['script'].append(f'call{lbl[1]}:{c.kind}'
                                     f'{"/" + c.op["key"] if c.op["key"] != "-" else ""}'
                                     f'{"/" + "+".join(c.op["a"]) if c.op["a"] else ""}')
            elif kind == 'reconnect':
                div = w.reconnect(lbl[1])
                res['script'].append(f'conn{lbl[1]}')
                if not div and len(lbl) > 2 and not lbl[2]:
                    div = w.compare_outcome(lbl[1], 'lost', None)
            elif kind == 'process':
                div = w.process(lbl[1], lbl[2], lbl[3])
                res['script'].append(f'proc{lbl[1]}'
                                     f'{":" + lbl[2] if lbl[2] != "none" else ""}')
            elif kind in ('orphan', 'forget'):
                div = w.orphan(lbl[1], kind == 'orphan')
                res['script'].append(f'{kind}{lbl[1]}')
            elif kind == 'deliver':
                div = w.deliver(lbl[1])
                res['script'].append(f'dlv{lbl[1]}')
            elif kind == 'delivereof':
                div = w.deliver_eof()
                res['script'].append('eof')
            elif kind == 'agentcloses':
                div = w.agent_closes()
                res['script'].append('aclose')
            elif kind == 'cancel':
                div = w.cancel(lbl[1]) or \
                    w.compare_outcome(lbl[1], 'cancel', None)
                res['script'].append(f'cancel{lbl[1]}')
            elif kind == 'userclose':
                w.user_close()
                res['script'].append('uclose')
            elif kind == 'listen':
                w.listen(bool(lbl[1]))
                res['script'].append(f'listen={lbl[1]}')
            else:
                raise ValueError(f'unknown label {lbl!r}')
            if div:
                res['divergences'].append(f'step {j} {kind}: {div}')
            nxt = steps[j + 1] if j + 1 < n else None
            nk = (nxt[0] if isinstance(nxt, tuple) and len(nxt) == 2 and
                  isinstance(nxt[1], dict) else nxt)
            settled = nxt is not None and nk[0] not in INTERNAL
            if st is not None and settled:
                d = compare_client(w, st)
                if d:
                    res['divergences'].append(f'step {j} {kind}: {d}')
        w.loop.run_until_idle()
        w.judge()
        res['l1'] = list(w.l1)
        res['divergences'] += [f'judge: {x}' for x in w.l2[:2]]
        res['touched'] = sorted(w.touched |
                                {d for _, _, d in w.l1 if d != 'none'})
        res['outcomes'] = {s: (c.kind, c.outcome[0] if c.outcome else None)
                           for s, c in w.calls.items()}
        res['nconn'] = len(w.connects)
        res['chan_open_errors'] = w.notes.count('ChannelOpenError')
    finally:
        w.stop()
    return res


def compare_client(w, st):
    """projected implementation state against the model state"""
    got = w.project()
    for i, c in w.current.items():
        mpc = st['pc'][i - 1]
        gpc = got['pc'][i]
        if mpc == 'locked':
            continue
        if gpc != mpc:
            return f'caller {i}: code {gpc}, model {mpc}'
    if got['conn'] != st['conn']:
        return f'connection: code {got["conn"]}, model {st["conn"]}'
    mstore = {k: v for k, v in st['store'].items() if v != 'no'}
    if got['store'] != mstore or got['locked'] != st['locked']:
        return (f'agent store {got["store"]} locked={got["locked"]}, model '
                f'{mstore} locked={st["locked"]}')
    if got['c2a'] != len(st['c2a']):
        return f'requests at the agent: {got["c2a"]}, model {len(st["c2a"])}'
    return None


# ----------------------------------------------------------------------
# Part "fwd": agent forwarding on one SSH connection
# ----------------------------------------------------------------------

UNIT_SIZES = (7, 33, 120)


def unit(direction, c, j):
    """content of unit j written on channel c towards the agent ('u') or
    towards the server-side end ('d'): distinct, position dependent"""
    n = UNIT_SIZES[(j + c) % len(UNIT_SIZES)]
    base = (23 if direction == 'u' else 131) + 41 * j + 11 * c
    return bytes((base + 5 * i) % 251 for i in range(n))


class RawEnd(asyncio.Protocol):
    """server-side end, how = 'path': a local process connected to the
    listener's socket"""

    def __init__(self):
        self.data = bytearray()
        self.eof = self.lost = False
        self.t = None

    def connection_made(self, transport):
        self.t = transport

    def data_received(self, data):
        self.data += data

    def eof_received(self):
        self.eof = True
        return True

    def connection_lost(self, exc):
        self.lost = True

    def write(self, data):
        self.t.write(data)

    def write_eof(self):
        self.t.write_eof()

    def close(self):
        self.t.close()

    def saw_end(self):
        return self.eof or self.lost


class StreamEnd:
    """server-side end, how = 'api' / 'rogue': SSHReader / SSHWriter"""

    def __init__(self, loop, reader, writer):
        self.reader, self.writer = reader, writer
        self.data = bytearray()
        self.eof = self.lost = False
        self.error = None
        self.task = loop.create_task(self._read())

    async def _read(self):
        try:
            while True:
                d = await self.reader.read(65536)
                if not d:
                    self.eof = True
                    return
                self.data += d
        except asyncio.CancelledError:
            raise
        except Exception as exc:        # pylint: disable=broad-except
            self.error = exc
            self.eof = True

    def write(self, data):
        self.writer.write(data)

    def write_eof(self):
        self.writer.write_eof()

    def close(self):
        self.writer.close()
        if not self.task.done():
            self.task.cancel()

    def saw_end(self):
        return self.eof


FORMS_ON = ('path', 'true', 'env')
FORMS_OFF = ('off', 'off_agent', 'true_nopath')


class FwdWorld:
    def __init__(self, client_fwd=True, server_fwd=True, workdir=None, seed=0,
                 form=None):
        from harness.sshpair import Pair
        self.client_fwd, self.server_fwd = client_fwd, server_fwd
        self.rng = random.Random(seed)
        self.path = f'/x04/fwd-agent-{os.getpid()}'
        forms = FORMS_ON if client_fwd else FORMS_OFF
        self.form = form if form in forms else forms[seed % len(forms)]
        self._old_env = os.environ.get('SSH_AUTH_SOCK')
        os.environ.pop('SSH_AUTH_SOCK', None)
        # how the application spells the client option
        ckw = {'path': dict(agent_path=None, agent_forwarding=self.path),
               'true': dict(agent_path=self.path, agent_forwarding=True,
                            client_keys=[]),
               'env': dict(agent_forwarding=True),
               'off': dict(agent_path=None, agent_forwarding=False),
               'off_agent': dict(agent_path=self.path, client_keys=[],
                                 agent_forwarding=False),
               'true_nopath': dict(agent_path='', agent_forwarding=True),
               }[self.form]
        if self.form == 'env':
            os.environ['SSH_AUTH_SOCK'] = self.path
        self.tmp = tempfile.mkdtemp(prefix='X04f', dir=workdir)
        self._old_tmp = tempfile.tempdir
        tempfile.tempdir = self.tmp
        world = self
        self.release = {}
        self.agent_paths = {}

        async def handler(process):
            name = int(process.command)
            world.agent_paths[name] = process.channel.get_agent_path()
            await world.release[name].wait()
            process.exit(0)

        self.pair = Pair(
            server_kw=dict(agent_forwarding=server_fwd,
                           process_factory=handler),
            client_kw=ckw)
        self.loop = self.pair.loop
        self.agent = FakeAgent(self.loop, self.path, (), self.rng)
        self.agent.keep_half_open = True
        self.agent.start()
        self.loop.net.on_connect = self._on_connect
        self.pair.start()
        self.procs = {}
        self.asked = False
        self.ends = {}              # channel -> RawEnd | StreamEnd
        self.aconn = {}             # channel -> AgentConn
        self.how = {}
        self.wrote = {'u': {}, 'd': {}}     # channel -> bytes written
        self.ended = {'u': {}, 'd': {}}     # channel -> 'eof' | 'close'
        self.upheld = {}            # channel -> bytes held in front of the agent
        self.l1 = []
        self.held = False
        self.opens_seen = []        # (how, accepted by the agent?, asked?)

    def _on_connect(self, ct, st):
        if st.get_extra_info('sockname') == self.path:
            st.auto = False         # the hold in front of the agent

    def flag(self, clause, detail, defect='none'):
        if not any(c == clause and d == defect for c, _, d in self.l1):
            self.l1.append((clause, detail, defect))

    # ---- the hold on the SSH link (towards the server) -----------------------
    def hold(self):
        if not self.held:
            self.loop.run_until_idle()
            self.pair.st.auto = False
            self.held = True

    def flush(self):
        st = self.pair.st
        for _ in range(1000):
            self.loop.run_until_idle()
            if st.closed or not st.inq:
                break
            st.deliver()
        self.loop.run_until_idle()

    def unhold(self):
        if self.held:
            self.flush()
            self.pair.st.auto = True
            self.held = False
            self.loop.run_until_idle()

    # ---- sessions --------------------------------------------------------------
    def requests_on_wire(self):
        """auth-agent-req channel requests the client has sent"""
        n = 0
        for side, name, f in self.pair.events:
            if side == 'c' and name == 'pkt_out' and f.get('pkttype') == 98:
                try:
                    r = Rd(f['payload'])
                    r.byte()
                    r.u32()
                    if r.string() == b'auth-agent-req@openssh.com':
                        n += 1
                except ValueError:
                    pass
        return n

    def open_session(self, s):
        self.unhold()
        self.release[s] = asyncio.Event()
        n0 = self.requests_on_wire()

        async def go():
            self.procs[s] = await self.pair.conn.create_process(
                str(s), encoding=None)
        self.loop.run_until_complete(go())
        self.loop.run_until_idle()
        sent = self.requests_on_wire() - n0
        if sent != (1 if self.client_fwd else 0):
            self.flag('RequestIffOption', f'session {s}: {sent} '
                      f'auth-agent-req sent, client option '
                      f'{self.form} ({"on" if self.client_fwd else "off"})')
        if sent:
            self.asked = True
        return self.agent_paths.get(s)

    def close_session(self, s):
        self.unhold()
        self.release[s].set()

        async def go():
            await self.procs[s].wait_closed()
        self.loop.run_until_complete(go())
        self.loop.run_until_idle()

    def lsn_path(self):
        return self.pair.sconn.get_agent_path()

    # ---- agent channels ----------------------------------------------------------
    def open_agent(self, c, how):
        from asyncssh.stream import SSHReader, SSHWriter, SSHUNIXStreamSession
        self.unhold()
        sconn, loop = self.pair.sconn, self.loop
        n0 = len(self.agent.conns)
        self.how[c] = how
        out, end = None, None

        async def api():
            return await sconn.open_agent_connection()

        async def rogue():
            chan = sconn.create_agent_channel()
            session = await chan.open(SSHUNIXStreamSession)
            return SSHReader(session, chan), SSHWriter(session, chan)

        async def path(p):
            end = RawEnd()
            await loop.create_unix_connection(lambda: end, p)
            return end

        try:
            if how == 'path':
                p = self.lsn_path()
                if p is None:
                    return 'nopath'
                end = loop.run_until_complete(path(p))
                loop.run_until_idle()
                if end.lost or end.eof:
                    out = 'refused'
                else:
                    out = 'open'
            else:
                r, w = loop.run_until_complete(api() if how == 'api'
                                               else rogue())
                end = StreamEnd(loop, r, w)
                out = 'open'
        except asyncssh.ChannelOpenError as exc:
            if exc.code == 1:
                out = 'prohibited'
            elif 'disabled' in exc.reason:
                out = 'disabled'
            else:
                out = 'noagent'
        loop.run_until_idle()
        new = self.agent.conns[n0:]
        self.opens_seen.append((how, bool(new), self.asked))
        if new:
            what = (f'an agent channel opened by the server ({how}) was '
                    'connected to the local agent')
            if not self.client_fwd:
                self.flag('OpenOnlyIfEnabled', what + ' although the client '
                          'has agent forwarding switched off')
            if how != 'rogue' and not (self.client_fwd and self.server_fwd
                                       and self.asked):
                self.flag('OpenOnlyIfGranted', what + f' (client option '
                          f'{self.client_fwd}, server option '
                          f'{self.server_fwd}, requested {self.asked})')
        if out == 'open':
            if len(new) != 1:
                self.flag('OpenReachesAgent', f'channel {c} open, '
                          f'{len(new)} connections at the agent')
                return 'open-noagent'
            self.ends[c] = end
            self.aconn[c] = new[0]
            self.wrote['u'][c] = b''
            self.wrote['d'][c] = b''
            self.upheld[c] = 0
        elif new:
            self.flag('OpenReachesAgent', f'channel {c}: open {out} but the '
                      'agent was connected')
        granted = self.client_fwd and self.agent.listening and \
            (how == 'rogue' or (self.server_fwd and self.asked))
        if granted and out != 'open':
            self.flag('ServedIfGranted', f'agent channel ({how}) refused '
                      f'({out}) although forwarding is enabled on both sides '
                      f'(client option {self.form}), a session has asked '
                      'and the agent accepts connections')
        return out

    def toggle_agent(self, on):
        self.unhold()
        if on:
            self.agent.start()
        else:
            self.agent.stop()
        self.loop.run_until_idle()

    # ---- relay -------------------------------------------------------------------
    def srv_write(self, c):
        j = getattr(self, '_uj', {}).get(c, 0) + 1
        self.__dict__.setdefault('_uj', {})[c] = j
        data = unit('u', c, j)
        self.hold()
        try:
            self.ends[c].write(data)
        except Exception as exc:        # pylint: disable=broad-except
            return f'swrite {c}: {type(exc).__name__}: {exc}'
        self.wrote['u'][c] += data
        self.loop.run_until_idle()
        return None

    def srv_end(self, c, e):
        self.hold()
        try:
            if e == 'eof':
                self.ends[c].write_eof()
            else:
                self.ends[c].close()
        except Exception as exc:        # pylint: disable=broad-except
            return f'send {c} {e}: {type(exc).__name__}: {exc}'
        self.ended['u'][c] = e
        self.loop.run_until_idle()
        return None

    def relay_up(self, c, n):
        """n more units reach the agent"""
        conn = self.aconn[c]
        got = len(conn.inbuf)
        j0 = self._units_in('u', c, got)
        want = sum(len(unit('u', c, j)) for j in range(j0 + 1, j0 + n + 1))
        if conn.t.pending() < want:
            return (f'relayup {c} {n}: {conn.t.pending()} bytes wait in front '
                    f'of the agent, {want} expected')
        conn.t.deliver(want)
        self.loop.run_until_idle()
        return None

    def _units_in(self, d, c, nbytes):
        j, tot = 0, 0
        while tot < nbytes:
            j += 1
            tot += len(unit(d, c, j))
        return j

    def relay_up_end(self, c):
        conn = self.aconn[c]
        t = conn.t
        if t.pending() or not t.inq:
            return (f'relayupend {c}: pending data {t.pending()}, '
                    f'queue {len(t.inq)}')
        t.deliver()
        self.loop.run_until_idle()
        if not conn.eof_in:
            return f'relayupend {c}: the agent saw no end of file'
        return None

    def agt_write(self, c):
        j = getattr(self, '_dj', {}).get(c, 0) + 1
        self.__dict__.setdefault('_dj', {})[c] = j
        data = unit('d', c, j)
        self.hold()
        self.aconn[c].t.write(data)
        self.wrote['d'][c] += data
        self.loop.run_until_idle()
        return None

    def agt_end(self, c, e):
        self.hold()
        conn = self.aconn[c]
        if e == 'eof':
            conn.t.write_eof()
        else:
            conn.t.cut()            # close(): what it has not read is gone
        self.ended['d'][c] = e
        self.loop.run_until_idle()
        return None

    def relay_down(self):
        self.flush()
        return None

    # ---- observation -------------------------------------------------------------
    def observe(self, c):
        conn, end = self.aconn[c], self.ends[c]
        return dict(up_got=len(conn.inbuf), up_end=conn.eof_in or conn.lost,
                    down_got=len(end.data), down_end=end.saw_end())

    def check_prefix(self):
        for c, conn in self.aconn.items():
            got = bytes(conn.inbuf)
            if got != self.wrote['u'][c][:len(got)]:
                self.flag('RelayFIFO', f'channel {c}: the agent received '
                          f'{len(got)} bytes that are not a prefix of the '
                          f'{len(self.wrote["u"][c])} bytes written for it')
            back = bytes(self.ends[c].data)
            if back != self.wrote['d'][c][:len(back)]:
                self.flag('RelayFIFO', f'channel {c}: the server-side end '
                          f'received {len(back)} bytes that are not a prefix '
                          f'of the {len(self.wrote["d"][c])} bytes the agent '
                          'wrote')
            # an end marker never overtakes data
            if conn.eof_in and self.ended['d'].get(c) != 'close' and \
                    got != self.wrote['u'][c]:
                self.flag('EndAfterData', f'channel {c}: the agent saw the '
                          f'end of file after {len(got)} of '
                          f'{len(self.wrote["u"][c])} bytes written before it')
            if self.ends[c].saw_end() and self.ended['u'].get(c) != 'close' \
                    and self.ended['d'].get(c) and back != self.wrote['d'][c]:
                self.flag('EndAfterData', f'channel {c}: the server-side end '
                          f'saw the end of file after {len(back)} of '
                          f'{len(self.wrote["d"][c])} bytes the agent wrote '
                          'before it')

    def finish(self):
        """deliver everything that is held, then judge what must have
        arrived; close the SSH connection and look for leftovers"""
        loop = self.loop
        self.unhold()
        for c, conn in self.aconn.items():
            for _ in range(100):
                if conn.t.closed or not conn.t.inq:
                    break
                conn.t.deliver()
                loop.run_until_idle()
        loop.run_until_idle()
        self.check_prefix()
        for c, conn in self.aconn.items():
            ue, de = self.ended['u'].get(c), self.ended['d'].get(c)
            got, back = bytes(conn.inbuf), bytes(self.ends[c].data)
            if de != 'close' and got != self.wrote['u'][c]:
                self.flag('RelayFIFO', f'channel {c}: at rest the agent has '
                          f'{len(got)} of {len(self.wrote["u"][c])} bytes '
                          f'(server end: {ue or "open"}, agent: '
                          f'{de or "open"})')
            if ue != 'close' and back != self.wrote['d'][c]:
                self.flag('RelayFIFO', f'channel {c}: at rest the server-side '
                          f'end has {len(back)} of {len(self.wrote["d"][c])} '
                          f'bytes (server end: {ue or "open"}, agent: '
                          f'{de or "open"})')
            if ue and de != 'close' and not (conn.eof_in or conn.lost):
                self.flag('CloseBoth', f'channel {c}: the server-side end did '
                          f'{ue}, the agent never saw an end of file')
            if de and ue != 'close' and not self.ends[c].saw_end():
                self.flag('CloseBoth', f'channel {c}: the agent did {de}, the '
                          'server-side end never saw an end of file')
        path = self.lsn_path()
        self.pair.conn.close()
        for ev in self.release.values():
            ev.set()
        loop.run_until_idle()
        for c, conn in self.aconn.items():
            for _ in range(100):
                if conn.t.closed or not conn.t.inq:
                    break
                conn.t.deliver()
                loop.run_until_idle()
        for c, conn in self.aconn.items():
            if not (conn.eof_in or conn.lost):
                self.flag('NoListenerLeft', f'channel {c}: the connection to '
                          'the agent survives the SSH connection')
        left = [a for a in loop.net.listeners
                if a[0] == 'unix' and str(a[1]).startswith(self.tmp)]
        if left:
            self.flag('NoListenerLeft', f'{len(left)} agent listener(s) '
                      'survive the SSH connection')
        if os.listdir(self.tmp):
            self.flag('NoListenerLeft', 'the temporary directory of the '
                      f'agent listener survives its SSH connection: '
                      f'{os.listdir(self.tmp)}')
        for ctx in loop.exceptions:
            self.flag('Exception', repr(ctx.get('exception') or
                                        ctx.get('message'))[:200])

    def stop(self):
        try:
            for ev in self.release.values():
                ev.set()
            for e in self.ends.values():
                if isinstance(e, StreamEnd) and not e.task.done():
                    e.task.cancel()
            self.agent.stop()
            self.pair.st.auto = True
        except BaseException:           # pylint: disable=broad-except
            pass
        self.pair.stop()
        tempfile.tempdir = self._old_tmp
        shutil.rmtree(self.tmp, ignore_errors=True)
        if self._old_env is None:
            os.environ.pop('SSH_AUTH_SOCK', None)
        else:
            os.environ['SSH_AUTH_SOCK'] = self._old_env


def replay_fwd(steps, client_fwd=True, server_fwd=True, workdir=None, seed=0,
               form=None):
    """steps: [(lbl, state)] of an Agent.tla behaviour (Part = "fwd") or bare
    labels"""
    w = FwdWorld(client_fwd, server_fwd, workdir, seed, form)
    res = dict(l1=[], divergences=[], script=[], opens=[], form=w.form)
    try:
        for j, step in enumerate(steps):
            lbl, st = step if isinstance(step, tuple) and len(step) == 2 \
                and isinstance(step[1], dict) else (step, None)
            kind = lbl[0]
            div = None
            if kind == 'init':
                continue
            if kind == 'session':
                p = w.open_session(lbl[1])
                res['script'].append(f'sess{lbl[1]}')
                if (p is not None) != (client_fwd and server_fwd):
                    div = f'get_agent_path() of session {lbl[1]}: {p}'
            elif kind == 'endsession':
                w.close_session(lbl[1])
                res['script'].append(f'end{lbl[1]}')
            elif kind == 'openagent':
                out = w.open_agent(lbl[1], lbl[2])
                res['script'].append(f'open{lbl[1]}:{lbl[2]}={out}')
                res['opens'].append((lbl[2], out))
                want = lbl[3]
                same = out == want or (lbl[2] == 'path' and out == 'refused'
                                       and want in ('disabled', 'noagent'))
                if not same:
                    div = f'open {lbl[2]}: code {out}, model {want}'
            elif kind == 'agentup':
                w.toggle_agent(bool(lbl[1]))
                res['script'].append(f'agent={lbl[1]}')
            elif kind in ('swrite', 'send', 'relayup', 'relayupend',
                          'awrite', 'aend') and lbl[1] not in w.ends:
                div = f'channel {lbl[1]} is not open'
                res['script'].append(f'{kind}{lbl[1]}?')
            elif kind == 'swrite':
                div = w.srv_write(lbl[1])
                res['script'].append(f'sw{lbl[1]}')
            elif kind == 'send':
                div = w.srv_end(lbl[1], lbl[2])
                res['script'].append(f's{lbl[2]}{lbl[1]}')
            elif kind == 'relayup':
                div = w.relay_up(lbl[1], lbl[2])
                res['script'].append(f'up{lbl[1]}x{lbl[2]}')
            elif kind == 'relayupend':
                div = w.relay_up_end(lbl[1])
                res['script'].append(f'upend{lbl[1]}')
            elif kind == 'awrite':
                div = w.agt_write(lbl[1])
                res['script'].append(f'aw{lbl[1]}')
            elif kind == 'aend':
                div = w.agt_end(lbl[1], lbl[2])
                res['script'].append(f'a{lbl[2]}{lbl[1]}')
            elif kind == 'relaydown':
                div = w.relay_down()
                res['script'].append('down')
            else:
                raise ValueError(f'unknown label {lbl!r}')
            w.check_prefix()
            if st is not None and not div:
                div = compare_fwd(w, st)
            if div:
                res['divergences'].append(f'step {j} {kind}: {div}')
        w.finish()
        res['l1'] = list(w.l1)
        res['touched'] = []
        res['before_request'] = sum(1 for h, acc, asked in w.opens_seen
                                    if acc and not asked)
    finally:
        w.stop()
    return res


def compare_fwd(w, st):
    if (w.lsn_path() is not None) != st['lsn']:
        return f'listener: code {w.lsn_path()}, model {st["lsn"]}'
    for c in w.aconn:
        o = w.observe(c)
        mu, md = st['up'][c - 1], st['down'][c - 1]
        want_up = sum(len(unit('u', c, j)) for j in range(1, mu['got'] + 1))
        if md['end'] != 'close' and o['up_got'] != want_up:
            return (f'channel {c}: the agent has {o["up_got"]} bytes, model '
                    f'{mu["got"]} units = {want_up}')
        if md['end'] != 'close' and o['up_end'] != (mu['endgot'] != 'no'):
            return (f'channel {c}: agent saw end {o["up_end"]}, model '
                    f'{mu["endgot"]}')
        want_dn = sum(len(unit('d', c, j)) for j in range(1, md['got'] + 1))
        if mu['end'] != 'close' and o['down_got'] != want_dn:
            return (f'channel {c}: the server-side end has {o["down_got"]} '
                    f'bytes, model {md["got"]} units = {want_dn}')
        if mu['end'] != 'close' and o['down_end'] != (md['endgot'] != 'no'):
            return (f'channel {c}: server-side end saw end {o["down_end"]}, '
                    f'model {md["endgot"]}')
    return None


# ----------------------------------------------------------------------
# fixed cases around the edges (no model): -> [(clause, detail)]
# ----------------------------------------------------------------------

def misc_cases():
    bad = []
    loop = new_loop()
    path = f'/x04/misc-agent-{os.getpid()}'
    agent = FakeAgent(loop, path, ('ed', 'rsa'))
    agent.auto = True
    agent.start()
    old_env = os.environ.get('SSH_AUTH_SOCK')
    os.environ.pop('SSH_AUTH_SOCK', None)

    def run(coro):
        try:
            return 'ok', loop.run_until_complete(coro)
        except Deadlock:
            return 'hang', None
        except BaseException as exc:    # pylint: disable=broad-except
            return type(exc).__name__, exc
        finally:
            loop.run_until_idle()

    try:
        # 1. no agent path at all: a documented failure, nothing contacted
        cl = SSHAgentClient('')
        how, val = run(cl.get_keys())
        if how != 'ValueError' or agent.conns:
            bad.append(('NoAgentPath', f'get_keys() without an agent path: '
                        f'{how} {val}, {len(agent.conns)} connections'))
        # 2. connect_agent(): connects at once, usable, closed on exit
        async def ctx(p):
            async with asyncssh.connect_agent(p) as ag:
                n_before = len(agent.conns)
                ks = await ag.get_keys()
                return n_before, [k.get_comment_bytes() for k in ks], \
                    len(agent.conns)
        n0 = len(agent.conns)
        how, val = run(ctx(path))
        if how != 'ok' or val[0] != n0 + 1 or val[2] != n0 + 1 or \
                val[1] != [b'ed-key', b'rsa-key']:
            bad.append(('ConnectAgent', f'connect_agent(path): {how} {val}'))
        elif not (agent.conns[-1].eof_in or agent.conns[-1].lost):
            bad.append(('ConnectAgent', 'the connection survives the async '
                        'with block'))
        # 3. ... path from the environment; documented OSError without one
        os.environ['SSH_AUTH_SOCK'] = path
        n0 = len(agent.conns)
        how, val = run(ctx(''))
        if how != 'ok' or len(agent.conns) != n0 + 1:
            bad.append(('ConnectAgent', f'connect_agent() with SSH_AUTH_SOCK: '
                        f'{how} {val}'))
        os.environ.pop('SSH_AUTH_SOCK', None)
        how, val = run(ctx(''))
        if how not in ('FileNotFoundError', 'OSError'):
            bad.append(('ConnectAgent', f'connect_agent() without a path: '
                        f'{how} {val}'))
        how, val = run(ctx('/x04/nobody-listens'))
        if how not in ('ConnectionRefusedError', 'FileNotFoundError',
                       'OSError'):
            bad.append(('ConnectAgent', f'connect_agent(dead path): {how} '
                        f'{val}'))
        # 4. constraints
        for (life, conf), want in {(None, False): b'', (0, False): b'',
                                   (60, False): b'\x01' + u32(60),
                                   (None, True): b'\x02',
                                   (60, True): b'\x01' + u32(60) + b'\x02',
                                   (2 ** 32 - 1, True):
                                       b'\x01' + u32(2 ** 32 - 1) + b'\x02',
                                   }.items():
            got = SSHAgentClient.encode_constraints(life, conf)
            if got != want:
                bad.append(('Constraints', f'encode_constraints({life}, '
                            f'{conf}) = {got.hex()}'))
        # 5. identities of every algorithm family
        cl = SSHAgentClient(path)
        table = {
            b'ssh-ed25519': ((b'ssh-ed25519',), False),
            b'ssh-rsa': (RSA3, False),
            b'ecdsa-sha2-nistp256': ((b'ecdsa-sha2-nistp256',), False),
            b'sk-ssh-ed25519@openssh.com':
                ((b'sk-ssh-ed25519@openssh.com',), False),
            b'ssh-rsa-cert-v01@openssh.com': (RSA3, True),
            b'ssh-ed25519-cert-v01@openssh.com': ((b'ssh-ed25519',), True),
            b'ecdsa-sha2-nistp256-cert-v01@openssh.com':
                ((b'ecdsa-sha2-nistp256',), True),
            b'sk-ssh-ed25519-cert-v01@openssh.com':
                ((b'sk-ssh-ed25519@openssh.com',), True),
        }
        for alg, (sigs, is_cert) in table.items():
            kp = SSHAgentKeyPair(cl, alg, sstr(alg) + b'x', b'c')
            host = (alg,) if is_cert else sigs
            if sorted(kp.sig_algorithms) != sorted(sigs) or \
                    sorted(kp.host_key_algorithms) != sorted(host) or \
                    kp.has_cert != is_cert or kp.algorithm != alg:
                bad.append(('KeyPairTable', f'{alg.decode()}: sig '
                            f'{kp.sig_algorithms} host '
                            f'{kp.host_key_algorithms} cert {kp.has_cert}'))
    finally:
        agent.stop()
        for c in agent.conns:
            c.close()
        close_loop(loop)
        if old_env is not None:
            os.environ['SSH_AUTH_SOCK'] = old_env
    return bad


def auth_cases(workdir):
    """log in with keys only the agent holds (fake agent answering at once
    with REAL signatures); -> [(clause, detail)]"""
    bad = []
    kk = keys()
    tmp = tempfile.mkdtemp(prefix='X04a', dir=workdir)
    old_env = os.environ.get('SSH_AUTH_SOCK')
    os.environ.pop('SSH_AUTH_SOCK', None)
    hostkey = asyncssh.generate_private_key('ssh-ed25519')
    cases = [
        # (name, keys in the agent, authorized key, server signature_algs,
        #  agent_identities, expected (key, flags) of the sign requests,
        #  keys offered to the server in order)
        ('rsa key, default algorithms', ('ed', 'rsa'), 'rsa', None, None,
         [('rsa', 2)], ['ed', 'rsa']),
        ('rsa key, server wants rsa-sha2-512', ('ed', 'rsa'), 'rsa',
         ['rsa-sha2-512'], None, [('rsa', 4)], ['ed', 'rsa']),
        ('ed25519 key', ('ed', 'rsa'), 'ed', None, None, [('ed', 0)],
         ['ed']),
        ('agent_identities names the rsa key', ('ed', 'rsa'), 'rsa', None,
         'rsa', [('rsa', 2)], ['rsa']),
        ('no acceptable key: login refused', ('rsa',), 'ed', None, None,
         [], ['rsa']),
    ]
    try:
        for name, held, auth, sigalgs, ident, want, offered in cases:
            loop = new_loop()
            path = f'/x04/auth-agent-{os.getpid()}'
            agent = FakeAgent(loop, path, held)
            tried = []

            def sink(ev, f, tried=tried):
                if ev != 'pkt_out' or f.get('pkttype') != 50:
                    return
                try:
                    r = Rd(f['payload'])
                    r.byte(), r.string(), r.string()
                    if r.string() == b'publickey':
                        r.byte(), r.string()
                        nm = agent.key_of_blob(r.string())
                        if not tried or tried[-1] != nm:
                            tried.append(nm)
                except ValueError:
                    pass
            _verif.set_sink(sink)
            agent.auto = agent.real_sign = True
            agent.start()
            akeys = os.path.join(tmp, 'authorized_keys')
            with open(akeys, 'wb') as f:
                f.write(kk[auth]['priv'].export_public_key('openssh'))
            skw = dict(server_host_keys=[hostkey],
                       authorized_client_keys=akeys)
            if sigalgs:
                skw['signature_algs'] = sigalgs
            ckw = dict(known_hosts=None, config=None, username='u',
                       agent_path=path, client_keys=[])
            if ident:
                ckw['agent_identities'] = [kk[ident]['blob']]
            got = {}

            async def go():
                srv = await asyncssh.listen('127.0.0.1', 2222, **skw)
                try:
                    conn = await asyncssh.connect('127.0.0.1', 2222, **ckw)
                    got['user'] = conn.get_extra_info('username')
                    conn.close()
                    await conn.wait_closed()
                finally:
                    srv.close()
            try:
                loop.run_until_complete(go())
                how = 'ok'
            except Deadlock:
                how = 'hang'
            except BaseException as exc:    # pylint: disable=broad-except
                how = f'{type(exc).__name__}: {exc}'
            loop.run_until_idle()
            signs = [(a['req'].get('key'), a['req'].get('flags'))
                     for a in agent.answers.values()
                     if a['req'] and a['req'].get('kind') == 'sign']
            lists = sum(1 for a in agent.answers.values()
                        if a['req'] and a['req'].get('kind') == 'list')
            _verif.set_sink(None)
            if not want:
                if not how.startswith('PermissionDenied'):
                    bad.append(('AuthThroughAgent', f'{name}: {how}'))
            elif how != 'ok':
                bad.append(('AuthThroughAgent', f'{name}: login failed: '
                            f'{how}; sign requests {signs}'))
            if bad and bad[-1][1].startswith(name):
                pass
            elif tried != offered:
                bad.append(('AuthThroughAgent', f'{name}: keys offered to '
                            f'the server {tried}, expected {offered}'))
            elif want and (signs[-len(want):] != want or lists != 1):
                bad.append(('AuthThroughAgent', f'{name}: sign requests '
                            f'{signs} (identity lists: {lists}), expected '
                            f'the last to be {want}'))
            elif ident and any(k != ident for k, _ in signs):
                bad.append(('AuthThroughAgent', f'{name}: other keys than '
                            f'{ident} were tried: {signs}'))
            elif not all(c.eof_in or c.lost for c in agent.conns):
                bad.append(('AuthThroughAgent', f'{name}: the connection to '
                            'the agent survives the SSH connection'))
            agent.stop()
            close_loop(loop)
    finally:
        _verif.set_sink(None)
        shutil.rmtree(tmp, ignore_errors=True)
        if old_env is not None:
            os.environ['SSH_AUTH_SOCK'] = old_env
    return bad
