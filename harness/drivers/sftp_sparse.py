"""Driver for specs/SftpIO/Sparse.tla: every case (size, hole layout, page
size) printed by TLC is run as a real sparse transfer of a real sparse file
(4096-byte units, holes made with seek/truncate, checked with SEEK_DATA /
SEEK_HOLE) through the real client and asyncssh's own SFTP server:
  page size K > 0 : get / copy from the server, whose per-reply limit
                    asyncssh.sftp._MAX_SPARSE_RANGES is set to K for the case
                    (unscaled cases with more than 128 real extents are run
                    as well)
  K = 0           : get from a server that does not offer the extension
  K = 99          : put of a local sparse file (local range listing, unpaged)
The ranges requests and replies seen by the client are compared with the
table (conformance); the verdict is the destination against the source.
"""

import os
import shutil

import asyncssh
from asyncssh import sftp as _sftp

from harness.drivers import sftp_io

U = 4096
RANGES_EXT = b'ranges@asyncssh.com'


def _runs(data):
    out = []
    for p in sorted(data):
        if out and out[-1][0] + out[-1][1] == p:
            out[-1][1] += 1
        else:
            out.append([p, 1])
    return [tuple(r) for r in out]


def run_case(w, idx, A, data, K, reqs, op, block=2, max_requests=3,
             version=3):
    """w: sftp_tree.TreeWorld.  Returns dict(l1, diverged, skipped)"""
    loop = w.loop
    res = {'A': A, 'data': sorted(data), 'K': K, 'op': op, 'l1': [],
           'diverged': None, 'block': block}
    rdir = os.path.join(w.remote, f's{idx}')
    ldir = os.path.join(w.local, f's{idx}')
    os.makedirs(rdir)
    os.makedirs(ldir)
    c = {'data': sorted(data), 'L': A}
    src_side = ldir if op == 'put' else rdir
    dst_side = ldir if op == 'get' else rdir
    srcp, dstp = os.path.join(src_side, 'src'), os.path.join(dst_side, 'dst')
    sftp_io.make_local_sparse(srcp, c, U)
    want = [(o * U, n * U) for o, n in _runs(data)]
    try:
        if sftp_io.local_ranges(srcp) != want:
            res['skipped'] = 'file system does not report the hole layout'
            return res
        with open(srcp, 'rb') as f:
            src = f.read()
        old_max = _sftp._MAX_SPARSE_RANGES
        old_ext = _sftp.SFTPServerHandler._extensions
        if 0 < K < 99:
            _sftp._MAX_SPARSE_RANGES = K
        if K == 0:
            _sftp.SFTPServerHandler._extensions = [
                e for e in old_ext if e[0] != RANGES_EXT]
        log, reads = [], []
        try:
            sftp = loop.run_until_complete(
                w.conns['chroot'].start_sftp_client(sftp_version=version))
            h = sftp._handler
            orig_ranges, orig_read, orig_write = \
                h.request_ranges, h.read, h.write

            async def request_ranges(handle, offset, length):
                try:
                    r = await orig_ranges(handle, offset, length)
                except asyncssh.SFTPEOFError:
                    log.append([offset // U, length // U, [], 'eof'])
                    raise
                log.append([offset // U, length // U,
                            [[o // U, n // U] for o, n in r.ranges],
                            'end' if r.at_end else 'more'])
                return r

            async def read(handle, offset, length):
                reads.append((offset, length))
                return await orig_read(handle, offset, length)

            async def write(handle, offset, data_):
                if any(data_) or len(data_) > 1:
                    reads.append((offset, len(data_)))
                return await orig_write(handle, offset, data_)

            h.request_ranges = request_ranges
            if op == 'get':
                h.read = read
            elif op == 'put':
                h.write = write
            rs = '/' + os.path.relpath(srcp, w.remote)
            rd = '/' + os.path.relpath(dstp, w.remote)
            kw = dict(sparse=True, block_size=block * U,
                      max_requests=max_requests)
            exc = None
            try:
                if op == 'get':
                    loop.run_until_complete(sftp.get(rs, dstp, **kw))
                elif op == 'put':
                    loop.run_until_complete(sftp.put(srcp, rd, **kw))
                else:
                    loop.run_until_complete(sftp.copy(rs, rd, **kw))
            except (OSError, asyncssh.Error) as e:
                exc = e
            except BaseException as e:  # pylint: disable=broad-except
                res['l1'].append(('Hang', f'the transfer did not finish: '
                                  f'{type(e).__name__}'))
                return res
            sftp.exit()
            loop.run_until_idle()
        finally:
            _sftp._MAX_SPARSE_RANGES = old_max
            _sftp.SFTPServerHandler._extensions = old_ext
        res['log'] = log
        if exc is not None:
            res['l1'].append(('SpuriousFailure', f'a sparse {op} of an '
                              f'intact file raised {exc!r}'))
            return res
        dst = open(dstp, 'rb').read() if os.path.exists(dstp) else None
        if dst != src:
            got = b'' if dst is None else dst
            n = min(len(got), len(src))
            at = next((i for i in range(n) if got[i] != src[i]), n)
            res['l1'].append((
                'SparseCopyCorrect', f'sparse {op} reported success but the '
                f'destination ({len(got)} bytes) differs from the source '
                f'({len(src)} bytes) from byte {at} (unit {at // U}): got '
                f'{got[at:at + 8]!r}, source {src[at:at + 8]!r}'))
            return res
        # ---- conformance with the table ----
        if op != 'put':
            model = [[r[0], r[1], [list(x) for x in r[2]], r[3]]
                     for r in reqs]
            if log != model:
                res['diverged'] = (f'ranges exchange differs: code={log} '
                                   f'table={model}')
        if res['diverged'] is None and op in ('get', 'put') and K != 0:
            touched = set()
            for o, n in reads:
                touched |= set(range(o // U, (o + n + U - 1) // U))
            if touched != set(data):
                res['diverged'] = (f'units transferred {sorted(touched)} '
                                   f'differ from the data units '
                                   f'{sorted(data)}')
    finally:
        shutil.rmtree(rdir, ignore_errors=True)
        shutil.rmtree(ldir, ignore_errors=True)
    return res


def parse_row(row):
    """<<"SPARSE", A, data, K, reqs>>"""
    return row[1], set(row[2]['$set']), row[3], row[4]
