"""Driver for specs/SftpIO: a scripted SFTP server (raw SFTP framing on a real
SSH session channel of a real asyncssh server, running on the deterministic
loop) that HOLDS every READ / WRITE request until the harness answers it, and
the replay of TLC behaviours of SftpIO into the real client code
(SFTPClientFile.read/write, SFTPClient.get/put/copy).

The scripted server does its own SFTP encoding/decoding (nothing from
asyncssh.sftp is used on the server side), so what is judged is the client.

Model step -> real action
  start          -> the API call is started as a task, loop runs until idle
  ans {a1..ak}   -> the k held requests named by (phase, offset) are answered
                    back to back (data prefix / EOF / error status / OK), then
                    the loop runs until idle
After every step the set of held requests is compared with the model's
`pending' (conformance, reported as divergence); the property monitors (L1)
only look at what the caller got (bytes / exception) and at the destination.
"""

import asyncio
import os
import shutil
import struct
import tempfile

import asyncssh

from harness import tlc
from harness.vloop import new_loop, close_loop

# --- SFTP wire constants (own copy, deliberately not imported from asyncssh) ---
INIT, VERSION, OPEN, CLOSE, READ, WRITE, LSTAT, FSTAT, SETSTAT, FSETSTAT = \
    1, 2, 3, 4, 5, 6, 7, 8, 9, 10
OPENDIR, READDIR, REMOVE, MKDIR, RMDIR, REALPATH, STAT, RENAME, READLINK, \
    SYMLINK, LINK = 11, 12, 13, 14, 15, 16, 17, 18, 19, 20, 21
STATUS, HANDLE, DATA, NAME, ATTRS, EXTENDED, EXTENDED_REPLY = \
    101, 102, 103, 104, 105, 200, 201
FX_OK, FX_EOF, FX_NO_SUCH_FILE, FX_PERMISSION_DENIED, FX_FAILURE, \
    FX_BAD_MESSAGE, FX_OP_UNSUPPORTED = 0, 1, 2, 3, 4, 5, 8


def u32(v):
    return struct.pack('>I', v)


def u64(v):
    return struct.pack('>Q', v)


def sstr(b):
    if isinstance(b, str):
        b = b.encode()
    return u32(len(b)) + bytes(b)


class Cur:
    """Cursor over a received packet body"""

    def __init__(self, data):
        self.d = data
        self.i = 0

    def u8(self):
        v = self.d[self.i]
        self.i += 1
        return v

    def u32(self):
        v = struct.unpack_from('>I', self.d, self.i)[0]
        self.i += 4
        return v

    def u64(self):
        v = struct.unpack_from('>Q', self.d, self.i)[0]
        self.i += 8
        return v

    def str(self):
        n = self.u32()
        if self.i + n > len(self.d):
            raise struct.error('short string')
        v = bytes(self.d[self.i:self.i + n])
        self.i += n
        return v

    def rest(self):
        return bytes(self.d[self.i:])


def attrs_blob(version, size, directory=False):
    """Minimal ATTRS body: size + permissions (+ type byte in v4+)"""
    perms = 0o040755 if directory else 0o100644
    if version == 3:
        return u32(0x5) + u64(size) + u32(perms)
    return u32(0x5) + bytes([2 if directory else 1]) + u64(size) + u32(perms)


class RFile:
    def __init__(self, content=b'', announced=None, ranges=None):
        self.content = bytearray(content)
        self.announced = announced      # None: real length
        self.ranges = ranges            # None: not sparse; else [(off, len)]

    def size(self):
        return len(self.content) if self.announced is None else self.announced


class Held:
    def __init__(self, rid, kind, path, off, length, data):
        self.id = rid
        self.kind = kind                # READ / WRITE / other request type
        self.path = path
        self.off = off
        self.length = length
        self.data = data


class Scripted:
    """One scripted SFTP server session"""

    def __init__(self, process, version=3, exts=(), files=None, hold=(READ, WRITE),
                 ranges_per_reply=128, hold_all=False, natural=None,
                 limits=None):
        self.p = process
        self.version = version
        self.exts = list(exts)
        self.files = files if files is not None else {}
        self.hold = set(hold)
        self.hold_all = hold_all
        self.natural = natural          # _Plan: answer on own clock
        self.limits = limits            # (max_read, max_write) ENFORCED, bytes
        self.refused = 0                # over-long WRITEs refused
        self.capped = 0                 # READs answered short because of the cap
        self.ranges_per_reply = ranges_per_reply
        self.handles = {}
        self.nh = 0
        self.held = []                  # Held, arrival order
        self.log = []                   # (type, id) of every request
        self.raw_log = []               # (type, id, body) when hold_all
        self.closed = False
        self.client_version = None
        self.errors = []

    # ---- sending ----
    def send(self, ptype, body):
        payload = bytes([ptype]) + body
        try:
            self.p.stdout.write(u32(len(payload)) + payload)
        except Exception as exc:        # pylint: disable=broad-except
            self.errors.append(repr(exc))

    def status(self, rid, code, msg=''):
        self.send(STATUS, u32(rid) + u32(code) + sstr(msg) + sstr(''))

    def data(self, rid, data, at_end=None):
        tail = b''
        if at_end is not None and self.version >= 6:
            tail = bytes([1 if at_end else 0])
        self.send(DATA, u32(rid) + sstr(data) + tail)

    # ---- receiving ----
    async def run(self):
        rd = self.p.stdin
        try:
            pkt = await self._recv(rd)
            if pkt[0] != INIT:
                self.closed = True
                return
            self.client_version = struct.unpack_from('>I', pkt, 1)[0]
            self.version = min(self.version, self.client_version)
            self.send(VERSION, u32(self.version) +
                      b''.join(sstr(n) + sstr(v) for n, v in self.exts))
            while True:
                pkt = await self._recv(rd)
                self._request(pkt)
        except (asyncio.IncompleteReadError, ConnectionError,
                asyncssh.Error, struct.error, IndexError) as exc:
            self.closed = True
            if not isinstance(exc, asyncio.IncompleteReadError):
                self.errors.append(repr(exc))
        finally:
            try:
                self.p.exit(0)
            except Exception:           # pylint: disable=broad-except
                pass

    @staticmethod
    async def _recv(rd):
        hdr = await rd.readexactly(4)
        n = struct.unpack('>I', hdr)[0]
        return await rd.readexactly(n)

    def _request(self, pkt):
        ptype = pkt[0]
        cur = Cur(pkt)
        cur.u8()
        rid = cur.u32()
        self.log.append((ptype, rid))
        if self.hold_all:
            self.raw_log.append((ptype, rid, cur.rest()))
            self.held.append(Held(rid, ptype, None, 0, 0, cur.rest()))
            return
        if ptype == OPEN:
            path = cur.str()
            if self.version >= 5:
                cur.u32()
                flags = cur.u32()
                disp = flags & 7
                create = disp != 2 and disp != 4
                trunc = disp in (1, 4)
            else:
                pflags = cur.u32()
                create = bool(pflags & 0x08)
                trunc = bool(pflags & 0x10)
            f = self.files.get(path)
            if f is None:
                if not create:
                    self.status(rid, FX_NO_SUCH_FILE, 'no such file')
                    return
                f = self.files[path] = RFile()
            elif trunc:
                f.content = bytearray()
                f.announced = None
            self.nh += 1
            h = b'H%d' % self.nh
            self.handles[h] = path
            self.send(HANDLE, u32(rid) + sstr(h))
        elif ptype == CLOSE:
            h = cur.str()
            if self.handles.pop(h, None) is None:
                self.status(rid, FX_FAILURE, 'bad handle')
            else:
                self.status(rid, FX_OK)
        elif ptype in (READ, WRITE):
            h = cur.str()
            off = cur.u64()
            if ptype == READ:
                length, data = cur.u32(), None
            else:
                data = cur.str()
                length = len(data)
            req = Held(rid, ptype, self.handles.get(h), off, length, data)
            if self.natural is not None:
                self.held.append(req)
                asyncio.ensure_future(self._natural_answer(req))
            elif ptype in self.hold:
                self.held.append(req)
            else:
                self.answer(req, 'auto')
        elif ptype in (LSTAT, STAT):
            path = cur.str()
            f = self.files.get(path)
            if f is None:
                self.status(rid, FX_NO_SUCH_FILE, 'no such file')
            else:
                self.send(ATTRS, u32(rid) + attrs_blob(self.version, f.size()))
        elif ptype == FSTAT:
            h = cur.str()
            f = self.files.get(self.handles.get(h))
            if f is None:
                self.status(rid, FX_FAILURE, 'bad handle')
            else:
                self.send(ATTRS, u32(rid) + attrs_blob(self.version, f.size()))
        elif ptype in (SETSTAT, FSETSTAT):
            self.status(rid, FX_OK)
        elif ptype == REALPATH:
            path = cur.str()
            name = sstr(path) + (sstr(path) if self.version == 3 else b'')
            self.send(NAME, u32(rid) + u32(1) + name +
                      (u32(0) if self.version == 3 else u32(0) + b'\x05'))
        elif ptype == EXTENDED:
            name = cur.str()
            if name == b'limits@openssh.com' and self.limits:
                self.send(EXTENDED_REPLY, u32(rid) + u64(256 * 1024) +
                          u64(self.limits[0]) + u64(self.limits[1]) + u64(64))
            elif name == b'ranges@asyncssh.com':
                h = cur.str()
                off = cur.u64()
                length = cur.u64()
                f = self.files.get(self.handles.get(h))
                rs = []
                for ro, rl in (f.ranges if f and f.ranges is not None else
                               [(0, f.size())] if f else []):
                    lo, hi = max(ro, off), min(ro + rl, off + length)
                    if hi > lo:
                        rs.append((lo, hi - lo))
                if not rs:
                    self.status(rid, FX_EOF, 'eof')
                else:
                    part = rs[:self.ranges_per_reply]
                    self.send(EXTENDED_REPLY, u32(rid) + u32(len(part)) +
                              b''.join(u64(o) + u64(n) for o, n in part) +
                              bytes([1 if len(part) == len(rs) else 0]))
            else:
                self.status(rid, FX_OP_UNSUPPORTED, 'unsupported')
        else:
            self.status(rid, FX_OP_UNSUPPORTED, 'unsupported')

    async def _natural_answer(self, req):
        """Answer one READ / WRITE from its own task after a seeded delay"""
        p = self.natural
        await asyncio.sleep(p.delay())
        if req not in self.held or self.closed:
            return
        if p.fail():
            self.answer(req, 'err')
        elif req.kind == READ:
            f = self.files.get(req.path)
            avail = max(0, min(req.length, len(f.content) - req.off)) \
                if f is not None else 0
            if avail:
                self.answer(req, 'data', n=min(avail, p.short(req.length)))
            else:
                self.answer(req, 'eof')
        else:
            self.answer(req, 'ok')

    # ---- answering held READ / WRITE ----
    def find(self, kind, off):
        for r in self.held:
            if r.kind == kind and r.off == off:
                return r
        return None

    def answer(self, req, how, n=None, code=FX_FAILURE):
        """how: 'data' (n bytes), 'eof', 'err', 'ok', 'auto' (whatever a
        plain server would do, in full)"""
        if req in self.held:
            self.held.remove(req)
        f = self.files.get(req.path)
        if how == 'auto':
            if req.kind == READ:
                avail = max(0, min(req.length, len(f.content) - req.off)) \
                    if f is not None else 0
                if self.limits and avail > self.limits[0]:
                    avail = self.limits[0]      # a short read, not end of file
                    self.capped += 1
                how, n = ('data', avail) if avail else ('eof', 0)
            elif self.limits and req.length > self.limits[1]:
                how = 'err'
                self.refused += 1
            else:
                how = 'ok'
        if how == 'err' or f is None:
            self.status(req.id, code, 'injected failure')
        elif how == 'eof':
            self.status(req.id, FX_EOF, 'eof')
        elif how == 'data':
            chunk = bytes(f.content[req.off:req.off + n])
            self.data(req.id, chunk,
                      at_end=(req.off + len(chunk) >= len(f.content)))
        elif how == 'ok':
            if req.data:
                end = req.off + len(req.data)
                if len(f.content) < req.off:
                    f.content += bytes(req.off - len(f.content))
                f.content[req.off:end] = req.data
            self.status(req.id, FX_OK)
        else:
            raise ValueError(how)


class NoAuthServer(asyncssh.SSHServer):
    def begin_auth(self, username):
        return False


class World:
    """Deterministic loop + real asyncssh server whose 'sftp' subsystem is
    the scripted peer + one real client connection.  SFTP sessions are opened
    per case on that connection."""

    _key = None

    def __init__(self):
        if World._key is None:
            World._key = asyncssh.generate_private_key('ssh-ed25519')
        self.loop = new_loop()
        self.next_cfg = {}
        self.scripts = []
        self.acceptor = None
        self.conn = None
        self.loop.run_until_complete(self._start())
        self.loop.run_until_idle()

    async def _start(self):
        async def handler(process):
            s = Scripted(process, **self.next_cfg)
            self.scripts.append(s)
            await s.run()

        self.acceptor = await asyncssh.listen(
            '127.0.0.1', 2222, server_factory=NoAuthServer,
            server_host_keys=[World._key], process_factory=handler,
            encoding=None)
        self.conn = await asyncssh.connect(
            '127.0.0.1', 2222, known_hosts=None, config=None,
            client_keys=None, username='u')

    async def _open(self, sftp_version):
        # SSHClientConnection.start_sftp_client() verbatim, except for the
        # subsystem name: the real server only hands 'sftp' to its own
        # SFTPServer, any other subsystem goes to the process factory
        from asyncssh import sftp as _sftp
        writer, reader, _ = await self.conn.open_session(
            subsystem='sftp-scripted', encoding=None)
        return await _sftp.start_sftp_client(
            self.conn, self.loop, 'strict', reader, writer, 'utf-8',
            'strict', sftp_version)

    def session(self, sftp_version=3, **cfg):
        """Open a fresh SFTP session; returns (SFTPClient, Scripted)"""
        self.next_cfg = cfg
        n = len(self.scripts)
        sftp = self.loop.run_until_complete(self._open(sftp_version))
        self.loop.run_until_idle()
        return sftp, self.scripts[n]

    def end_session(self, sftp):
        try:
            sftp.exit()
            self.loop.run_until_idle()
        except BaseException:           # pylint: disable=broad-except
            pass
        self.scripts.clear()

    def close(self):
        try:
            if self.conn is not None:
                self.conn.abort()
            if self.acceptor is not None:
                self.acceptor.close()
            self.loop.run_until_idle()
        except BaseException:           # pylint: disable=broad-except
            pass
        close_loop(self.loop)


_world = None
_cases = 0


def world():
    global _world, _cases
    _cases += 1
    if _world is not None and (_cases % 400 == 0 or _world.loop.exceptions):
        drop_world()
    if _world is None:
        _world = World()
    return _world


def drop_world():
    global _world
    if _world is not None:
        _world.close()
        _world = None


# ----------------------------------------------------------------------
# materialisation of a model configuration
# ----------------------------------------------------------------------

def unit(p, U, salt=0):
    """U non-zero bytes standing for the model's byte id p+1"""
    return bytes(((p * 37 + j * 11 + salt) % 250) + 1 for j in range(U))


def src_bytes(c, U):
    data = set(c['data'])
    return b''.join(unit(p, U) if p in data else bytes(U)
                    for p in range(c['L']))


def write_payload(c, U):
    return b''.join(unit(i, U, salt=5) for i in range(c['size']))


def norm_cfg(c):
    c = dict(c)
    d = c['data']
    c['data'] = sorted(d['$set']) if isinstance(d, dict) else sorted(d)
    return c


def runs(data, A):
    out = []
    for p in range(A):
        if p in data:
            if out and out[-1][0] + out[-1][1] == p:
                out[-1][1] += 1
            else:
                out.append([p, 1])
    return [tuple(r) for r in out]


def held_set(script):
    return {('READ' if r.kind == READ else 'WRITE', r.off, r.length)
            for r in script.held if r.kind in (READ, WRITE)}


def make_local_sparse(path, c, U):
    data = set(c['data'])
    with open(path, 'wb') as f:
        for p in range(c['L']):
            if p in data:
                f.seek(p * U)
                f.write(unit(p, U))
        f.truncate(c['L'] * U)


def local_ranges(path):
    out = []
    size = os.path.getsize(path)
    with open(path, 'rb') as f:
        end = 0
        try:
            while end < size:
                start = f.seek(end, os.SEEK_DATA)
                end = f.seek(start, os.SEEK_HOLE)
                out.append((start, end - start))
        except OSError:
            pass
    return out


VARIANTS = ('arg', 'seek', 'all')


def split_behaviour(steps):
    """[(lbl, state)] of one TLC behaviour -> (cfg, script, states): script =
    [('start',) | ('ans', [(ph, off, k, n), ...])], states[i] = model state
    after script[i] projected onto what the replay compares."""
    cfg = norm_cfg(steps[0][1]['c'])
    script, states = [], []
    for i, (lbl, st) in enumerate(steps[1:], 1):
        if steps[i - 1][1]['done']:
            break                       # stuttering after the end
        if lbl[0] == 'start':
            script.append(('start',))
        elif lbl[0] == 'ans':
            script.append(('ans', sorted((a['ph'], a['off'], a['k'], a['n'])
                                         for a in lbl[1]['$set'])))
        else:
            raise ValueError(f'unexpected label {lbl}')
        states.append({'done': st['done'], 'raised': st['raised'],
                       'pending': sorted(
                           (t['ph'], t['off'], t['size'], t['n'])
                           for t in st['pending']['$set'])})
    return cfg, script, states


def pick_variant(c, rnd):
    if c['op'] == 'read':
        if c['off0'] < c['L'] and c['off0'] + c['size'] == c['L']:
            return rnd.choice(VARIANTS)
        return rnd.choice(VARIANTS[:2])
    if c['op'] == 'write':
        return rnd.choice(VARIANTS[:2])
    return 'arg'


def replay(c, script_in, states=None, U=1, version=3, variant='arg',
           ranges_per_reply=128, err_code=FX_FAILURE, workdir=None,
           late=True, predst=None, progress=False):
    """Run one behaviour against the real client.  c: configuration dict,
    script_in: see split_behaviour, states: model states for conformance
    (None: no conformance, only the property monitors).
    Returns dict(l1=[(clause, text)], diverged, outcome, ...)."""
    w = world()
    loop = w.loop
    op, B, M, off0, size, L, A = (c['op'], c['B'], c['M'], c['off0'],
                                  c['size'], c['L'], c['A'])
    sparse = bool(c['sparse'])
    res = {'cfg': c, 'U': U, 'version': version, 'variant': variant,
           'ranges_per_reply': ranges_per_reply, 'err_code': err_code,
           'l1': [], 'diverged': None, 'script': [], 'outcome': None,
           'err_injected': False, 'steps_done': 0}
    tmp = None
    files = {}
    exts = []
    src = src_bytes(c, U)
    if op in ('read', 'get', 'copy'):
        rf = RFile(src, announced=A * U)
        if sparse:
            rf.ranges = [(o * U, n * U) for o, n in runs(set(c['data']), A)]
            exts.append((b'ranges@asyncssh.com', b'1'))
        files[b'src'] = rf
    if op in ('get', 'put'):
        tmp = tempfile.mkdtemp(prefix='c12f', dir=workdir or tlc.WORK)
    if op == 'put':
        lsrc = os.path.join(tmp, 'src')
        if sparse:
            make_local_sparse(lsrc, c, U)
            want = [(o * U, n * U) for o, n in runs(set(c['data']), A)]
            if local_ranges(lsrc) != want:
                shutil.rmtree(tmp, ignore_errors=True)
                res['skipped'] = 'file system does not report the hole layout'
                return res
        else:
            with open(lsrc, 'wb') as f:
                f.write(src)
    # what is at the destination before the call: nothing, or a file that is
    # shorter / longer than / as long as the source, with other bytes
    res['predst'], res['progress'] = predst, progress
    reports = []
    if predst and op != 'read':
        n = {'shorter': max(len(src) - U, 0), 'equal': len(src),
             'longer': len(src) + 2 * U + 1}[predst]
        if op == 'write':
            n = {'shorter': U, 'equal': (off0 + size) * U,
                 'longer': (off0 + size + 2) * U + 1}[predst]
        junk = b'\xee' * n
        if op == 'get':
            with open(os.path.join(tmp, 'dst'), 'wb') as f:
                f.write(junk)
        else:
            files[b'dst'] = RFile(junk)
    pkw = {'progress_handler': (lambda sp, dp, done, total:
                                reports.append((done, total)))} \
        if progress and op in ('get', 'put', 'copy') else {}
    sftp, script = w.session(sftp_version=version, version=version, exts=exts,
                             files=files, ranges_per_reply=ranges_per_reply)
    got = {}

    async def do_op():
        if op == 'read':
            f = await sftp.open('src', 'rb', block_size=B * U, max_requests=M)
            try:
                if variant == 'arg':
                    data = await f.read(size * U, off0 * U)
                elif variant == 'seek':
                    await f.seek(off0 * U)
                    data = await f.read(size * U)
                else:
                    await f.seek(off0 * U)
                    data = await f.read()
                got['pos'] = await f.tell()
                return data
            finally:
                await f.close()
        elif op == 'write':
            f = await sftp.open('dst', 'wb', block_size=B * U, max_requests=M)
            try:
                payload = write_payload(c, U)
                if variant == 'arg':
                    n = await f.write(payload, off0 * U)
                else:
                    await f.seek(off0 * U)
                    n = await f.write(payload)
                got['pos'] = await f.tell()
                return n
            finally:
                await f.close()
        elif op == 'get':
            await sftp.get('src', os.path.join(tmp, 'dst'), sparse=sparse,
                           block_size=B * U, max_requests=M, **pkw)
        elif op == 'put':
            await sftp.put(os.path.join(tmp, 'src'), 'dst', sparse=sparse,
                           block_size=B * U, max_requests=M, **pkw)
        else:
            await sftp.copy('src', 'dst', sparse=sparse,
                            block_size=B * U, max_requests=M, **pkw)
        return None

    task = None
    model_end = None
    try:
        for i, stp in enumerate(script_in):
            if stp[0] == 'start':
                task = loop.create_task(do_op())
                res['script'].append(('start',))
            else:
                chosen = []
                for ph, off, k, n in stp[1]:
                    req = script.find(READ if ph == 'rd' else WRITE, off * U)
                    if req is None:
                        res['diverged'] = (
                            f'step {i}: no held request for {(ph, off, k, n)}'
                            f'; held={sorted(held_set(script))}')
                        break
                    chosen.append((req, k, n))
                if res['diverged']:
                    break
                for req, k, n in chosen:
                    if k == 'err':
                        res['err_injected'] = True
                        script.answer(req, 'err', code=err_code)
                    elif k == 'data':
                        script.answer(req, 'data', n=n * U)
                    else:
                        script.answer(req, k)
                res['script'].append(('ans', [list(a) for a in stp[1]]))
            loop.run_until_idle()
            res['steps_done'] = i + 1
            if task is None:
                continue
            st = states[i] if states is not None else None
            if st is not None and st['done'] and not task.done() and sparse:
                # a repaired sparse copy may extend the destination with an
                # explicit write of zeros into the trailing hole
                data_end = max([0] + [(o + n) * U for o, n in
                                      runs(set(c['data']), A)])
                if all(r.kind == WRITE and r.off >= data_end and
                       not any(r.data) for r in script.held):
                    for r in list(script.held):
                        script.answer(r, 'ok')
                    loop.run_until_idle()
            if task.done():
                if st is not None and not st['done']:
                    res['diverged'] = (f'step {i}: code finished before the '
                                       f'model')
                elif st is not None:
                    model_end = st
                break
            hs = held_set(script)
            if not hs:
                res['l1'].append(('Hang', 'the call waits although no '
                                  'request is outstanding'))
                break
            if st is not None:
                if st['done']:
                    res['diverged'] = (f'step {i}: model finished, code '
                                       f'still waits for {sorted(hs)}')
                    break
                mp = {('READ', o * U, sz * U) if ph == 'rd'
                      else ('WRITE', o * U, n * U)
                      for ph, o, sz, n in st['pending']}
                if hs != mp:
                    res['diverged'] = (f'step {i}: outstanding requests '
                                       f'differ: code={sorted(hs)} '
                                       f'model={sorted(mp)}')
                    break
        # ---- if the behaviour was cut short, let a plain server finish ----
        guard = 0
        while task is not None and not task.done() and guard < 500 and \
                not any(cl == 'Hang' for cl, _ in res['l1']):
            guard += 1
            if not script.held:
                break
            script.answer(script.held[0], 'auto')
            loop.run_until_idle()
        # ---- outcome ----
        if task is None:
            res['outcome'] = 'not started'
        elif not task.done():
            task.cancel()
            loop.run_until_idle()
            res['outcome'] = 'hung'
            if not any(cl == 'Hang' for cl, _ in res['l1']):
                res['l1'].append(('Hang', 'the call neither returned nor '
                                  'raised after every request was answered'))
        elif task.cancelled():
            res['outcome'] = 'cancelled'
            res['l1'].append(('Hang', 'the call was cancelled from inside'))
        elif task.exception() is not None:
            exc = task.exception()
            res['outcome'] = 'raised'
            res['exc'] = f'{type(exc).__name__}: {exc}'
        else:
            res['outcome'] = 'returned'
        # ---- late replies to requests of cancelled tasks ----
        res['late_replies'] = 0
        if late and script.held:
            res['late_replies'] = len(script.held)
            for req in list(script.held):
                script.answer(req, 'auto')
            loop.run_until_idle()
        # ---- the session must still serve a new request (every reply sent
        #      carried the id of a request the client had made) ----
        if late and task is not None and res['outcome'] in ('returned',
                                                            'raised'):
            ft = loop.create_task(sftp.realpath(b'/followup'))
            loop.run_until_idle()
            if not ft.done():
                ft.cancel()
                loop.run_until_idle()
                res['followup'] = 'no reply'
            elif ft.cancelled():
                res['followup'] = 'cancelled'
            elif ft.exception() is not None:
                res['followup'] = f'{type(ft.exception()).__name__}: ' \
                                  f'{ft.exception()}'
            elif ft.result() != b'/followup':
                res['followup'] = f'wrong answer {ft.result()!r}'
            else:
                res['followup'] = 'ok'
            if res['followup'] != 'ok':
                res['l1'].append(('SessionSurvives', f'after the call '
                                  f'{res["outcome"]} and {res["late_replies"]}'
                                  f' late replies to its cancelled block '
                                  f'requests, a new request on the same '
                                  f'session got: {res["followup"]}'))
        # ---- L1 monitors ----
        short_src = op in ('get', 'put', 'copy') and not sparse and L < A
        if res['outcome'] == 'returned':
            judge_success(res, c, U, op, task.result(), script, tmp, src,
                          got, variant)
            if pkw and not sparse:
                # the progress handler's reports: at least one (also for an
                # empty file), monotone, the last one complete
                okp = bool(reports) and reports[-1] == (A * U, A * U) and \
                    all(x[0] <= y[0] for x, y in zip(reports, reports[1:]))
                if not okp:
                    res['l1'].append(('ProgressReports', f'{op} of {A * U} '
                                      f'bytes: progress reports {reports}'))
            if res['err_injected']:
                res['l1'].append(('FailLoud', 'a request was answered with an '
                                  'error status but the call reported '
                                  'success'))
            if short_src:
                res['l1'].append(('ShortSourceFails', f'source ended at '
                                  f'{L * U} of {A * U} announced bytes but '
                                  f'the call reported success'))
        elif res['outcome'] == 'raised':
            if not (res['err_injected'] or short_src):
                res['l1'].append(('SpuriousFailure', f'no request failed and '
                                  f'the source was complete, but the call '
                                  f'raised {res["exc"]}'))
        # ---- model's prediction of the outcome ----
        if model_end is not None and not res['l1'] and not res['diverged']:
            want = 'raised' if model_end['raised'] else 'returned'
            if res['outcome'] != want:
                res['diverged'] = (f'outcome: code {res["outcome"]} '
                                   f'({res.get("exc")}), model {want}')
        res['loop_exceptions'] = [str(x.get('exception') or x.get('message'))
                                  for x in loop.exceptions]
    finally:
        if task is not None and not task.done():
            task.cancel()
        w.end_session(sftp)
        if loop.exceptions:
            drop_world()
        if tmp:
            shutil.rmtree(tmp, ignore_errors=True)
    return res


def judge_success(res, c, U, op, value, script, tmp, src, got, variant):
    """The call returned normally: is the result exactly the source bytes?"""
    off0, size, L, B = c['off0'], c['size'], c['L'], c['B']
    if op == 'read':
        exp = src[off0 * U:(off0 + size) * U]
        direct = size <= B
        if not isinstance(value, bytes):
            res['l1'].append(('ReadCorrect', f'read returned {type(value)}'))
        elif direct:
            if not exp.startswith(value) or (exp and not value):
                res['l1'].append(('ReadCorrect', f'single-request read '
                                  f'returned {value[:40]!r} (len {len(value)}'
                                  f'), source range is {exp[:40]!r} (len '
                                  f'{len(exp)})'))
        elif value != exp:
            res['l1'].append(('ReadCorrect', mismatch('read result', value,
                                                      exp)))
        if isinstance(value, bytes) and 'pos' in got and variant != 'arg' \
                and got['pos'] != off0 * U + len(value):
            res['l1'].append(('FilePosition', f'tell() = {got["pos"]} after '
                              f'reading {len(value)} bytes at {off0 * U}'))
        res['result_len'] = len(value) if isinstance(value, bytes) else None
    elif op == 'write':
        payload = write_payload(c, U)
        exp = bytes(off0 * U) + payload
        dst = bytes(script.files[b'dst'].content) \
            if b'dst' in script.files else None
        if dst != exp:
            res['l1'].append(('WriteCorrect', mismatch('file after write',
                                                       dst or b'', exp)))
        if value != len(payload):
            res['l1'].append(('WriteCorrect', f'write returned {value} for '
                              f'{len(payload)} bytes'))
        if 'pos' in got and variant != 'arg' and \
                got['pos'] != off0 * U + len(payload):
            res['l1'].append(('FilePosition', f'tell() = {got["pos"]} after '
                              f'writing {len(payload)} bytes at {off0 * U}'))
    else:
        if op == 'get':
            p = os.path.join(tmp, 'dst')
            dst = open(p, 'rb').read() if os.path.exists(p) else None
        else:
            dst = bytes(script.files[b'dst'].content) \
                if b'dst' in script.files else None
        if dst is None:
            res['l1'].append(('CopyCorrect', 'destination does not exist'))
        elif dst != src:
            if c['sparse'] and len(dst) < len(src) and \
                    src.startswith(dst) and not any(src[len(dst):]):
                res['l1'].append(('SparseTrailingHole', f'sparse {op} '
                                  f'reported success but the destination has '
                                  f'{len(dst)} bytes, the source {len(src)} '
                                  f'(trailing hole lost)'))
            else:
                res['l1'].append(('CopyCorrect', mismatch('destination', dst,
                                                          src)))


def mismatch(what, got, exp):
    n = min(len(got), len(exp))
    at = next((i for i in range(n) if got[i] != exp[i]), n)
    return (f'{what} differs from the source: lengths {len(got)}/{len(exp)}, '
            f'first difference at byte {at}: got {got[at:at + 12]!r} '
            f'expected {exp[at:at + 12]!r}')


def behaviours_from_sim(d, prefix='tr_'):
    """(cfg, script, states) triples from a -simulate output directory"""
    out = []
    for _name, steps in tlc.read_sim_traces(d, prefix):
        out.append(split_behaviour([(st['lbl'], st) for _, st in steps]))
    return out


# ======================================================================
# CODE -> SPEC: executions recorded from naturally scheduled transfers
# (validated by TLC against specs/SftpIO/SftpIOTrace.tla)
# ======================================================================

class _AsyncioProxy:
    """Stands in for the `asyncio` name inside asyncssh.sftp while a
    transfer is recorded: everything is the real asyncio, except that the
    return of wait() (the batch of finished block tasks that
    _SFTPParallelIO.iter is about to consume) is reported to the recorder."""

    def __init__(self, on_batch):
        self._on_batch = on_batch

    def __getattr__(self, name):
        return getattr(asyncio, name)

    async def wait(self, fs, *, timeout=None,
                   return_when=asyncio.ALL_COMPLETED):
        done, pending = await asyncio.wait(fs, timeout=timeout,
                                           return_when=return_when)
        self._on_batch(len(done))
        return done, pending


class Recorder:
    """Turns the linearization points of one API call into the events of
    SftpIOTrace: request issued (handler.read/write called), answer consumed
    (that call returned / raised inside the block task), batch consumed
    (asyncio.wait returned in iter)."""

    def __init__(self, c, U):
        self.c, self.U = c, U
        self.direct = c['op'] in ('read', 'write') and c['size'] <= c['B']
        self.fresh_ph = 'wr' if c['op'] in ('write', 'put') else 'rd'
        self.ev = []
        self.final = []             # answers of tasks that are finished now
        self.anchor = None          # the start / batch step new requests belong to
        self.problems = []
        self.err_injected = False
        self.nreq = 0
        self.max_out = 0
        self.outstanding = 0
        self.ext = set()
        self.outside = None         # why the execution is outside the model's vocabulary
        self.data_end = max([0] + [(o + n) * U for o, n in
                                   runs(set(c['data']), c['A'])])

    def _u(self, v, what):
        if v % self.U:
            self.problems.append(f'{what} {v} is not a multiple of the unit '
                                 f'{self.U}')
        return v // self.U

    def start(self):
        self.anchor = {'e': 'start', 'new': [], 'done': False}
        self.ev.append(self.anchor)

    def req(self, ph, off, ln, data=None):
        if self.c['sparse'] and ph == 'wr' and off >= self.data_end and \
                data is not None and not any(data) and \
                self.c['op'] in ('put', 'copy'):
            self.ext.add(off)       # the destination is extended over the
            return                  # trailing hole (not a block request)
        self.nreq += 1
        self.outstanding += 1
        self.max_out = max(self.max_out, self.outstanding)
        if ph == self.fresh_ph:
            if self.anchor is None:
                self.problems.append('request before the call started')
                return
            self.anchor['new'].append([self._u(off, 'offset'),
                                       self._u(ln, 'length')])

    def ans(self, ph, off, ln, k, n):
        if off in self.ext and ph == 'wr':
            if k == 'err':
                self.err_injected = True
                self.outside = ('the write that extends the destination '
                                'over the trailing hole was refused (the '
                                'model extends atomically)')
            return
        self.outstanding -= 1
        if k == 'err':
            self.err_injected = True
        x = {'off': self._u(off, 'offset'), 'ph': ph,
             'size': self._u(ln, 'length'), 'k': k, 'n': self._u(n, 'count')}
        if self.direct:
            self.anchor = {'e': 'ans', 'a': [x], 'new': [], 'done': False}
            self.ev.append(self.anchor)
        elif self.c['op'] == 'copy' and ph == 'rd' and k in ('data', 'eof'):
            # the task goes on to write what it read: not finished
            self.ev.append({'e': 'ans', 'a': [x], 'new': [], 'done': False})
        else:
            self.final.append(x)

    def batch(self, ndone):
        if ndone != len(self.final):
            self.problems.append(f'asyncio.wait returned {ndone} finished '
                                 f'tasks, {len(self.final)} final answers '
                                 f'were logged')
        self.anchor = {'e': 'ans', 'a': self.final, 'new': [], 'done': False}
        self.final = []
        self.ev.append(self.anchor)

    def end(self, raised, ids):
        if self.final:
            self.problems.append(f'{len(self.final)} answers were consumed '
                                 f'by no batch')
        steps = [e for e in self.ev if e['e'] in ('start', 'ans')]
        if steps:
            steps[-1]['done'] = True
        self.ev.append({'e': 'end', 'raised': raised, 'data': ids})

    def instrument(self, handler):
        oread, owrite = handler.read, handler.write
        rec = self

        async def read(handle, offset, length):
            rec.req('rd', offset, length)
            try:
                data, at_end = await oread(handle, offset, length)
            except asyncio.CancelledError:
                raise
            except asyncssh.SFTPEOFError:
                rec.ans('rd', offset, length, 'eof', 0)
                raise
            except (asyncssh.SFTPError, OSError):
                rec.ans('rd', offset, length, 'err', 0)
                raise
            rec.ans('rd', offset, length, 'data', len(data))
            return data, at_end

        async def write(handle, offset, data):
            rec.req('wr', offset, len(data), data)
            try:
                r = await owrite(handle, offset, data)
            except asyncio.CancelledError:
                raise
            except (asyncssh.SFTPError, OSError):
                rec.ans('wr', offset, len(data), 'err', 0)
                raise
            rec.ans('wr', offset, len(data), 'ok', len(data))
            return r

        handler.read, handler.write = read, write


def ids_of(data, U, table):
    """bytes -> byte ids of the model (0 = zero unit, 9999 = foreign)"""
    out = []
    for i in range(0, len(data), U):
        ch = bytes(data[i:i + U])
        out.append(0 if not any(ch) and len(ch) == U
                   else table.get(ch, 9999))
    return out


class _Plan:
    """Seeded behaviour of a natural server"""

    def __init__(self, rng, U, p_err, p_short, delays):
        self.rng, self.U = rng, U
        self.p_err, self.p_short, self.delays = p_err, p_short, delays
        self.announced = None

    def delay(self):
        return self.rng.choice(self.delays)

    def fail(self):
        return self.rng.random() < self.p_err

    def short(self, size):
        """bytes to serve for a request of `size` bytes"""
        units = max(1, size // self.U)
        if units > 1 and self.rng.random() < self.p_short:
            return self.rng.randint(1, units - 1) * self.U
        return size


class NaturalServer(asyncssh.SFTPServer):
    """A real SFTPServer (real files in a chroot) that answers on its own
    clock: seeded delays, short reads, occasional errors; EOF where the
    file ends; the announced size of 'src' may exceed its length."""

    root = None
    plan = None

    def __init__(self, chan):
        super().__init__(chan, chroot=NaturalServer.root)

    async def read(self, file_obj, offset, size):
        p = NaturalServer.plan
        await asyncio.sleep(p.delay())
        if p.fail():
            raise OSError(5, 'injected I/O error')
        return super().read(file_obj, offset, p.short(size))

    async def write(self, file_obj, offset, data):
        p = NaturalServer.plan
        await asyncio.sleep(p.delay())
        if p.fail():
            raise OSError(5, 'injected I/O error')
        return super().write(file_obj, offset, data)

    def _announce(self, path, r):
        p = NaturalServer.plan
        if p.announced is not None and os.path.basename(path) == b'src':
            a = asyncssh.SFTPAttrs.from_local(r)
            a.size = p.announced
            return a
        return r

    def lstat(self, path):
        return self._announce(path, super().lstat(path))

    def stat(self, path):
        return self._announce(path, super().stat(path))


class NaturalWorld:
    """Loop + real asyncssh server with the real SFTP server side + client"""

    _key = None

    def __init__(self):
        if NaturalWorld._key is None:
            NaturalWorld._key = asyncssh.generate_private_key('ssh-ed25519')
        os.makedirs(tlc.WORK, exist_ok=True)
        self.root = tempfile.mkdtemp(prefix='C12nat', dir=tlc.WORK)
        NaturalServer.root = self.root.encode()
        self.loop = new_loop()
        self.loop.run_until_complete(self._start())
        self.loop.run_until_idle()
        self.ct, self.st = self.loop.net.all_transports[-2:]

    async def _start(self):
        self.acceptor = await asyncssh.listen(
            '127.0.0.1', 2224, server_factory=NoAuthServer,
            server_host_keys=[NaturalWorld._key], sftp_factory=NaturalServer,
            sftp_version=6)
        self.conn = await asyncssh.connect(
            '127.0.0.1', 2224, known_hosts=None, config=None,
            client_keys=None, username='u')

    def close(self):
        try:
            self.conn.abort()
            self.acceptor.close()
            self.loop.run_until_idle()
        except BaseException:           # pylint: disable=broad-except
            pass
        close_loop(self.loop)
        shutil.rmtree(self.root, ignore_errors=True)


_nworld = None


def natural_world():
    global _nworld
    if _nworld is not None and _nworld.loop.exceptions:
        drop_natural_world()
    if _nworld is None:
        _nworld = NaturalWorld()
    return _nworld


def drop_natural_world():
    global _nworld
    if _nworld is not None:
        _nworld.close()
        _nworld = None


NAT_VARIANTS = ('arg', 'seek', 'argseek', 'all')


def natural_cfg(rng, server):
    """A seeded API call: sizes around block and request-count boundaries"""
    ops = ['read', 'read', 'write', 'get', 'put'] + \
        (['copy', 'copy'] if server == 'scripted' else [])
    op = rng.choice(ops)
    B = rng.choice([1, 2, 3, 4, 5, 8])
    M = rng.choice([1, 2, 3, 4, 6])
    k = rng.randint(0, 6)
    n = max(0, rng.choice([k * B, k * B + 1, k * B - 1, M * B, M * B + 1,
                           M * B - 1, rng.randint(0, 40)]))
    sparse = op in ('get', 'put', 'copy') and rng.random() < 0.35
    if op == 'read':
        L = n
        off0 = rng.choice([0, 0, 1, B, max(0, L - 1), rng.randint(0, L + 2)])
        size = max(1, rng.choice([L - off0, L - off0 + 2, B + 1, 2 * B,
                                  rng.randint(1, 40)]))
        c = dict(op=op, B=B, M=M, off0=off0, size=size, L=L, A=L,
                 sparse=False, data=list(range(L)))
    elif op == 'write':
        c = dict(op=op, B=B, M=M, off0=rng.choice([0, 0, 1, 2]),
                 size=max(1, n), L=0, A=0, sparse=False, data=[])
    elif sparse:
        A = min(n, 24)
        data = [p for p in range(A) if rng.random() < 0.6]
        c = dict(op=op, B=B, M=M, off0=0, size=A, L=A, A=A, sparse=True,
                 data=data)
    else:
        A = n
        L = A if op == 'put' or rng.random() < 0.85 else rng.randint(0, A)
        c = dict(op=op, B=B, M=M, off0=0, size=A, L=L, A=A, sparse=False,
                 data=list(range(L)))
    return c


def record_natural(seed, server='scripted', c=None, workdir=None):
    """One real API call of the real client against a server that answers on
    its own clock.  server = 'real' (asyncssh's own SFTP server side with a
    NaturalServer, replies in request order) | 'scripted' (the raw SFTP peer
    answering each request from its own task after a random delay: replies
    complete OUT OF ORDER).  Returns dict(trace, l1, args, ...)."""
    import random
    from asyncssh import sftp as _sftp
    rng = random.Random(seed)
    if c is None:
        c = natural_cfg(rng, server)
    op, B, M, off0, size, L, A = (c['op'], c['B'], c['M'], c['off0'],
                                  c['size'], c['L'], c['A'])
    sparse = bool(c['sparse'])
    real_holes = sparse and (server == 'real' or op == 'put')
    U = 4096 if real_holes else rng.choice([1, 1, 1, 2, 7])
    if c['op'] == 'read' and off0 < L and off0 + size == L:
        variant = rng.choice(NAT_VARIANTS)
    elif c['op'] in ('read', 'write'):
        variant = rng.choice(NAT_VARIANTS[:3])
    else:
        variant = 'arg'
    version = rng.choice([3, 4, 5, 6])
    plan = _Plan(rng, U, p_err=rng.choice([0, 0, 0.03, 0.1]),
                 p_short=rng.choice([0, 0.3, 0.6]),
                 delays=rng.choice([[0], [0, 0.001, 0.002],
                                    [0, 0, 0.001, 0.003, 0.01, 0.05]]))
    plan.announced = A * U if A != L else None
    res = {'cfg': c, 'U': U, 'variant': variant, 'version': version,
           'server': server, 'seed': seed, 'l1': [], 'outcome': None,
           'args': dict(seed=seed, server=server), 'trace': None,
           'problems': []}
    src = src_bytes(c, U)
    table = {unit(p, U): p + 1 for p in range(L)}
    if op == 'write':
        table = {unit(i, U, 5): i + 1 for i in range(size)}
    rec = Recorder(c, U)
    tmp = tempfile.mkdtemp(prefix='C12natf', dir=workdir or tlc.WORK)
    script = None
    want_ranges = [(o * U, n * U) for o, n in runs(set(c['data']), A)]
    try:
        # ---- the two file systems ----
        if op == 'put':
            lsrc = os.path.join(tmp, 'src')
            if sparse:
                make_local_sparse(lsrc, c, U)
                if local_ranges(lsrc) != want_ranges:
                    res['skipped'] = 'file system does not report holes'
                    return res
            else:
                with open(lsrc, 'wb') as f:
                    f.write(src)
        if server == 'real':
            w = natural_world()
            loop = w.loop
            for n in ('src', 'dst'):
                try:
                    os.remove(os.path.join(w.root, n))
                except FileNotFoundError:
                    pass
            if op in ('read', 'get'):
                p = os.path.join(w.root, 'src')
                if sparse:
                    make_local_sparse(p, c, U)
                    if local_ranges(p) != want_ranges:
                        res['skipped'] = 'file system does not report holes'
                        return res
                else:
                    with open(p, 'wb') as f:
                        f.write(src)
            NaturalServer.plan = plan
            sftp = loop.run_until_complete(
                w.conn.start_sftp_client(sftp_version=version))
            chunk = rng.choice([None, 'any', 'tiny'])
            for t in (w.ct, w.st):
                t.chunker = None if chunk is None else \
                    (lambda avail: rng.randint(1, max(1, avail))) \
                    if chunk == 'any' else (lambda avail: rng.randint(1, 9))
        else:
            w = world()
            loop = w.loop
            files, exts = {}, []
            if op in ('read', 'get', 'copy'):
                rf = RFile(src, announced=A * U)
                if sparse:
                    rf.ranges = want_ranges
                    exts.append((b'ranges@asyncssh.com', b'1'))
                files[b'src'] = rf
            sftp, script = w.session(
                sftp_version=version, version=version, exts=exts, files=files,
                ranges_per_reply=rng.choice([1, 128]), natural=plan)
        got = {}

        async def do_op():
            other = rng.choice([0, 1, B, L + 3]) * U
            if op == 'read':
                f = await sftp.open('src', 'rb', block_size=B * U,
                                    max_requests=M)
                try:
                    rec.start()
                    if variant in ('arg', 'argseek'):
                        if variant == 'argseek':
                            await f.seek(other)
                        data = await f.read(size * U, off0 * U)
                    else:
                        await f.seek(off0 * U)
                        data = await (f.read(size * U) if variant == 'seek'
                                      else f.read())
                    got['pos'] = await f.tell()
                    return data
                finally:
                    await f.close()
            elif op == 'write':
                f = await sftp.open('dst', 'wb', block_size=B * U,
                                    max_requests=M)
                try:
                    rec.start()
                    payload = write_payload(c, U)
                    if variant in ('arg', 'argseek'):
                        if variant == 'argseek':
                            await f.seek(other + U)
                        n = await f.write(payload, off0 * U)
                    else:
                        await f.seek(off0 * U)
                        n = await f.write(payload)
                    got['pos'] = await f.tell()
                    return n
                finally:
                    await f.close()
            rec.start()
            if op == 'get':
                await sftp.get('src', os.path.join(tmp, 'dst'), sparse=sparse,
                               block_size=B * U, max_requests=M)
            elif op == 'put':
                await sftp.put(os.path.join(tmp, 'src'), 'dst', sparse=sparse,
                               block_size=B * U, max_requests=M)
            else:
                await sftp.copy('src', 'dst', sparse=sparse,
                                block_size=B * U, max_requests=M)
            return None

        rec.instrument(sftp._handler)
        old = _sftp.asyncio
        _sftp.asyncio = _AsyncioProxy(rec.batch)
        value = exc = None
        try:
            task = loop.create_task(do_op())
            try:
                loop.run_until_complete(asyncio.wait([task]))
            except BaseException as e:   # pylint: disable=broad-except
                res['l1'].append(('Hang', f'the call neither returned nor '
                                  f'raised: {type(e).__name__}'))
                task.cancel()
                res['outcome'] = 'hung'
        finally:
            _sftp.asyncio = old
            if server == 'real':
                for t in (w.ct, w.st):
                    t.chunker = None
        if res['outcome'] != 'hung':
            if task.cancelled():
                res['outcome'] = 'cancelled'
                res['l1'].append(('Hang', 'the call was cancelled inside'))
            elif task.exception() is not None:
                exc = task.exception()
                res['outcome'] = 'raised'
                res['exc'] = f'{type(exc).__name__}: {exc}'
            else:
                res['outcome'] = 'returned'
                value = task.result()
        loop.run_until_idle()
        # ---- what the destination holds ----
        if op == 'get':
            p = os.path.join(tmp, 'dst')
            dstb = open(p, 'rb').read() if os.path.exists(p) else None
        elif op in ('write', 'put', 'copy'):
            if server == 'real':
                p = os.path.join(w.root, 'dst')
                dstb = open(p, 'rb').read() if os.path.exists(p) else None
            else:
                dstb = bytes(script.files[b'dst'].content) \
                    if b'dst' in script.files else None
        else:
            dstb = None
        # ---- L1 monitors (same clauses as the replay) ----
        res['err_injected'] = rec.err_injected
        short_src = op in ('get', 'put', 'copy') and not sparse and L < A
        if res['outcome'] == 'returned':
            holder = script
            if op != 'get' and server == 'real':
                class _H:                # pylint: disable=too-few-public-methods
                    files = {b'dst': RFile(dstb)} if dstb is not None else {}
                holder = _H
            judge_success(res, c, U, op, value, holder, tmp, src, got,
                          'arg' if variant == 'argseek' else variant)
            if rec.err_injected:
                res['l1'].append(('FailLoud', 'a request was answered with '
                                  'an error status but the call reported '
                                  'success'))
            if short_src:
                res['l1'].append(('ShortSourceFails', f'source ended at '
                                  f'{L * U} of {A * U} announced bytes but '
                                  f'the call reported success'))
        elif res['outcome'] == 'raised' and not (rec.err_injected or
                                                 short_src):
            res['l1'].append(('SpuriousFailure', f'no request failed and the '
                              f'source was complete, but the call raised '
                              f'{res["exc"]}'))
        # ---- the trace ----
        if res['outcome'] in ('returned', 'raised'):
            if op == 'read':
                ids = ids_of(value, U, table) \
                    if isinstance(value, bytes) else [9999]
            else:
                ids = ids_of(dstb or b'', U, table)
            rec.end(res['outcome'] == 'raised', ids)
            if rec.outside:
                res['untraced'] = rec.outside
            else:
                res['trace'] = {'c': c, 'ev': rec.ev}
        res['problems'] = rec.problems
        res['nreq'] = rec.nreq
        res['max_outstanding'] = rec.max_out
        res['nsteps'] = len(rec.ev)
        res['loop_exceptions'] = [str(x.get('exception') or x.get('message'))
                                  for x in loop.exceptions]
        try:
            sftp.exit()
            loop.run_until_idle()
        except BaseException:           # pylint: disable=broad-except
            pass
        if server != 'real':
            w.scripts.clear()
            if loop.exceptions:
                drop_world()
    finally:
        shutil.rmtree(tmp, ignore_errors=True)
    return res


# ======================================================================
# server limits as a dimension (specs/SftpIO/Limits.tla)
# ======================================================================

def limits_case(op, lim, B, size, short, version=3, max_requests=3,
                workdir=None):
    """One row of the Limits table: a scripted server that advertises (or
    not) limits@openssh.com and ENFORCES them, the real client API with an
    explicit or default block size.  Units of 4096 bytes."""
    U = 4096
    w = world()
    loop = w.loop
    avail = size - 1 if (short and size > 1) else size
    res = {'op': op, 'lim': lim, 'B': B, 'size': size, 'short': short,
           'l1': [], 'outcome': None}
    c = {'data': list(range(avail)), 'L': avail}
    src = src_bytes(c, 1) if False else b''.join(unit(p, U) for p in
                                                 range(avail))
    payload = b''.join(unit(i, U, 5) for i in range(size))
    files = {}
    if op in ('read', 'readall', 'get', 'copy'):
        files[b'src'] = RFile(src)
    exts = [(b'limits@openssh.com', b'1')] if lim else []
    tmp = tempfile.mkdtemp(prefix='C12lim', dir=workdir or tlc.WORK)
    sftp, script = w.session(
        sftp_version=version, version=version, exts=exts, files=files,
        hold=(), limits=(lim * U, lim * U) if lim else None)
    bs = -1 if B == -1 else B * U
    try:
        async def call():
            if op in ('read', 'readall'):
                f = await sftp.open('src', 'rb', block_size=bs,
                                    max_requests=max_requests)
                try:
                    return await (f.read(size * U, 0) if op == 'read'
                                  else f.read())
                finally:
                    await f.close()
            if op == 'write':
                f = await sftp.open('dst', 'wb', block_size=bs,
                                    max_requests=max_requests)
                try:
                    return await f.write(payload, 0)
                finally:
                    await f.close()
            kw = dict(block_size=bs, max_requests=max_requests, sparse=False)
            if op == 'get':
                return await sftp.get('src', os.path.join(tmp, 'dst'), **kw)
            if op == 'put':
                with open(os.path.join(tmp, 'src'), 'wb') as lf:
                    lf.write(src)
                return await sftp.put(os.path.join(tmp, 'src'), 'dst', **kw)
            return await sftp.copy('src', 'dst', **kw)

        task = loop.create_task(call())
        try:
            loop.run_until_complete(asyncio.wait([task]))
        except BaseException as e:       # pylint: disable=broad-except
            res['l1'].append(('Hang', f'the call did not finish: '
                              f'{type(e).__name__}'))
            task.cancel()
            return res
        exc = None if task.cancelled() else task.exception()
        res['capped'], res['refused'] = script.capped, script.refused
        if exc is not None:
            res['outcome'] = ('error',)
            res['exc'] = repr(exc)
            if not isinstance(exc, (asyncssh.Error, OSError)):
                res['l1'].append(('LimitsCorrect', f'{op} raised '
                                  f'{exc!r}'))
            elif not script.refused:
                res['l1'].append(('SpuriousFailure', f'{op}: the server '
                                  f'refused nothing, yet the call raised '
                                  f'{exc!r}'))
            return res
        val = task.result()
        if op in ('read', 'readall'):
            want = src[:size * U] if op == 'read' else src
            res['outcome'] = ('data', len(val) // U)
            if val != want:
                short_taken = want.startswith(val) and len(val) < len(want)
                res['l1'].append((
                    'ShortReadContinued' if short_taken else 'ReadCorrect',
                    f'{op} of {len(want)} bytes (block_size={bs}, server '
                    f'limit {lim * U or "not advertised"}) returned '
                    f'{len(val)} bytes' + (' - the server\'s short answer '
                                           'was taken for the whole result'
                                           if short_taken else '')))
        else:
            if op == 'get':
                p = os.path.join(tmp, 'dst')
                dst = open(p, 'rb').read() if os.path.exists(p) else None
            else:
                dst = bytes(script.files[b'dst'].content) \
                    if b'dst' in script.files else None
            want = payload if op == 'write' else src
            res['outcome'] = ('ok', len(want) // U)
            if dst != want:
                res['l1'].append(('CopyCorrect' if op != 'write' else
                                  'WriteCorrect',
                                  mismatch(f'destination of {op}', dst or b'',
                                           want)))
    finally:
        w.end_session(sftp)
        if loop.exceptions:
            drop_world()
        shutil.rmtree(tmp, ignore_errors=True)
    return res
